"""C20 helpers: the catalogue of size-parameterised families, call counting under sys.setprofile, and the
instrumented loader / dumper that observe the primitive lengths through the stage (mixin) interfaces.

Nothing here decides anything: it generates inputs, observes, and projects to integer records that TLC judges
(spec/Trace_Work.tla).  No wall-clock time is read anywhere."""
import io, sys

# ---------------------------------------------------------------------------------------------- call counting


class WorkBudget(BaseException):
    """raised by the counting hook when a measurement has used its budget of calls (see _counted)"""


def count_calls(fn, budget=None):
    """number of interpreter-level function calls ('call' and 'c_call' profile events) made while fn() runs; with a
    budget the run is abandoned (WorkBudget) as soon as more calls than that have been counted"""
    n = [0]
    if budget is None:
        def prof(frame, event, arg):
            if event == 'call' or event == 'c_call':
                n[0] += 1
    else:
        def prof(frame, event, arg):
            if event == 'call' or event == 'c_call':
                n[0] += 1
                if n[0] > budget:
                    sys.setprofile(None)
                    raise WorkBudget()
    sys.setprofile(prof)
    try:
        fn()
    finally:
        sys.setprofile(None)
    return n[0] - 1          # the c_call of sys.setprofile(None) itself


# ---------------------------------------------------------------------------------------------- load families
# Every family: name -> text(n); depth(n) / flow(n): nesting the structural bounds depend on.
W = 'lorem'


def _lines(fmt, n):
    return ''.join(fmt % {'i': i} for i in range(n))


LOAD = {
    # long scalars of every style, one line and many lines
    'plain_one_line':       lambda n: 'k: ' + ' '.join([W] * n) + '\n',
    'plain_multi_line':     lambda n: 'k: ' + '\n  '.join([W + ' ' + W] * n) + '\n',
    'plain_one_word':       lambda n: 'k: ' + W * n + '\n',
    'single_one_line':      lambda n: "k: '" + ' '.join([W] * n) + "'\n",
    'single_multi_line':    lambda n: "k: '" + '\n  '.join([W + ' ' + W] * n) + "'\n",
    'single_quote_escapes': lambda n: "k: '" + "a''" * n + "'\n",
    'double_one_line':      lambda n: 'k: "' + ' '.join([W] * n) + '"\n',
    'double_multi_line':    lambda n: 'k: "' + '\n  '.join([W + ' ' + W] * n) + '"\n',
    'double_escapes':       lambda n: 'k: "' + '\\n\\x41\\u00e9\\\\ ' * n + '"\n',
    'double_escaped_breaks': lambda n: 'k: "' + 'a\\\n  ' * n + '"\n',
    'literal_lines':        lambda n: 'k: |\n' + ('  ' + W + ' ' + W + '\n') * n,
    'literal_one_line':     lambda n: 'k: |\n  ' + ' '.join([W] * n) + '\n',
    'folded_lines':         lambda n: 'k: >\n' + ('  ' + W + ' ' + W + '\n') * n,
    'folded_more_indented': lambda n: 'k: >\n' + ('  ' + W + '\n   ' + W + '\n\n') * n,
    'literal_keep_blank_tail': lambda n: 'k: |+\n  a\n' + '\n' * n,
    # many entries
    'block_seq':            lambda n: _lines('- item%(i)07d\n', n),
    'block_seq_typed':      lambda n: _lines('- %(i)07d\n- 1.5\n- true\n- 2001-01-01\n- ~\n', n // 5 + 1),
    'flow_seq_one_line':    lambda n: '[' + ', '.join(['a'] * n) + ']\n',
    'flow_seq_multi_line':  lambda n: '[\n' + ',\n'.join(['  a, b'] * n) + '\n]\n',
    'block_map':            lambda n: _lines('key%(i)07d: v\n', n),
    'flow_map_one_line':    lambda n: '{' + ', '.join('k%07d: v' % i for i in range(n)) + '}\n',
    'flow_map_multi_line':  lambda n: '{\n' + ',\n'.join('  k%07d: v' % i for i in range(n)) + '\n}\n',
    'map_of_seqs':          lambda n: _lines('k%(i)07d:\n  - a\n  - b\n', n),
    'seq_of_maps':          lambda n: _lines('- a: 1\n  b: 2\n', n),
    'seq_of_flow_seqs':     lambda n: _lines('- [a, b, c, d, e, f, g, h]\n', n),
    'explicit_keys':        lambda n: _lines('? key%(i)07d\n: v\n', n),
    'set_entries':          lambda n: '!!set\n' + _lines('? e%(i)07d\n', n),
    'omap_entries':         lambda n: '!!omap\n' + _lines('- k%(i)07d: v\n', n),
    'merge_keys':           lambda n: 'base: &b {x: 1, y: 2}\nl:\n' + _lines('  - {<<: *b, z: %(i)07d}\n', n),
    'merge_large_base':     lambda n: 'base: &b\n' + _lines('  x%(i)07d: 1\n', n) + 'derived:\n  <<: *b\n' + _lines('  y%(i)07d: 2\n', n),
    'merge_overriding':     lambda n: 'base: &b\n' + _lines('  x%(i)07d: 1\n', n) + 'derived:\n  <<: *b\n' + _lines('  x%(i)07d: 2\n', n),
    'merge_list_sources':   lambda n: _lines('s%(i)07d: &s%(i)07d {a%(i)07d: 1}\n', n) + 'all:\n  <<: [' + ', '.join('*s%07d' % i for i in range(n)) + ']\n',
    # many documents
    'documents':            lambda n: _lines('--- d%(i)07d\n', n),
    'documents_explicit_end': lambda n: _lines('--- d%(i)07d\n...\n', n),
    'documents_tag_directive': lambda n: _lines('%%TAG !e! tag:yaml.org,2002:\n--- !e!str d%(i)07d\n...\n', n),
    # anchors
    'anchors_then_aliases': lambda n: _lines('- &a%(i)07d x\n', n) + _lines('- *a%(i)07d\n', n),
    'one_anchor_many_aliases': lambda n: '- &a [x]\n' + '- *a\n' * n,
    'anchored_collections': lambda n: _lines('- &a%(i)07d [x, y]\n- *a%(i)07d\n', n),
    # comments, blanks
    'comment_one_long':     lambda n: 'a: 1  # ' + ' '.join([W] * n) + '\nb: 2\n',
    'comment_lines':        lambda n: 'a: 1\n' + ('# ' + W + ' ' + W + '\n') * n + 'b: 2\n',
    'comment_after_entries': lambda n: _lines('- a%(i)07d # c\n', n),
    'blank_lines':          lambda n: 'a: 1\n' + '\n' * n + 'b: 2\n',
    'blank_lines_with_spaces': lambda n: 'a: 1\n' + '    \n' * n + 'b: 2\n',
    'trailing_spaces':      lambda n: 'a: 1' + ' ' * n + '\nb: 2\n',
    'blank_lines_in_plain': lambda n: 'a: x\n' + '\n' * n + '  y\n',
    # long keys around the 1024-character limit, long tags, long anchors
    'keys_just_under_limit': lambda n: _lines(('k%(i)07d' + 'x' * 1000) + ': v\n', n),
    'explicit_keys_over_limit': lambda n: _lines('? ' + ('k%(i)07d' + 'x' * 1100) + '\n: v\n', n),
    'one_explicit_key_growing': lambda n: '? ' + ' '.join([W] * n) + '\n: v\n',
    'quoted_keys_just_under_limit': lambda n: _lines('"k%(i)07d' + ' x' * 500 + '": v\n', n),
    'tag_one_long':         lambda n: '!<tag:e.org,2000:' + 'x' * n + '> v\n',
    'tag_uri_escapes':      lambda n: '!<tag:e.org,2000:' + '%41' * n + '> v\n',
    'tagged_entries':       lambda n: _lines('- !!str v%(i)07d\n', n),
    'anchor_one_long':      lambda n: '- &' + 'a' * n + ' v\n',
    # nesting (moderate: the composer recurses)
    'nested_flow_seqs':     lambda n: '[' * n + ']' * n + '\n',
    'nested_flow_maps':     lambda n: '{a: ' * n + 'x' + '}' * n + '\n',
    'nested_block_seqs_one_line': lambda n: '- ' * n + 'x\n',
    'nested_block_maps':    lambda n: ''.join(' ' * i + 'k:\n' for i in range(n)) + ' ' * n + 'v\n',
    # wide flow collections inside block ones, flow collections split over lines
    'wide_flow_in_block':   lambda n: 'k:\n' + _lines('  - {a: [1, 2, 3], b: {c: d}, e: [f, g]}\n', n),
    'flow_pairs':           lambda n: '[' + ', '.join(['a: b'] * n) + ']\n',
}


# A growing node in every structural position.  The catalogue above grows the ROOT (or its only value); here the node that
# grows (G: flow / block sequence, flow / block mapping, long scalar) sits as a mapping KEY (first, later, nested), as the
# first / a later sequence ITEM, and as a VALUE that is followed by further entries.  The same texts, parsed, are the event
# streams / node graphs of the emit and serialize families (POSITION_TEXT), because a dict cannot be a Python dict key.
def _g(kind, n, ind):
    pad = ' ' * ind
    if kind == 'fseq':
        return '[' + ', '.join(['a'] * n) + ']'
    if kind == 'fseq_ml':
        return '[\n' + ''.join(pad + '  a,\n' for _ in range(n)) + pad + ']'
    if kind == 'fmap':
        return '{' + ', '.join('k%07d: v' % i for i in range(n)) + '}'
    if kind == 'bseq':
        return ('\n' + pad).join(['- a'] * n)
    if kind == 'bmap':
        return ('\n' + pad).join('k%07d: v' % i for i in range(n))
    if kind == 'words':
        return ' '.join([W] * n)
    if kind == 'dq':
        return '"' + ' '.join([W] * n) + '"'
    raise KeyError(kind)


_POSITIONS = {
    # position -> text with the growing node G; ind = column at which G starts (block kinds continue there)
    'first_key':   (lambda g: '? ' + g + '\n: v\nz: 1\n', 2),
    'later_key':   (lambda g: 'a: 1\n? ' + g + '\n: v\n', 2),
    'key_in_item': (lambda g: '- x\n- ? ' + g + '\n  : v\n', 4),
    'key_in_flow': (lambda g: '{? ' + g + ' : v, z: 1}\n', 3),
    'first_item':  (lambda g: '- ' + g + '\n- x\n', 2),
    'later_item':  (lambda g: '- x\n- ' + g + '\n', 2),
    'first_value': (lambda g: '? k\n: ' + g + '\nz: 1\n', 2),
}
_POSITION_KINDS = {
    'first_key':   ('fseq', 'fseq_ml', 'fmap', 'bseq', 'bmap', 'words', 'dq'),
    'later_key':   ('fseq', 'bseq', 'bmap'),
    'key_in_item': ('fseq', 'bseq', 'bmap'),
    'key_in_flow': ('fseq', 'fmap'),
    'first_item':  ('fseq', 'fmap', 'bseq', 'bmap', 'words'),
    'later_item':  ('fseq', 'bmap'),
    'first_value': ('fseq', 'bseq', 'bmap'),
}
POSITION_TEXT = {}
for _pos, _kinds in _POSITION_KINDS.items():
    for _kind in _kinds:
        POSITION_TEXT['%s_%s' % (_pos, _kind)] = (lambda n, f=_POSITIONS[_pos][0], k=_kind, i=_POSITIONS[_pos][1]: f(_g(k, n, i)))
LOAD.update(POSITION_TEXT)


# Two structures that grow TOGETHER.  The code relates pairs of structures (an anchored node and the aliases to it, the
# anchors table and the aliases, the %TAG table and the tags that use it, nesting depth and width, a merge base and the
# mapping's own entries - the merge_* families above); a cost proportional to the product of the two is linear in every
# family that grows only one of them.  Here one parameter n drives both, so that the text still grows linearly with n.
def _isqrt(n):
    return max(2, int(n ** 0.5))


def _refs(n, item='  - *b\n'):
    return 'refs:\n' + item * n


def _dag(n):
    out = ['l0000000: &a0000000 [x, x]\n']
    for i in range(1, n):
        out.append('l%07d: &a%07d [*a%07d, *a%07d]\n' % (i, i, i - 1, i - 1))
    return ''.join(out)


def _sqrt_aliases(n):
    a = _isqrt(n)                 # a anchors, each aliased n // a times: a * (n // a) ~ n entries
    return _lines('- &a%(i)07d [x, y]\n', a) + ''.join('- *a%07d\n' % i for _ in range(n // a) for i in range(a))


def _nested_wide(n):
    d = _isqrt(n)                 # depth d, n // d entries per level
    row = ', '.join(['a'] * (n // d))
    return ''.join('[' + row + ',\n' for _ in range(d)) + 'x' + ']' * d + '\n'


PAIR_TEXT = {
    'alias_big_block_seq':  lambda n: 'base: &b\n' + '  - x\n' * n + _refs(n),
    'alias_big_block_map':  lambda n: 'base: &b\n' + _lines('  k%(i)07d: v\n', n) + _refs(n),
    'alias_big_flow_seq':   lambda n: 'base: &b [\n' + '  x,\n' * n + ']\nrefs: [\n' + '  *b,\n' * n + ']\n',
    'alias_big_nested':     lambda n: 'base: &b\n' + '  - [x, {y: z}]\n' * n + _refs(n),
    'alias_big_as_values':  lambda n: 'base: &b\n' + '  - x\n' * n + 'refs:\n' + _lines('  r%(i)07d: *b\n', n),
    'alias_big_per_document': lambda n: ''.join('--- \nbase: &b\n' + '  - x\n' * _isqrt(n) + _refs(_isqrt(n))
                                                for _ in range(n // _isqrt(n))),
    'anchors_sqrt_aliases': _sqrt_aliases,
    'alias_dag_chain':      _dag,
    'tag_handles_used':     lambda n: _lines('%%TAG !h%(i)07d! tag:yaml.org,2002:\n', n) + '---\n' + _lines('- !h%(i)07d!str x\n', n),
    'nested_wide_flow':     _nested_wide,
}
LOAD.update(PAIR_TEXT)
TEXT_FED = dict(POSITION_TEXT)
TEXT_FED.update({k: v for k, v in PAIR_TEXT.items() if k != 'nested_wide_flow'})
# how deep block / flow nesting gets (default: constant), and whether the text size is not linear in n
DEPTH = {'nested_block_seqs_one_line': lambda n: n + 2, 'nested_block_maps': lambda n: n + 2}
FLOW = {'nested_flow_seqs': lambda n: n, 'nested_flow_maps': lambda n: n}
NESTED = {'nested_flow_seqs', 'nested_flow_maps', 'nested_block_seqs_one_line', 'nested_block_maps'}
SIZE_IS_TEXT = {'nested_block_maps'}
# families whose tags no safe constructor knows are measured up to the composer
LOAD_API = {'tag_one_long': 'compose', 'tag_uri_escapes': 'compose'}
# a collection in key position is not hashable: the safe constructor rejects it, so these stop at the composer
LOAD_API.update({f: 'compose' for f in POSITION_TEXT if 'key' in f and not f.endswith(('_words', '_dq'))})      # indentation grows with depth: the size that doubles is the text length



# ---------------------------------------------------------------------------------------------- customised applications
# Everything above runs through the SHIPPED safe classes.  The library is built to be customised: registered implicit
# resolvers (indexed by first character, and wildcard ones with first=None), path resolvers, constructors (shallow and
# deep=True), multi-constructors, representers, multi-representers, and the full / unsafe loaders with python/tuple,
# python/object/apply, python/object (+ __setstate__), python/object/new.  Every registered-callback path and every
# deep-construction path is measured on growing inputs here.  The customised classes are created afresh for every
# measurement task (class-level registries are mutable state).
class Point:
    def __init__(self, x, y):
        self.x, self.y = x, y


class Shape:
    def __init__(self, name):
        self.name = name


class Circle(Shape):
    pass


class PObj:                       # state protocol: __getstate__ / __setstate__
    def __init__(self, a=None):
        self.a = a

    def __getstate__(self):
        return {'a': self.a}

    def __setstate__(self, state):
        self.a = state.get('a')


class RObj:                       # reduce protocol
    def __init__(self, v=0):
        self.v = v

    def __reduce__(self):
        return (RObj, (self.v,))


def make_app(yaml):
    import re

    class AppLoader(yaml.SafeLoader):
        pass

    class AppDumper(yaml.SafeDumper):
        pass
    for cls in (AppLoader, AppDumper):
        cls.add_implicit_resolver('!version', re.compile(r'^v[0-9]+$'), ['v'])
        cls.add_implicit_resolver('!ip', re.compile(r'^[0-9]+[.][0-9]+[.][0-9]+[.][0-9]+$'), list('0123456789'))
        cls.add_implicit_resolver('!never', re.compile(r'^@@never@@$'), None)          # wildcard: first=None
        cls.add_path_resolver('!pitem', ['base', None], str)
    for tag in ('!version', '!ip', '!never', '!pitem'):
        AppLoader.add_constructor(tag, lambda l, n: l.construct_scalar(n))
    AppLoader.add_constructor('!deep', lambda l, n: l.construct_sequence(n, deep=True))
    AppLoader.add_constructor('!deepmap', lambda l, n: l.construct_mapping(n, deep=True))
    AppLoader.add_constructor('!point', lambda l, n: Point(**l.construct_mapping(n)))
    AppLoader.add_multi_constructor('!m:', lambda l, suffix, n: (suffix, l.construct_scalar(n)))
    AppDumper.add_representer(Point, lambda d, o: d.represent_mapping('!point', {'x': o.x, 'y': o.y}))
    AppDumper.add_multi_representer(Shape, lambda d, o: d.represent_scalar('!m:' + type(o).__name__, o.name))
    return AppLoader, AppDumper


def _first_chars():
    """every first character that owns implicit resolvers in the shipped tables and can start a plain scalar"""
    import yaml
    keys = yaml.SafeLoader.yaml_implicit_resolvers
    return sorted(k for k in keys if isinstance(k, str) and len(k) == 1 and k.isprintable() and k not in ' !&*%@`')


def _nonmatching(n):
    chars = _first_chars()
    return [chars[i % len(chars)] + 'x.1.z' for i in range(n)]        # starts like a typed scalar, matches no resolver


_BASE = {'seq': lambda n: 'base: &b\n' + '  - x\n' * n, 'map': lambda n: 'base: &b\n' + _lines('  k%(i)07d: v\n', n),
         'nested': lambda n: 'base: &b\n' + '  - [x, {y: z}]\n' * n}
_PO = '!!python/object:harness.c20_util.PObj'


def _deep_dag(n):
    out = ['l0000000: &a0000000 !deep [x, x]\n']
    for i in range(1, n):
        out.append('l%07d: &a%07d !deep [*a%07d, *a%07d]\n' % (i, i, i - 1, i - 1))
    return ''.join(out)


APP_LOAD = {
    # name -> (text(n), apis)
    'nonmatching_scalars':     (lambda n: ''.join('- %s\n' % x for x in _nonmatching(n)), ('app_load', 'load', 'full_load')),
    'nonmatching_scalars_flow': (lambda n: '[\n' + ''.join('  %s,\n' % x for x in _nonmatching(n)) + ']\n', ('app_load',)),
    'nonmatching_map_values':  (lambda n: ''.join('k%07d: %s\n' % (i, x) for i, x in enumerate(_nonmatching(n))), ('app_load',)),
    'custom_resolved_scalars': (lambda n: '- v0000001\n- 10.0.0.1\n' * (n // 2 + 1), ('app_load',)),
    'path_resolved_items':     (lambda n: 'base:\n' + '  - x\n' * n, ('app_load',)),
    'path_resolved_map':       (lambda n: 'base:\n' + _lines('  k%(i)07d: x\n', n), ('app_load',)),
    'deep_seq':                (lambda n: 'd: !deep\n' + '  - [x, y]\n' * n, ('app_load',)),
    'deep_map':                (lambda n: 'd: !deepmap\n' + _lines('  k%(i)07d: {a: b}\n', n), ('app_load',)),
    'multi_constructed':       (lambda n: '- !m:abc x\n' * n, ('app_load',)),
    'points':                  (lambda n: '- !point {x: 1, y: 2}\n' * n, ('app_load',)),
    # the alias pair families reached from INSIDE a deep construction
    'deep_alias_big_seq':      (lambda n: _BASE['seq'](n) + 'refs: !deep\n' + '  - *b\n' * n, ('app_load',)),
    'deep_alias_big_map':      (lambda n: _BASE['map'](n) + 'refs: !deep\n' + '  - *b\n' * n, ('app_load',)),
    'deep_alias_big_nested':   (lambda n: _BASE['nested'](n) + 'refs: !deep\n' + '  - *b\n' * n, ('app_load',)),
    'deep_alias_big_values':   (lambda n: _BASE['seq'](n) + 'refs: !deepmap\n' + _lines('  r%(i)07d: *b\n', n), ('app_load',)),
    'deep_alias_dag_chain':    (_deep_dag, ('app_load',)),
    # full / unsafe loaders
    'py_tuples':               (lambda n: '- !!python/tuple [a, b]\n' * n, ('unsafe_load', 'full_load')),
    'py_apply':                (lambda n: '- !!python/object/apply:builtins.list [[1, 2]]\n' * n, ('unsafe_load',)),
    'py_apply_kwds':           (lambda n: '- !!python/object/apply:builtins.dict {kwds: {a: 1}}\n' * n, ('unsafe_load',)),
    'py_objects_setstate':     (lambda n: ('- ' + _PO + ' {a: 1}\n') * n, ('unsafe_load',)),
    'py_objects_new':          (lambda n: '- !!python/object/new:harness.c20_util.RObj [1]\n' * n, ('unsafe_load',)),
    'py_names':                (lambda n: '- !!python/name:builtins.len\n' * n, ('unsafe_load',)),
    'py_apply_alias_big':      (lambda n: _BASE['seq'](n) + 'refs:\n' + '  - !!python/object/apply:builtins.len [*b]\n' * n,
                                ('unsafe_load',)),
    'py_setstate_alias_big':   (lambda n: _BASE['seq'](n) + 'refs:\n' + ('  - ' + _PO + ' {a: *b}\n') * n, ('unsafe_load',)),
    'py_tuple_alias_big':      (lambda n: _BASE['seq'](n) + 'refs:\n' + '  - !!python/tuple [*b]\n' * n, ('unsafe_load', 'full_load')),
    'py_new_alias_big':        (lambda n: _BASE['seq'](n) + 'refs:\n' + '  - !!python/object/new:harness.c20_util.RObj [*b]\n' * n,
                                ('unsafe_load',)),
}


def _sharing(n):
    big = list(range(1000000, 1000000 + n))
    return [PObj(big) for _ in range(n)]


APP_DUMP = {
    # name -> (value(n), kwargs, apis)
    'nonmatching_strs':        (_nonmatching, {}, ('app_dump', 'dump', 'unsafe_dump')),
    'nonmatching_dict_values': (lambda n: {'k%07d' % i: x for i, x in enumerate(_nonmatching(n))}, {}, ('app_dump',)),
    'custom_resolved_strs':    (lambda n: ['v0000001', '10.0.0.1'] * (n // 2 + 1), {}, ('app_dump',)),
    'path_resolved_items':     (lambda n: {'base': ['x'] * n}, {}, ('app_dump',)),
    'points':                  (lambda n: [Point(1000000 + i, 7) for i in range(n)], {}, ('app_dump',)),
    'shapes_multi':            (lambda n: [Circle('c%07d' % i) for i in range(n)], {}, ('app_dump',)),
    'points_shared':           (lambda n: (lambda ps: ps + ps)([Point(1000000 + i, 7) for i in range(n)]), {}, ('app_dump',)),
    'py_tuples':               (lambda n: [(1000000 + i, 7) for i in range(n)], {}, ('unsafe_dump',)),
    'py_objects_state':        (lambda n: [PObj(1000000 + i) for i in range(n)], {}, ('unsafe_dump',)),
    'py_objects_reduce':       (lambda n: [RObj(1000000 + i) for i in range(n)], {}, ('unsafe_dump',)),
    'py_objects_sharing_big':  (_sharing, {}, ('unsafe_dump',)),
}
# shipped families that are also run through the customised / unsafe classes
APP_ALSO_LOAD = ('block_seq', 'block_map', 'anchors_then_aliases', 'alias_big_block_seq', 'alias_dag_chain', 'flow_seq_one_line',
                 'double_multi_line', 'merge_large_base')
APP_ALSO_DUMP = ('strs', 'dict_sorted', 'many_shared_objects', 'shared_big_list', 'str_plain_words', 'first_key_tuple')


def load_apis(yaml):
    def scan(t):
        for _ in yaml.scan(t, Loader=yaml.SafeLoader):
            pass

    def parse(t):
        for _ in yaml.parse(t, Loader=yaml.SafeLoader):
            pass

    def load(t):
        for _ in yaml.load_all(t, Loader=yaml.SafeLoader):
            pass

    def load_stream(t):
        for _ in yaml.load_all(io.StringIO(t), Loader=yaml.SafeLoader):
            pass

    def load_bytes(t):
        for _ in yaml.load_all(t.encode('utf-8'), Loader=yaml.SafeLoader):
            pass

    def compose(t):
        for _ in yaml.compose_all(t, Loader=yaml.SafeLoader):
            pass
    AppLoader, _ = make_app(yaml)

    def with_loader(L):
        def f(t):
            for _ in yaml.load_all(t, Loader=L):
                pass
        return f
    return {'scan': scan, 'parse': parse, 'load': load, 'load_stream': load_stream, 'load_bytes': load_bytes,
            'compose': compose, 'app_load': with_loader(AppLoader), 'unsafe_load': with_loader(yaml.UnsafeLoader),
            'full_load': with_loader(yaml.FullLoader)}


# ---------------------------------------------------------------------------------------------- dump families
def _shared(n):
    s = [1, 2]
    return [s] * n


def _anchored(n):
    out = []
    for i in range(n):
        x = [1000000 + i]
        out += [x, x]
    return out


def _nested(n):
    x = ['leaf']
    for _ in range(n):
        x = [x, 'a']
    return x


def _nested_dict(n):
    x = 'leaf'
    for _ in range(n):
        x = {'k': x}
    return x


DUMP = {
    # (value(n), kwargs)
    'str_plain_words':     (lambda n: ' '.join([W] * n), {}),
    'str_plain_one_word':  (lambda n: W * n, {}),
    'str_single_quoted':   (lambda n: ' '.join(['a: b'] * n), {}),
    'str_single_style':    (lambda n: " ".join(["it's"] * n), {'default_style': "'"}),
    'str_double_escapes':  (lambda n: '\x07 word ' * n, {}),
    'str_double_style':    (lambda n: ' '.join([W] * n), {'default_style': '"'}),
    'str_double_unicode':  (lambda n: 'é ' * n, {'allow_unicode': False}),
    'str_double_breaks':   (lambda n: 'a \n' * n + ' ', {'default_style': '"'}),
    'str_literal_lines':   (lambda n: (W + ' ' + W + '\n') * n, {'default_style': '|'}),
    'str_folded_lines':    (lambda n: (W + ' ' + W + '\n') * n, {'default_style': '>'}),
    'str_folded_long_line': (lambda n: ' '.join([W] * n) + '\n', {'default_style': '>'}),
    'str_plain_unicode':   (lambda n: 'é ' * n + 'x', {'allow_unicode': True}),
    'ints':                (lambda n: list(range(1000000, 1000000 + n)), {}),
    'floats':              (lambda n: [1000000 + i + 0.5 for i in range(n)], {}),
    'mixed_scalars':       (lambda n: [None, True, 1, 1.5, 'x', ''] * (n // 6 + 1), {}),
    'strs':                (lambda n: ['s%07d' % i for i in range(n)], {}),
    'strs_needing_quotes': (lambda n: ['%07d: x' % i for i in range(n)], {}),
    'dict_sorted':         (lambda n: {'k%07d' % ((i * 7919) % n): 7 for i in range(n)}, {'sort_keys': True}),
    'dict_unsorted':       (lambda n: {'k%07d' % ((i * 7919) % n): 7 for i in range(n)}, {'sort_keys': False}),
    'dict_int_keys':       (lambda n: {1000000 + i: 7 for i in range(n)}, {}),
    'dict_long_keys':      (lambda n: {('k%07d' % i) + 'x' * 140: 7 for i in range(n)}, {}),
    'set_of_ints':         (lambda n: set(range(1000000, 1000000 + n)), {}),
    'list_of_dicts':       (lambda n: [{'a': 1000000 + i, 'b': 'x'} for i in range(n)], {}),
    'list_of_lists':       (lambda n: [[1000000 + i, 7] for i in range(n)], {}),
    'flow_style_wide':     (lambda n: list(range(1000000, 1000000 + n)), {'default_flow_style': True}),
    'flow_style_dict':     (lambda n: {'k%07d' % i: 7 for i in range(n)}, {'default_flow_style': True}),
    'one_shared_many_refs': (_shared, {}),
    'many_shared_objects': (_anchored, {}),
    'nested_lists':        (_nested, {}),
    'nested_dicts':        (_nested_dict, {}),
    'nested_lists_flow':   (_nested, {'default_flow_style': True}),
    'canonical_list':      (lambda n: ['s%07d' % i for i in range(n)], {'canonical': True}),
    'explicit_start_end':  (lambda n: ['s%07d' % i for i in range(n)], {'explicit_start': True, 'explicit_end': True}),
    'wide_indent_width':   (lambda n: ' '.join([W] * n), {'indent': 8, 'width': 30}),
    'bytes_binary':        (lambda n: b'\x00\x01binary' * n, {}),
}

def _gv(kind, n):
    if kind == 'tuple':
        return tuple(range(1000000, 1000000 + n))
    if kind == 'list':
        return list(range(1000000, 1000000 + n))
    if kind == 'dict':
        return {'k%07d' % i: 7 for i in range(n)}
    if kind == 'str':
        return ' '.join([W] * n)
    if kind == 'tuples':                      # a collection of collections
        return tuple((1000000 + i, 7) for i in range(n))
    raise KeyError(kind)


_VPOS = {
    'first_key':   lambda g: {g: 'v', 'z': 1},
    'later_key':   lambda g: {'a': 1, g: 'v'},
    'key_in_item': lambda g: ['x', {g: 'v'}],
    'first_item':  lambda g: [g, 'x'],
    'later_item':  lambda g: ['x', g],
    'first_value': lambda g: {'a': g, 'z': 1},
}
_VPOS_KINDS = {'first_key': ('tuple', 'tuples', 'str'), 'later_key': ('tuple', 'str'), 'key_in_item': ('tuple',),
               'first_item': ('list', 'dict', 'str'), 'later_item': ('list', 'dict'), 'first_value': ('list', 'dict', 'str')}
POSITION_VALUE = {}
for _pos, _kinds in _VPOS_KINDS.items():
    for _kind in _kinds:
        POSITION_VALUE['%s_%s' % (_pos, _kind)] = ((lambda n, f=_VPOS[_pos], k=_kind: f(_gv(k, n))), {'sort_keys': False})
POSITION_VALUE['first_key_tuple_flow'] = ((lambda n: {_gv('tuple', n): 'v', 'z': 1}), {'sort_keys': False, 'default_flow_style': True})
POSITION_VALUE['many_tuple_keys'] = ((lambda n: {(1000000 + i, 7): 7 for i in range(n)}), {'sort_keys': False})
DUMP.update(POSITION_VALUE)


def _shared(kind):
    def make(n):
        g = {'list': lambda: list(range(1000000, 1000000 + n)), 'dict': lambda: {'k%07d' % i: 7 for i in range(n)},
             'nested': lambda: [[1000000 + i, {'y': 7}] for i in range(n)]}[kind]()
        return {'base': g, 'refs': [g] * n}
    return make


def _shared_values(n):
    g = list(range(1000000, 1000000 + n))
    d = {'base': g}
    d.update(('r%07d' % i, g) for i in range(n))
    return d


def _shared_sqrt(n):
    a = _isqrt(n)
    objs = [[1000000 + i, 7] for i in range(a)]
    return objs + [o for _ in range(n // a) for o in objs]


def _dag_value(n):
    x = ['x', 'x']
    for _ in range(n):
        x = [x, x]
    return x


PAIR_VALUE = {
    'shared_big_list':      (_shared('list'), {'sort_keys': False}),
    'shared_big_dict':      (_shared('dict'), {'sort_keys': False}),
    'shared_big_nested':    (_shared('nested'), {'sort_keys': False}),
    'shared_big_as_values': (_shared_values, {'sort_keys': False}),
    'shared_sqrt':          (_shared_sqrt, {}),
    'dag_chain':            (_dag_value, {}),
}
DUMP.update(PAIR_VALUE)

DUMP_ALL = {
    'documents':           (lambda n: ['d%07d' % i for i in range(n)], {}),
    'documents_of_lists':  (lambda n: [[1000000 + i, 'x'] for i in range(n)], {'explicit_start': True}),
}
DUMP_NESTED = {'nested_lists', 'nested_dicts', 'nested_lists_flow', 'dag_chain'}


def dump_apis(yaml):
    def dump(v, kw):
        yaml.dump(v, Dumper=yaml.SafeDumper, **kw)

    def dump_stream(v, kw):
        yaml.dump(v, io.StringIO(), Dumper=yaml.SafeDumper, **kw)

    def dump_all(v, kw):
        yaml.dump_all(v, Dumper=yaml.SafeDumper, **kw)

    def serialize(v, kw):          # serializer + emitter only
        node = yaml.SafeDumper(io.StringIO()).represent_data(v)
        return lambda: yaml.serialize(node, Dumper=yaml.SafeDumper, **kw)

    def emit(v, kw):               # emitter only
        text = yaml.dump(v, Dumper=yaml.SafeDumper)
        evs = list(yaml.parse(text, Loader=yaml.SafeLoader))
        return lambda: yaml.emit(evs, Dumper=yaml.SafeDumper, **kw)
    def emit_text(t, kw):          # emitter fed with the events of a text (mapping / sequence in key position, ...)
        evs = list(yaml.parse(t, Loader=yaml.SafeLoader))
        return lambda: yaml.emit(evs, Dumper=yaml.SafeDumper, **kw)

    def serialize_text(t, kw):     # serializer + emitter fed with the node graph of a text
        nodes = list(yaml.compose_all(t, Loader=yaml.SafeLoader))
        return lambda: yaml.serialize_all(nodes, Dumper=yaml.SafeDumper, **kw)
    _, AppDumper = make_app(yaml)

    def with_dumper(D):
        return lambda v, kw: yaml.dump(v, Dumper=D, **kw)
    return {'dump': dump, 'dump_stream': dump_stream, 'dump_all': dump_all, 'serialize': serialize, 'emit': emit,
            'emit_text': emit_text, 'serialize_text': serialize_text, 'app_dump': with_dumper(AppDumper),
            'unsafe_dump': with_dumper(yaml.Dumper)}


# ---------------------------------------------------------------------------------------------- sizes
PROBE_N = 48
MIN_N = {'keys_just_under_limit': 48, 'explicit_keys_over_limit': 48, 'quoted_keys_just_under_limit': 24}


def sizes_for(fam, side, unit_calls, target, min_n, doublings, nested_n, jitter=0):
    """n such that one measurement at n costs about `target` calls (unit_calls = calls of one repetition, measured at
    PROBE_N - call counts are deterministic, so is n), then n, 2n, 4n, ...; nested families use a fixed moderate depth"""
    nested = fam in (NESTED if side == 'load' else DUMP_NESTED)
    if nested:
        n, doublings = nested_n, min(doublings, 2)
    else:
        floor = min_n if unit_calls <= 400 else max(200, min_n // 3)   # a repetition of several entries counts as several
        n = max(MIN_N.get(fam, floor) if side == 'load' else floor, int(target // max(1, unit_calls)))
        n += (n * jitter) // 100                         # VERIF_SEED moves every size a little
    if side == 'load' and fam in SIZE_IS_TEXT:           # text length ~ n^2: double the text, not the depth
        return [int(round(n * 2 ** (i / 2.0))) for i in range(doublings + 1)]
    return [n * 2 ** i for i in range(doublings + 1)]


# ---------------------------------------------------------------------------------------------- measurement tasks
BUDGET = 3        # a member may use at most BUDGET times the calls of the member of half its size ...


def _counted(w, fn, err):
    """append the call count of fn() to w; a family member that the tree under test rejects (any exception) ends the
    series: what completed is still judged, the failure is reported as a note (functional behaviour is not C20's subject).
    ... a member that needs more is abandoned and enters the series with that LOWER BOUND of its work (the judgement by
    Trace_Work.tla is unchanged: 3 x is not "at most doubles"); this only keeps a badly superlinear tree from taking hours"""
    try:
        if w:
            try:
                w.append(count_calls(fn, BUDGET * w[-1]))
            except WorkBudget:
                w.append(BUDGET * w[-1])
                return False
        else:
            w.append(count_calls(fn))
        return True
    except Exception as x:
        err.append('%s: %s' % (type(x).__name__, str(x)[:160].replace('\n', ' ')))
        return False


def measure_calls(task):
    try:
        return _measure_calls(task)
    except Exception as x:              # warm-up or probe member rejected
        return {'kind': 'ratio', 'family': task[1], 'api': task[2], 'n': 0, 'sizes': [], 'w': [],
                'error': '%s: %s' % (type(x).__name__, str(x)[:160].replace('\n', ' '))}


def _measure_calls(task):
    """task = (side, family, api, target, min_n, doublings, nested_n, jitter) -> record for Trace_Work (kind ratio)"""
    from .common import use_repo
    yaml = use_repo()
    side, fam, api, target, min_n, doublings, nested_n, jitter = task
    w, err = [], []
    if side == 'load':
        gen = LOAD.get(fam) or APP_LOAD[fam][0]
        fn = load_apis(yaml)[api]
        fn(gen(16))                                   # warm-up: lazy imports, regex caches
        t0 = gen(PROBE_N)
        unit = count_calls(lambda: fn(t0)) // PROBE_N
        sizes = sizes_for(fam, side, unit, target, min_n, doublings, nested_n, jitter)
        # a family that grows inside ONE line is in its final regime only beyond the 1024-character simple-key limit (below
        # it a key candidate stays alive and every repetition is a little cheaper): the first member gets >= 2 * 1024
        longest = max(len(x) for x in gen(sizes[0]).split('\n'))
        if fam not in NESTED and 300 < longest < MIN_CYCLE_CHARS and max(len(x) for x in gen(sizes[0] + 8).split('\n')) > longest:
            sizes = [k * -(-MIN_CYCLE_CHARS // longest) for k in sizes]
        for n in sizes:
            text = gen(n)
            if not _counted(w, lambda: fn(text), err):
                break
    else:
        if api in ('emit_text', 'serialize_text'):
            gen, kw = TEXT_FED[fam], {}
        else:
            gen, kw = ((DUMP_ALL if api == 'dump_all' else DUMP).get(fam) or APP_DUMP[fam])[:2]
        f = dump_apis(yaml)[api]
        if api in ('serialize', 'emit', 'emit_text', 'serialize_text'):
            if api == 'emit':
                kw = {k: v for k, v in kw.items() if k in ('canonical', 'indent', 'width', 'allow_unicode', 'line_break')}
            else:
                kw = {k: v for k, v in kw.items() if k not in ('default_style', 'default_flow_style', 'sort_keys')}
            f(gen(16), kw)()
            unit = count_calls(f(gen(PROBE_N), kw)) // PROBE_N
        else:
            f(gen(16), kw)
            v0 = gen(PROBE_N)
            unit = count_calls(lambda: f(v0, kw)) // PROBE_N
        sizes = sizes_for(fam, side, unit, target, min_n, doublings, nested_n, jitter)
        for n in sizes:
            if api in ('serialize', 'emit', 'emit_text', 'serialize_text'):
                if not _counted(w, f(gen(n), kw), err):
                    break
            else:
                v = gen(n)
                if not _counted(w, lambda: f(v, kw), err):
                    break
    r = {'kind': 'ratio', 'family': fam, 'api': api, 'n': sizes[0], 'sizes': sizes, 'w': w}
    if err:
        r['error'] = err[0]
    return r


# ---------------------------------------------------------------------------------------------- primitive lengths
def make_probes(yaml):
    """Instrumented SafeLoader / SafeDumper: subclasses that override the stage-interface methods (update,
    fetch_more_tokens, get_token, need_more_events) to sample the lengths of the structures behind the primitives whose
    cost a call count cannot see.  Attribute names are read with getattr(..., default): a refactoring that renames them
    yields zeros (drift), never an alarm."""
    def ln(obj, name):
        x = getattr(obj, name, None)
        try:
            return len(x)
        except TypeError:
            return 0

    class ProbeLoader(yaml.SafeLoader):
        def __init__(self, stream):
            self.pr = {'q': 0, 'k': 0, 'b': 0, 'units': 0, 'block': 0}
            if hasattr(stream, 'read'):
                inner, pr = stream, self.pr

                class S:
                    def read(self, size=-1):
                        pr['block'] = max(pr['block'], size)
                        return inner.read(size)
                stream = S()
            yaml.SafeLoader.__init__(self, stream)

        def update(self, length):
            if getattr(self, 'raw_buffer', None) is not None:
                self.pr['units'] += max(0, ln(self, 'buffer') - (getattr(self, 'pointer', 0) or 0))     # buffer[pointer:]
            r = yaml.SafeLoader.update(self, length)
            b = ln(self, 'buffer')
            if b > self.pr['b']:
                self.pr['b'] = b
            return r

        def fetch_more_tokens(self):
            k = ln(self, 'possible_simple_keys')
            self.pr['units'] += 2 * k                                    # stale_possible_simple_keys
            r = yaml.SafeLoader.fetch_more_tokens(self)
            q, k = ln(self, 'tokens'), ln(self, 'possible_simple_keys')
            if q > self.pr['q']:
                self.pr['q'] = q
            if k > self.pr['k']:
                self.pr['k'] = k
            return r

        def get_token(self):
            self.pr['units'] += ln(self, 'tokens') + 3 * ln(self, 'possible_simple_keys')   # pop(0) + need_more_tokens
            return yaml.SafeLoader.get_token(self)

    class ProbeDumper(yaml.SafeDumper):
        def __init__(self, *a, **kw):
            self.pr = {'e': 0, 'units': 0}
            yaml.SafeDumper.__init__(self, *a, **kw)

        def need_more_events(self):
            e = ln(self, 'events')
            self.pr['units'] += e                                        # events[1:] copy / walk, pop(0)
            if e > self.pr['e']:
                self.pr['e'] = e
            return yaml.SafeDumper.need_more_events(self)
    return ProbeLoader, ProbeDumper


def measure_prims(task):
    """task = (side, family, api, sizes) -> prim record for Trace_Work"""
    from .common import use_repo
    yaml = use_repo()
    side, fam, api, sizes = task
    PL, PD = make_probes(yaml)
    q, k, b, e, units, block, size, look = [], [], [], [], [], 0, 0, 0
    error = None
    for n in sizes:
        try:
            if side == 'load':
                text = LOAD[fam](n)
                src = io.StringIO(text) if api == 'load_stream' else text
                ld = PL(src)
                try:
                    while ld.check_data():
                        ld.get_data()
                finally:
                    ld.dispose()
                pr = ld.pr
                q.append(pr['q']); k.append(pr['k']); b.append(pr['b']); e.append(0)
                units.append(pr['units'] + 1)
                block = max(block, pr['block'])
                size = len(text)
                look = max(len(x) for x in text.split('\n'))
            elif api == 'emit_text':
                evs = list(yaml.parse(TEXT_FED[fam](n), Loader=yaml.SafeLoader))
                d = PD(io.StringIO())
                try:
                    for ev in evs:
                        d.emit(ev)
                finally:
                    d.dispose()
                q.append(0); k.append(0); b.append(0); e.append(d.pr['e'])
                units.append(d.pr['units'] + 1)
                continue
            else:
                gen, kw = DUMP[fam]
                out = io.StringIO()
                d = PD(out, **kw)
                try:
                    d.open()
                    d.represent(gen(n))
                    d.close()
                finally:
                    d.dispose()
                q.append(0); k.append(0); b.append(0); e.append(d.pr['e'])
                units.append(d.pr['units'] + 1)
        except Exception as x:
            error = '%s: %s' % (type(x).__name__, str(x)[:160].replace('\n', ' '))
            m_ = min(len(q), len(k), len(b), len(e))
            q, k, b, e = q[:m_], k[:m_], b[:m_], e[:m_]
            break
    n0 = sizes[0]
    depth = DEPTH.get(fam, lambda n: 4)(sizes[-1]) if side == 'load' else 0
    flow = FLOW.get(fam, lambda n: 3)(sizes[-1]) if side == 'load' else 0
    # 'units' (summed primitive lengths) is carried for the evidence file only: below the saturation of the
    # simple-key table (1024 characters) and of the first reader block it is not yet linear, so it is not judged
    return {'kind': 'prim', 'family': fam, 'api': api, 'n': n0, 'q': q, 'k': k, 'b': b, 'e': e, 'depth': depth, 'flow': flow,
            'look': look, 'block': block if block > 0 else 0, 'size': size, 'units': units, 'error': error}


# ---------------------------------------------------------------------------------------------- cycle families (spec -> code)
# spec/WorkPump.tla exports the transition graph of Work.tla (finite although the input is unbounded).  A family that
# "grows by repetition" is a cycle of that graph: input u v^n w.  One iteration of a scanner loop is one action, the
# character class that selects its branch is the symbol the environment chooses when the loop first looks at it; so the
# family list is: for every Choose-edge signature (loop pc, chosen class, look-ahead already chosen, run started, flow
# context, block-scalar indentation known) that lies on a cycle, the SHORTEST cycle through such an edge, with the shortest
# prefix from Init and the shortest suffix to the end of the stream.  Nothing here decides anything: the counts measured
# on the concretised texts are judged by Trace_Work.tla like every other family.
import collections as _c
import re as _re

_EDGE = _re.compile(r'^"<<\\"E\\", <<(-?\d+), (-?\d+)>>, <<(-?\d+), (-?\d+)>>, \\"(\w+)\\", \\"(\w+)\\", \\"([^\\]*)\\", '
                    r'<<(.*?)>>, (\d+), (\d+), (\d+), (\d+), (TRUE|FALSE)>>"$', _re.M)
_INIT = _re.compile(r'^"<<\\"I\\", <<(-?\d+), (-?\d+)>>>>"$', _re.M)
_RUN_RL = ('plain', 'quoted', 'anchor', 'bline', 'dirname')
_RUN_SL = ('pspaces', 'qspaces')
SYMBOL_NAME = {'w': 'word', 's': 'space', 'n': 'break', 'h': 'hash', ':': 'colon', '-': 'dash', '[': 'open', ']': 'close',
               ',': 'comma', 'q': 'quote', 'a': 'anchor', 'r': 'alias', 'd': 'docstart', 'b': 'bar', 'i': 'digit', 'c': 'plus', '0': 'eof',
               'Q': 'dquote', 'e': 'backslash', 'x': 'hexesc', 't': 'bang', 'p': 'percent', 'k': 'qmark', 'z': 'docend'}


def parse_graph(out):
    """TLC output of WorkPump -> (init, succ, done, n, actions): succ[u] = [(v, chosen symbol or '', signature or None)]"""
    ids = {}

    def nid(a, b):
        k = (a, b)
        i = ids.get(k)
        if i is None:
            i = ids[k] = len(ids)
        return i
    m = _INIT.search(out)
    if not m:
        raise SystemExit('machinery failure: no initial state line in the WorkPump output')
    init = nid(m.group(1), m.group(2))
    succ, done, seen, actions = _c.defaultdict(list), set(), set(), _c.Counter()
    for m in _EDGE.finditer(out):
        u, v, ch, pc = nid(m.group(1), m.group(2)), nid(m.group(3), m.group(4)), m.group(7), m.group(5)
        if (u, v, ch) in seen:                       # the same configuration with another fuel level
            continue
        seen.add((u, v, ch))
        sig = None
        if ch:
            la = _re.findall(r'\\"([^\\]*)\\"', m.group(8))
            run = int(m.group(9)) if pc in _RUN_RL else int(m.group(10)) if pc in _RUN_SL else 0
            sig = (pc, ch, ''.join(la[run:]), min(run, 1), min(int(m.group(11)), 1),
                   min(int(m.group(12)), 1) if pc.startswith('b') else 0)
        else:
            actions[pc] += 1
        succ[u].append((v, ch, sig))
        if m.group(6) == 'done':
            done.add(v)
    return init, succ, done, len(ids), actions


def _bfs(start, succ, target=None, limit=None):
    dist, par, q = {start: 0}, {}, _c.deque([start])
    while q:
        u = q.popleft()
        if u == target:
            break
        if limit is not None and dist[u] >= limit:
            continue
        for v, ch, _ in succ.get(u, ()):
            if v not in dist:
                dist[v] = dist[u] + 1
                par[v] = (u, ch)
                q.append(v)
    return dist, par


def _path(par, start, end):
    out, x = [], end
    while x != start:
        x, ch = par[x]
        out.append(ch)
    return ''.join(reversed(out))


def _components(n, succ):
    """strongly connected components (iterative Tarjan): an edge lies on a cycle iff both ends are in one component"""
    index, low, on, comp = [None] * n, [0] * n, [False] * n, [-1] * n
    st, idx, nc = [], 0, 0
    for s0 in range(n):
        if index[s0] is not None:
            continue
        work = [(s0, iter(succ.get(s0, ())))]
        index[s0] = low[s0] = idx
        idx += 1
        st.append(s0)
        on[s0] = True
        while work:
            u, it = work[-1]
            adv = False
            for v, _, _ in it:
                if index[v] is None:
                    index[v] = low[v] = idx
                    idx += 1
                    st.append(v)
                    on[v] = True
                    work.append((v, iter(succ.get(v, ()))))
                    adv = True
                    break
                elif on[v]:
                    low[u] = min(low[u], index[v])
            if adv:
                continue
            work.pop()
            if work:
                low[work[-1][0]] = min(low[work[-1][0]], low[u])
            if low[u] == index[u]:
                while True:
                    w = st.pop()
                    on[w] = False
                    comp[w] = nc
                    if w == u:
                        break
                nc += 1
    return comp


def derive_cycles(out, per_level=400):
    """-> (families, signatures, nodes, actions): families[sig] = (u, v, w) as symbol strings"""
    init, succ, done, n, actions = parse_graph(out)
    comp = _components(n, succ)
    dist0, par0 = _bfs(init, succ)
    pred = _c.defaultdict(list)
    for u, l in succ.items():
        for v, ch, _ in l:
            pred[v].append((u, ch))
    distd, nxt, q = {d: 0 for d in done}, {}, _c.deque(sorted(done))
    while q:
        v = q.popleft()
        for u, ch in pred.get(v, ()):
            if u not in distd:
                distd[u] = distd[v] + 1
                nxt[u] = (v, ch)
                q.append(u)
    bysig, allsigs = _c.defaultdict(list), set()
    for u, l in succ.items():
        for v, ch, sig in l:
            if sig:
                allsigs.add(sig)
                if comp[u] == comp[v] and u in dist0 and u in distd:
                    bysig[sig].append((dist0[u] + distd[u], u, v, ch))
    fams = {}
    for sig, cands in sorted(bysig.items()):
        cands.sort()
        best = None
        for limit in (0, 1, 2, 3, 5, 8, 12, 20, 40, 80):          # iterative deepening over all candidate edges
            for d0, u, v, ch in cands[:per_level if limit > 3 else None]:
                if v == u:
                    cyc = ch
                else:
                    if limit == 0:
                        continue
                    d, par = _bfs(v, succ, target=u, limit=limit)
                    if u not in d:
                        continue
                    cyc = ch + _path(par, v, u)
                cand = (len(cyc), d0, u, cyc)
                if best is None or cand < best:
                    best = cand
            if best:
                break
        if best:
            u, cyc = best[2], best[3]
            suf, x = [], u
            while x not in done:
                x, c2 = nxt[x]
                suf.append(c2)
            fams[sig] = (_path(par0, init, u), cyc, ''.join(suf))
    return fams, allsigs, n, actions


MIN_CYCLE_CHARS = 2 * 1024
_CONCRETE = {'w': 'a', 's': ' ', 'n': '\n', 'h': '#', ':': ':', '-': '-', '[': '[', ']': ']', ',': ',', 'q': "'", 'a': '&',
             'r': '*', 'b': '|', 'i': '1', 'c': '+', '0': '', 'Q': '"', 'e': '\\', 'x': 'x', 'k': '?', 't': '!', 'p': '%'}
_ALTERNATE = dict(_CONCRETE, **{'w': 'b', 'b': '>', '[': '{', ']': '}', 'i': '2', '-': '-', 'n': '\r\n'})


def concretise(symbols, following='', table=_CONCRETE, at_line_start=True):
    """symbol string of Work.tla -> text; 'd' / 'z' are '---' / '...' followed by a blank (the model's document markers at
    column 0); the two word characters after a '%' that is not at the start of a line are the hex digits of a URI escape"""
    out = []
    s = symbols + following[:1]
    hexd = 0
    for i, c in enumerate(symbols):
        start = at_line_start if i == 0 else symbols[i - 1] == 'n'
        if c == 'w' and hexd:
            out.append('41'[2 - hexd])
            hexd -= 1
            continue
        hexd = 0
        if c == 'p' and not start:
            hexd = 2
        if c == 'd':
            out.append('---' if s[i + 1:i + 2] in ('s', 'n', '0', '') else '--- ')
        elif c == 'z':
            out.append('...' if s[i + 1:i + 2] in ('s', 'n', '0', '') else '... ')
        else:
            out.append(table[c])
    return ''.join(out)


def cycle_name(cfg, sig):
    pc, ch, tail, run, flow, bi = sig
    return 'cycle/%s/%s/%s%s%s%s%s' % (cfg, pc, SYMBOL_NAME.get(ch, ch), '_after_' + '_'.join(SYMBOL_NAME.get(x, x) for x in tail) if tail else '',
                                     '_in_run' if run else '', '_flow' if flow else '', '_indent_known' if bi else '')


def cycle_parts(fam, table=_CONCRETE):
    """(u, v, w) as texts; v is concretised in the context it has inside the repetition"""
    u, v, w = fam
    ends = lambda x, d: (x[-1] == 'n') if x else d
    tu = concretise(u, v, table, True)
    # a '%' escape never straddles the cycle boundary in a shortest cycle that returns to the same configuration
    tv = concretise(v, v, table, ends(v, ends(u, True)))
    tw = concretise(w, '', table, ends(v, ends(u, True)))
    return tu, tv, tw


def cycle_text(fam, n, table=_CONCRETE):
    tu, tv, tw = cycle_parts(fam, table)
    return tu + tv * n + tw


def measure_cycle(task):
    """task = (name, (u, v, w), api, target, min_n, doublings, jitter, alternate) -> ratio record for Trace_Work"""
    from .common import use_repo
    yaml = use_repo()
    name, fam, api, target, min_n, doublings, jitter, alternate = task
    table = _ALTERNATE if alternate else _CONCRETE
    fn = load_apis(yaml)[api]
    w, err, sizes = [], [], []
    try:
        fn('a: b\n')
        t0 = cycle_text(fam, PROBE_N, table)
        unit = max(1, count_calls(lambda: fn(t0)) // PROBE_N)
        # the cycle is one of the SATURATED configurations (key age > MaxKey, column >= MaxCol): the real scanner is on it only
        # after 1024 characters; below that a repetition is cheaper (the key candidate is still alive), so the first member
        # has to be several times that long
        # (only where a key candidate can stay alive: a cycle without a line break)
        vtext = cycle_parts(fam, table)[1]
        n = max(min_n, target // unit, 0 if '\n' in vtext else -(-MIN_CYCLE_CHARS * max(1, min_n // 200) // max(1, len(vtext))))
        n += (n * jitter) // 100
        sizes = [n * 2 ** i for i in range(doublings + 1)]
        for k in sizes:
            text = cycle_text(fam, k, table)
            if not _counted(w, lambda: fn(text), err):
                break
    except Exception as x:
        err.append('%s: %s' % (type(x).__name__, str(x)[:160].replace('\n', ' ')))
    r = {'kind': 'ratio', 'family': name, 'api': api + ('_alt' if alternate else ''), 'n': sizes[0] if sizes else 0, 'sizes': sizes, 'w': w,
         'uvw': list(cycle_parts(fam, table))}
    if err:
        r['error'] = err[0]
    return r


def derive_from_file(path):
    """(worker process) TLC output file of a WorkPump run -> (families, number of signatures, nodes, actions)"""
    fams, sigs, n, actions = derive_cycles(open(path).read())
    return {sig: f for sig, f in fams.items()}, sorted(sigs), n, dict(actions)


def select_cycles(per_cfg):
    """per_cfg: {cfg: families} -> [(name, (u, v, w), sig)]: one family per (loop, concrete cycle text, flow context),
    the one with the shortest prefix; deterministic"""
    best = {}
    for cfg in sorted(per_cfg):
        for sig, f in sorted(per_cfg[cfg].items()):
            key = (sig[0], cycle_parts(f)[1], sig[4])
            cand = (len(f[0]) + len(f[2]), cycle_name(cfg, sig), tuple(f), sig)
            if key not in best or cand < best[key]:
                best[key] = cand
    return [(c[1], c[2], c[3]) for k, c in sorted(best.items())]


# ---------------------------------------------------------------------------------------------- writer cycle families (dump side)
# spec/WorkWrite.tla: one action per iteration of the scalar writers of emitter.py; the cycles of its graph, concretised as
# str values, are dumped in the style of the cycle (the emitter may still choose another one: that is its decision).
WRITE_STYLE = {'P': None, 'S': "'", 'D': '"', 'F': '>', 'L': '|'}
_WCONCRETE = {'w': 'a', 's': ' ', 'n': '\n', 'q': "'", 'e': '\x07', '0': ''}


def wcycle_name(cfg, sig):
    return 'cycle/%s/%s/%s%s' % (cfg, sig[0], SYMBOL_NAME.get(sig[1], sig[1]), '_beyond_width' if sig[4] else '')


def wcycle_value(fam, n):
    u, v, w = fam
    return ''.join(_WCONCRETE[c] for c in u[1:]) + ''.join(_WCONCRETE[c] for c in v) * n + ''.join(_WCONCRETE[c] for c in w)


def select_wcycles(fams, cfg='writers'):
    best = {}
    for sig, f in sorted(fams.items()):
        if not f[0]:
            continue
        key = (f[0][0], ''.join(_WCONCRETE[c] for c in f[1]), sig[0], sig[4])
        cand = (len(f[0]) + len(f[2]), wcycle_name(cfg, sig), tuple(f), sig)
        if key not in best or cand < best[key]:
            best[key] = cand
    return [(c[1], c[2], c[3]) for k, c in sorted(best.items())]


def measure_wcycle(task):
    """task = (name, (u, v, w), api, target, min_n, doublings, jitter) -> ratio record for Trace_Work"""
    from .common import use_repo
    yaml = use_repo()
    name, fam, api, target, min_n, doublings, jitter = task
    style = WRITE_STYLE[fam[0][0]]
    if api == 'dump_style':
        fn = lambda v: yaml.dump(v, Dumper=yaml.SafeDumper, default_style=style)
    elif api == 'dump_style_stream':
        fn = lambda v: yaml.dump(v, io.StringIO(), Dumper=yaml.SafeDumper, default_style=style, allow_unicode=True, width=40)
    else:                                       # the emitter alone
        def fn(v):
            evs = [yaml.StreamStartEvent(), yaml.DocumentStartEvent(), yaml.ScalarEvent(None, None, (style is None, style is not None), v, style=style),
                   yaml.DocumentEndEvent(), yaml.StreamEndEvent()]
            yaml.emit(evs, Dumper=yaml.SafeDumper)
    w, err, sizes = [], [], []
    try:
        fn('a b')
        v0 = wcycle_value(fam, PROBE_N)
        unit = max(1, count_calls(lambda: fn(v0)) // PROBE_N)
        n = max(min_n, target // unit)
        n += (n * jitter) // 100
        sizes = [n * 2 ** i for i in range(doublings + 1)]
        for k in sizes:
            v = wcycle_value(fam, k)
            if not _counted(w, lambda: fn(v), err):
                break
    except Exception as x:
        err.append('%s: %s' % (type(x).__name__, str(x)[:160].replace('\n', ' ')))
    r = {'kind': 'ratio', 'family': name, 'api': api, 'n': sizes[0] if sizes else 0, 'sizes': sizes, 'w': w,
         'uvw': [fam[0][0] + ':' + wcycle_value((fam[0], '', ''), 0), wcycle_value(('X', fam[1], ''), 1), wcycle_value(('X', '', fam[2]), 0)]}
    if err:
        r['error'] = err[0]
    return r
