"""Model-based testing plumbing: iterate over the states of a TLC -dump file in parallel worker processes."""
import os, re, multiprocessing as mp
from . import tlaval


def split_dump(path, n):
    size = os.path.getsize(path)
    cuts = [0]
    with open(path, 'rb') as f:
        for i in range(1, n):
            f.seek(size * i // n)
            f.readline()
            while True:
                pos = f.tell()
                line = f.readline()
                if not line or line.startswith(b'State '):
                    break
            if line and pos > cuts[-1]:
                cuts.append(pos)
    cuts.append(size)
    return [(cuts[i], cuts[i + 1]) for i in range(len(cuts) - 1)]


def chunk_states(path, start, end):
    with open(path) as f:
        f.seek(start)
        buf = f.read(end - start)
    for chunk in re.split(r'(?m)^State \d+:\n', buf):
        if chunk.strip():
            yield tlaval._state([chunk])


def _run(args):
    fn, path, a, b, extra = args
    return fn(chunk_states(path, a, b), extra)


def pmap(fn, path, extra=None, procs=16, chunks=64):
    """fn(states_iterator, extra) -> result; called once per chunk in a pool; returns list of results."""
    parts = split_dump(path, chunks)
    with mp.Pool(procs) as pool:
        return pool.map(_run, [(fn, path, a, b, extra) for a, b in parts], chunksize=1)
