"""error.py stage (spec/Snippet.tla, spec/Trace_Snippet.tla): Mark.get_snippet and MarkedYAMLError.__str__.

spec -> code: every state of the Snippet.tla enumeration (buffer over {w, b}, pointer, max_length, indent) is
concretised and Mark.get_snippet is called; the projected result must equal the `res` variable of the state.
code -> spec: the marks of the errors that the corpus raises are judged by TLC (Trace_Snippet.tla).
Nothing here belongs to a listed property: differences are reported by the caller as spec drift, never as a violation."""
import glob, os, random, zlib
from . import tlc, mbt, trace
from .common import use_repo, REPO, SEED

W = ['a', 'Z', ' ', '\t', '#', '"', ':', '\xe9', '\u4e2d', '\U0001F600', '\x1f', '\ufeff']
B = ['\0', '\r', '\n', '\x85', '\u2028', '\u2029']
BSET = set(B)


def abstract(s):
    return ['b' if c in BSET else 'w' for c in s]


def project(out, indent):
    """' '*indent + head + excerpt + tail + '\\n' + ' '*k + '^'  ->  (head, tail, excerpt, k)"""
    line1, line2 = out.rsplit('\n', 1)
    if not line1.startswith(' ' * indent) or not line2.endswith('^') or line2[:-1].strip(' '):
        return None
    body = line1[indent:]
    head = body.startswith(' ... ')
    if head:
        body = body[5:]
    tail = body.endswith(' ... ')
    if tail:
        body = body[:-5]
    return head, tail, body, len(line2) - 1


def _work(states, extra):
    yaml = use_repo()
    from yaml.error import Mark
    n = tested = bad = 0
    ex = []
    for st in states:
        n += 1
        if not st['done']:
            continue
        tested += 1
        rnd = random.Random(zlib.crc32(repr((st['buf'], st['ptr'], st['ml'], st['ind'], SEED)).encode()))
        # no representative sequence may itself spell ' ... ' (the projection recognises head/tail by it): W has no '.'
        text = ''.join(rnd.choice(W) if c == 'w' else rnd.choice(B) for c in st['buf'])
        m = Mark('<x>', st['ptr'], 0, 0, text, st['ptr'])
        r = st['res']
        exp = (r['head'], r['tail'], list(r['text']), r['caret'])
        # the model's record, rendered with the concrete characters, must be the string the code returns
        want = ' ' * st['ind'] + (' ... ' if r['head'] else '') + text[r['start']:r['end']] + (' ... ' if r['tail'] else '') \
            + '\n' + ' ' * r['caret'] + '^'
        try:
            got = m.get_snippet(st['ind'], st['ml'])
        except Exception as e:                      # noqa
            got = 'exception ' + type(e).__name__
        if got != want or abstract(text[r['start']:r['end']]) != exp[2]:
            bad += 1
            if len(ex) < 3:
                ex.append({'buf': st['buf'], 'ptr': st['ptr'], 'ml': st['ml'], 'ind': st['ind'], 'model': exp, 'real': repr(got)})
    return n, tested, bad, ex


def _marks_of(text, yaml):
    """marks (with buffer) of the error that loading `text` raises, plus what __str__ printed"""
    out = []
    for fn in (lambda: list(yaml.scan(text)), lambda: list(yaml.parse(text)), lambda: list(yaml.compose_all(text)),
               lambda: list(yaml.load_all(text, Loader=yaml.SafeLoader))):
        try:
            fn()
        except yaml.MarkedYAMLError as e:
            out.append(e)
        except Exception:          # noqa: other failures are other stages' business
            pass
    return out


def _record(e):
    recs = []
    cm, pm = e.context_mark, e.problem_mark
    same = bool(cm is not None and pm is not None and cm.name == pm.name and cm.line == pm.line and cm.column == pm.column)
    s = str(e)
    has = {'context': e.context is not None, 'contextMark': cm is not None, 'problem': e.problem is not None,
           'problemMark': pm is not None, 'same': same, 'note': e.note is not None}
    # which parts were printed: count the "  in "<name>", line" headers and compare the first/last lines
    lines = s.split('\n')
    nmarks = sum(1 for ln in lines if ln.startswith('  in "'))
    shown = {'context': bool(has['context'] and lines and lines[0] == e.context.split('\n')[0]),
             'contextMark': nmarks == (2 if pm is not None else 1) and cm is not None,
             'problem': bool(has['problem'] and e.problem.split('\n')[0] in lines),
             'problemMark': pm is not None and nmarks >= 1,
             'note': bool(has['note'] and lines[-1] == e.note.split('\n')[-1])}
    for m in (cm, pm):
        if m is None or m.buffer is None:
            continue
        lo = max(0, m.pointer - 60)
        hi = min(len(m.buffer), m.pointer + 60)
        win = m.buffer[lo:hi]
        got = project(m.get_snippet(), 4)
        if got is None:
            continue
        recs.append({'buf': abstract(win), 'ptr': m.pointer - lo, 'ml': 75, 'ind': 4, 'head': got[0], 'tail': got[1],
                     'text': abstract(got[2]), 'caret': got[3], 'has': has, 'shown': shown})
    return recs


def synthetic(yaml):
    """MarkedYAMLError.__str__ over every combination of present parts (marker texts, marks without buffer)"""
    from yaml.error import Mark, MarkedYAMLError
    recs = []
    for bits in range(64):
        a, b, c, d, same, f = [(bits >> k) & 1 == 1 for k in range(6)]
        if same and not (b and d):
            continue
        cm = Mark('n', 0, 1, 1, None, 0) if b else None
        pm = (Mark('n', 0, 1, 1, None, 0) if same else Mark('n', 0, 2, 1, None, 0)) if d else None
        e = MarkedYAMLError('CTX' if a else None, cm, 'PROB' if c else None, pm, 'NOTE' if f else None)
        lines = str(e).split('\n')
        shown = {'context': 'CTX' in lines, 'contextMark': '  in "n", line 2, column 2' in lines and
                 (not d or not same or lines.count('  in "n", line 2, column 2') == 2),
                 'problem': 'PROB' in lines, 'problemMark': ('  in "n", line %d, column 2' % (2 if same else 3)) in lines if d else False,
                 'note': 'NOTE' in lines}
        recs.append({'buf': [], 'ptr': 0, 'ml': 75, 'ind': 4, 'head': False, 'tail': False, 'text': [], 'caret': 4,
                     'has': {'context': a, 'contextMark': b, 'problem': c, 'problemMark': d, 'same': same, 'note': f},
                     'shown': shown})
    return recs


def _corpus_work(paths):
    yaml = use_repo()
    recs = []
    for p in paths:
        try:
            text = open(p, 'rb').read().decode('utf-8')
        except UnicodeDecodeError:
            continue
        rnd = random.Random(zlib.crc32(p.encode()) ^ SEED)
        variants = [text]
        for _ in range(3):                       # cut / splice: turns most files into erroneous ones at varied columns
            if len(text) > 2:
                i = rnd.randrange(len(text))
                variants.append(text[:i] + rnd.choice(['{', ']', '"', "'", '\t- ', ': :', '*x', '&a &b', '%', '!<', '\n\t']) + text[i:])
                variants.append(text[:i])
        for tv in variants:
            for e in _marks_of(tv, yaml):
                recs += _record(e)
    return recs


def stage(tier, tag='snippet'):
    """returns dict: states, transitions, replayed, drift (count), examples, judged, rejected (list of (why, rec))"""
    r = tlc.run('Snippet', cfg='MC_Snippet.cfg', tag=tag, dump=True, timeout=1200, coverage=False,
                constants={'MaxBuf': 8 if tier == 'quick' else 12})
    if r.violated:
        raise SystemExit('machinery failure: Snippet.tla violates %s' % r.violated)
    tlc.require_ok(r, 'Snippet enumeration')
    out = mbt.pmap(_work, r.dump, procs=16, chunks=32)
    os.remove(r.dump)
    if sum(o[0] for o in out) != r.distinct:
        raise SystemExit('machinery failure: Snippet dump/state count mismatch')
    res = {'states': r.distinct, 'transitions': r.generated, 'replayed': sum(o[1] for o in out),
           'drift': sum(o[2] for o in out), 'examples': [x for o in out for x in o[3]][:3]}
    files = sorted(glob.glob(os.path.join(REPO, 'tests/legacy_tests/data/*')))
    files = [f for f in files if os.path.isfile(f)]
    if tier == 'quick':
        files = files[SEED % 3::3]
    import multiprocessing as mp
    with mp.Pool(16) as pool:
        recs = [x for part in pool.map(_corpus_work, [files[i::32] for i in range(32)]) for x in part]
    uniq = {}
    for x in recs:
        uniq.setdefault(repr(sorted(x.items(), key=lambda kv: kv[0])), x)
    recs = list(uniq.values()) + synthetic(use_repo())
    verdicts, s2 = trace.judge('Trace_Snippet', recs, tag + '_trace')
    res['states'] += s2
    res['judged'] = len(recs)
    res['rejected'] = [(why, rec) for rec, (ok, why, at) in zip(recs, verdicts) if not ok]
    return res
