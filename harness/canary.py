"""Classes named by generated documents (python/object tags)."""


class Obj:
    pass


class SObj:
    """an object whose class defines __setstate__: its state mapping is built with deep=True after the instance exists"""
    def __setstate__(self, state):
        self.__dict__.update(state)


class App:
    """built by !!python/object/apply:harness.canary.mkapp [args...]"""
    def __init__(self, args):
        self.args = args


def mkapp(*args):
    return App(list(args))
