"""Classes named by generated documents (python/object tags)."""


class Obj:
    pass


class App:
    """built by !!python/object/apply:harness.canary.mkapp [args...]"""
    def __init__(self, args):
        self.args = args


def mkapp(*args):
    return App(list(args))
