"""Classes named by generated documents (python/object tags)."""


class Obj:
    pass
