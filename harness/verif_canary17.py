"""C17 class family: one concrete class per reduction shape of spec/Reduce.tla, a builder that instantiates an
abstract object graph, and the projection of a (rebuilt) object graph to a heap.

Importable in child processes as `harness.verif_canary17` (PYTHONPATH=/verif); the tags written by yaml.dump name
this module.  Nothing here imports yaml.

Abstract graph (the `g` of Reduce.tla, JSON form):  [ {"s": shape, "p": [v...], "a": [v...]} , ... ]   object 1 is the
root; v is {"r": i, "l": ""} (1-based object index) or {"r": 0, "l": kind} (a leaf, see LEAVES).  "p" = positional section (items /
constructor arguments / listitems / non-dict state / values under the keys k0,k1,... of dict-like shapes),
"a" = named section (attributes a,b,c...).

Class semantics are deliberately *consuming*: __init__/__setstate__/extend/__setitem__ unpack what they are given
into attributes and never keep the transient container, so that the final graph has exactly one node per abstract
object (Reduce.tla relies on that).
"""
import collections, copyreg, enum, os, types

ANAMES = 'abcdefghijklmnopqrstuvwxyz'


def _aname(i):
    return ANAMES[i] if i < 26 else 'a%d' % i


# attribute naming schemes of spec/Reduce.tla: the name of the first attribute of an object
FIRSTNAME = {'ord': 'a', 'ext': 'extend', 'dun': '__tag__', 'prv': '_p', 'app': 'append', 'upd': 'update'}
_SPECIAL = tuple(v for k, v in FIRSTNAME.items() if k != 'ord')


def attr_names(o):
    return [FIRSTNAME[o.get('n', 'ord')] if j == 0 else _aname(j) for j in range(len(o['a']))]


# ------------------------------------------------------------------------------------------------ the family
class P:
    """plain instance dictionary; default reduction: copyreg.__newobj__, (P,), state dict or None"""


class PA:
    """plain instance dictionary, but attribute assignment is not a plain store: pickle (and a faithful loader) fill
    the instance dictionary directly and never come here"""

    def __setattr__(self, name, value):
        self.__dict__[name] = value
        self.__dict__['h'] = '__setattr__ ran'


class S:
    """__slots__ only: default state is the 2-tuple (None, {slot: value})"""
    __slots__ = tuple(_aname(i) for i in range(8)) + _SPECIAL


class SD:
    """__slots__ and an instance dictionary: default state is ({...dict...}, {slot: value})"""
    __slots__ = ('a',) + _SPECIAL + ('__dict__',)


# ---- class layouts x default reduction (spec/Reduce.tla, LayoutShapes): {instance dictionary or not} x {slots or
# not} x {__setstate__ or not}; P, S, SD above are three of the cells.  For DS, SB, DST the dictionary entries are
# called p0, p1, ... and the slots are named like those of S.
_SLOTS = tuple(_aname(i) for i in range(8)) + _SPECIAL


class E0:
    """neither an instance dictionary nor slots: the default state is always None"""
    __slots__ = ()


class DSBase:
    """(no slots: instances of subclasses keep an instance dictionary)"""


class DS(DSBase):
    """slots declared by a subclass of a class without slots: slots and an instance dictionary"""
    __slots__ = _SLOTS


class SBBase:
    __slots__ = _SLOTS


class SB(SBBase):
    """subclass without __slots__ of a class with slots: slots and an instance dictionary"""


def _t_setstate(self, state):
    """__setstate__ of E0T, PT, ST, DST: applies the default state the way the default does - (dictionary part, slot
    part) or a bare dictionary part - and leaves a mark saying which form it was given"""
    two = isinstance(state, tuple) and len(state) == 2
    d, s = state if two else (state, {})
    if not (d is None or isinstance(d, dict)) or not isinstance(s, dict):
        raise TypeError('state of %s: %r' % (type(self).__name__, type(state)))
    if d:
        self.__dict__.update(d)
    for k, v in s.items():
        setattr(self, k, v)
    setattr(self, 'n', 'n2' if two else 'n0')


class E0T:
    """no instance dictionary, no slots, __setstate__ (never called by pickle: the state is always None)"""
    __slots__ = ()
    __setstate__ = _t_setstate


class PT:
    """instance dictionary, default __getstate__, own __setstate__"""
    __setstate__ = _t_setstate


class ST:
    """slots only, default __getstate__ ((None, {slot: value})), own __setstate__"""
    __slots__ = _SLOTS + ('n',)
    __setstate__ = _t_setstate


class DST:
    """slots and an instance dictionary ('__dict__' is a slot), default __getstate__, own __setstate__"""
    __slots__ = _SLOTS + ('n', '__dict__')
    __setstate__ = _t_setstate


class GS:
    """__getstate__ returning a dict, __setstate__ consuming it; __init__ must not run when an instance is rebuilt"""

    def __init__(self):
        self.h = 'init ran'

    def __getstate__(self):
        return dict(self.__dict__)

    def __setstate__(self, state):
        self.__dict__.update(state)


class GT:
    """__getstate__ returning a non-dict state (a list of n values), __setstate__ unpacking it"""

    def __getstate__(self):
        return [getattr(self, _aname(i)) for i in range(int(self.n[1:]))]

    def __setstate__(self, state):
        self.n = 'n%d' % len(state)          # leaves a trace even when the state is empty
        for i, x in enumerate(state):
            setattr(self, _aname(i), x)


class GV:
    """__getstate__ returning one value as it is (whatever object that is), __setstate__ storing it"""

    def __getstate__(self):
        return self.v

    def __setstate__(self, state):
        self.v = state


class GC:
    """__getstate__ returning a dict with a list inside, __setstate__ copying what it finds in that list at the moment
    it is called (so the state has to be complete by then)"""

    def __getstate__(self):
        return {'items': [getattr(self, _aname(i)) for i in range(len(self.__dict__))]}

    def __setstate__(self, state):
        for i, x in enumerate(state['items']):
            setattr(self, _aname(i), x)


class GL:
    """__getstate__ handing out a list that belongs to the graph (shared, not a copy); __setstate__ keeps it and
    copies what it holds at that moment"""

    def __getstate__(self):
        return {'items': self.items}

    def __setstate__(self, state):
        self.items = state['items']
        for i, x in enumerate(state['items']):
            setattr(self, 'x%d' % i, x)


class NA(tuple):
    """subclass of an immutable built-in with __getnewargs__ and an instance dictionary"""

    def __new__(cls, *items):
        return tuple.__new__(cls, items)

    def __getnewargs__(self):
        return tuple(self)


NT = collections.namedtuple('NT', 'x y')


class R2:
    """__reduce__ returning (function, args)"""

    def __init__(self, *args):
        for i, x in enumerate(args):
            setattr(self, 'p%d' % i, x)

    def _args(self):
        n = len([k for k in self.__dict__ if k[0] == 'p'])
        return tuple(getattr(self, 'p%d' % i) for i in range(n))

    def __reduce__(self):
        return (make_r2, self._args())


def make_r2(*args):
    return R2(*args)


class R3(R2):
    """__reduce__ returning (class, args, state dict)"""

    def __reduce__(self):
        state = {k: v for k, v in self.__dict__.items() if k[0] != 'p'}
        return (type(self), self._args(), state)


class RL:
    """__reduce__ with a listitems iterator (and a state dict or None)"""

    def _n(self):
        return len([k for k in self.__dict__ if k[0] == 'i'])

    def extend(self, xs):
        for x in xs:
            setattr(self, 'i%d' % self._n(), x)

    def append(self, x):
        self.extend([x])

    def __reduce__(self):
        state = {k: v for k, v in self.__dict__.items() if k[0] != 'i'}
        return (type(self), (), state or None, iter([getattr(self, 'i%d' % i) for i in range(self._n())]))


class RD:
    """__reduce__ with a dictitems iterator"""

    def __setitem__(self, k, v):
        setattr(self, 'd_%s' % (k,), v)

    def __reduce__(self):
        return (type(self), (), None, None, iter([(k[2:], v) for k, v in self.__dict__.items()]))


class CR:
    """reduced through copyreg.dispatch_table"""

    def __init__(self, *args):
        for i, x in enumerate(args):
            setattr(self, 'p%d' % i, x)


def make_cr(*args):
    return CR(*args)


def _reduce_cr(o):
    return (make_cr, tuple(getattr(o, 'p%d' % i) for i in range(len(o.__dict__))))


copyreg.pickle(CR, _reduce_cr)


class ML(list):
    """list subclass with attributes"""


class MD(dict):
    """dict subclass with attributes"""


class MS(set):
    """set subclass with attributes"""


class MO(collections.OrderedDict):
    """subclass of a container that has its own representer entry, with attributes"""


class XInt(int):
    """subclasses of the scalar types that have their own representer entry, with attributes"""


class XStr(str):
    pass


class XFloat(float):
    pass


class XBytes(bytes):
    pass


class XComplex(complex):
    pass


XS_BY_KIND = {'i': [XInt, XFloat], 'i0': [XInt, XFloat], 's': [XStr], 's0': [XStr], 'b': [XBytes], 'c': [XComplex]}


class Color(enum.Enum):
    RED = 1
    GREEN = 'g'


class Num(enum.IntEnum):
    ONE = 1
    TWO = 2


def func(x=None):
    return x


SHAPES = ['list', 'dict', 'tuple', 'set', 'P', 'PA', 'S', 'SD', 'GS', 'GT', 'GV', 'GC', 'GL', 'NA', 'NT', 'R2', 'R3', 'RL', 'RD', 'CR',
          'ML', 'MD', 'MS', 'OD', 'MO', 'XS', 'E0', 'DS', 'SB', 'E0T', 'PT', 'ST', 'DST']
IMMUTABLE = {'tuple', 'NA', 'NT'}          # built from their positional section at creation time
# representatives per leaf kind (pairwise different over all kinds, so that a digest names its kind); the harness picks
# one per occurrence (seeded).  i0 / s0 / z are the false leaves.
LEAVES = {
    'i': [7, -3, 2 ** 40], 'i0': [0], 's': ['x', 'a b', 'null'], 's0': [''], 'z': [None],
    'c': [1 + 2j, 2j, -1.5 - 0.5j], 'b': [b'\x00\xff', b'abc'],
    'n': [P, int, collections.OrderedDict], 'f': [func, make_r2, len], 'm': [os, collections],
    'e': [Color.RED, Color.GREEN, Num.ONE],
}
SHAPE_OF = {list: 'list', dict: 'dict', tuple: 'tuple', set: 'set', P: 'P', S: 'S', SD: 'SD', GS: 'GS', GT: 'GT', GV: 'GV',
            GC: 'GC', GL: 'GL', PA: 'PA',
            NA: 'NA', NT: 'NT', R2: 'R2', R3: 'R3', RL: 'RL', RD: 'RD', CR: 'CR', ML: 'ML', MD: 'MD', MS: 'MS',
            collections.OrderedDict: 'OD', MO: 'MO', XInt: 'XS', XStr: 'XS', XFloat: 'XS', XBytes: 'XS', XComplex: 'XS',
            E0: 'E0', DS: 'DS', SB: 'SB', E0T: 'E0T', PT: 'PT', ST: 'ST', DST: 'DST'}


# Inherited twins: an empty subclass of every class of the family, so that each protocol method (__setstate__,
# __getstate__, __reduce__, __getnewargs__, __setattr__, __slots__, extend, __setitem__) is found on a BASE class of the
# object's class (h = "inh" in spec/Reduce.tla) instead of on the class itself.
TWIN = {}
for _c in (P, PA, S, SD, GS, GT, GV, GC, GL, NA, NT, R2, R3, RL, RD, CR, ML, MD, MS, MO, XInt, XStr, XFloat, XBytes, XComplex,
           E0, DS, SB, E0T, PT, ST, DST):
    _t = type(_c.__name__ + '_i', (_c,), {'__module__': __name__, '__doc__': 'inherits everything from ' + _c.__name__})
    globals()[_t.__name__] = _t
    TWIN[_c] = _t
    SHAPE_OF[_t] = SHAPE_OF[_c]
SHAPE_OF[TWIN[CR]] = 'CRi'          # not in copyreg.dispatch_table (exact class): reduces like a plain object


class Unbuildable(Exception):
    pass


def build(graph, pick=None):
    """instantiate an abstract graph; pick(kind, i, j) -> index of the representative of a leaf (default 0)"""
    n = len(graph)
    objs = [None] * n
    state = [0] * n           # 0 not made, 1 in progress, 2 made

    def val(v, i, j):
        if v['r']:
            return objs[v['r'] - 1]
        reps = LEAVES[v['l']]
        return reps[(pick(v['l'], i, j) if pick else 0) % len(reps)]

    shells = {'list': list, 'dict': dict, 'set': set, 'P': P, 'S': S, 'SD': SD, 'GS': GS, 'GT': GT, 'GV': GV, 'GC': GC, 'GL': GL, 'PA': PA,
              'R2': R2, 'R3': R3, 'RL': RL, 'RD': RD, 'CR': CR, 'ML': ML, 'MD': MD, 'MS': MS,
              'OD': collections.OrderedDict, 'MO': MO, 'E0': E0, 'DS': DS, 'SB': SB, 'E0T': E0T, 'PT': PT, 'ST': ST, 'DST': DST}
    def home(o, c):
        return TWIN[c] if o.get('h') == 'inh' and c in TWIN else c
    for i, o in enumerate(graph):
        if o['s'] == 'XS':                      # the class follows the kind of the value leaf
            v = val(o['p'][0], i, 0)
            cs = XS_BY_KIND[o['p'][0]['l']]
            objs[i] = home(o, cs[(pick('XS', i, 0) if pick else 0) % len(cs)])(v)
            state[i] = 2
        elif o['s'] not in IMMUTABLE:
            c = home(o, shells[o['s']])
            objs[i] = c.__new__(c)
            if o['s'] in ('OD', 'MO'):
                objs[i].__init__()
            state[i] = 2

    def make(i):
        if state[i] == 2:
            return
        if state[i] == 1:
            raise Unbuildable('cycle through immutable objects only')
        state[i] = 1
        o = graph[i]
        for v in o['p']:
            if v['r']:
                make(v['r'] - 1)
        items = [val(v, i, j) for j, v in enumerate(o['p'])]
        if o['s'] == 'tuple':
            objs[i] = tuple(items)
        elif o['s'] == 'NA':
            objs[i] = home(o, NA)(*items)
        else:
            objs[i] = home(o, NT)(*(items + [None, None])[:2])
        state[i] = 2
    for i in range(n):
        make(i)
    for i, o in enumerate(graph):
        s, x = o['s'], objs[i]
        pv = [val(v, i, j) for j, v in enumerate(o['p'])]
        av = [val(v, i, 100 + j) for j, v in enumerate(o['a'])]
        if s in ('list', 'ML', 'RL'):
            x.extend(pv)
        elif s in ('set', 'MS'):
            x.update(pv)
        elif s == 'OD':                           # descending keys: the order differs from the sorted order
            for j, v in enumerate(pv):
                x['k%d' % (len(pv) - 1 - j)] = v
        elif s in ('dict', 'MD', 'RD', 'MO'):
            for j, v in enumerate(pv):
                x['k%d' % j] = v
        elif s == 'GT':
            x.__setstate__(pv)
        elif s == 'GV':
            x.v = pv[0]
        elif s == 'GC':
            x.__setstate__({'items': pv})
        elif s in ('R2', 'R3', 'CR'):
            x.__init__(*pv)
        elif s in ('DS', 'SB', 'DST'):            # the dictionary entries; the named section goes to the slots
            for j, v in enumerate(pv):
                x.__dict__['p%d' % j] = v
        names = attr_names(o)
        if s in ('P', 'S', 'SD', 'GS', 'NA', 'R3', 'RL', 'ML', 'MD', 'MS', 'MO', 'XS', 'PT', 'ST', 'DS', 'SB', 'DST'):
            for j, v in enumerate(av):
                object.__setattr__(x, names[j], v)   # SD: the first name is a slot, b, c... go to the instance dictionary
        elif s == 'PA':
            for j, v in enumerate(av):
                x.__dict__[names[j]] = v
    for i, o in enumerate(graph):              # last: GL copies out of a list that must be complete by now
        if o['s'] == 'GL':
            objs[i].__setstate__({'items': val(o['p'][0], i, 0)})
    return objs[0]


# ------------------------------------------------------------------------------------------------ projection
def digest(x):
    """canonical string of a leaf, or None when x is a node (has identity / children)"""
    if x is None:
        return 'none'
    if isinstance(x, enum.Enum):
        return 'enum:%s.%s.%s' % (type(x).__module__, type(x).__qualname__, x.name)
    t = type(x)
    if t is bool:
        return 'bool:%s' % x
    if t is int:
        return 'int:%d' % x
    if t is float:
        return 'float:%s' % (x.hex() if x == x else 'nan')
    if t is str:
        return 'str:' + x.encode('unicode_escape').decode('ascii')
    if t is bytes:
        return 'bytes:' + x.hex()
    if t is complex:
        return 'complex:%s,%s' % (x.real.hex(), x.imag.hex())
    if isinstance(x, type) or t in (types.FunctionType, types.BuiltinFunctionType):
        return 'name:%s.%s' % (x.__module__, x.__qualname__)
    if t is types.ModuleType:
        return 'module:' + x.__name__
    if t is tuple and len(x) == 0:
        return 'tuple0'
    return None


def _plain(x):
    """is x's instance dictionary a 'plain instance dictionary': default reduction with no constructor arguments,
    no list/dict items, dict-or-None state, no __setstate__"""
    try:
        r = x.__reduce_ex__(2)
    except Exception:
        return False
    if type(x) in copyreg.dispatch_table or hasattr(x, '__setstate__'):
        return False
    r = (list(r) + [None] * 5)[:5]
    return (getattr(r[0], '__name__', '') == '__newobj__' and tuple(r[1]) == (type(x),)
            and (r[2] is None or isinstance(r[2], dict)) and r[3] is None and r[4] is None)


def _slots(t):
    out = []
    for c in t.__mro__:
        s = c.__dict__.get('__slots__', ())
        if isinstance(s, str):
            s = (s,)
        out += [n for n in s if n not in ('__dict__', '__weakref__')]
    return out


_KIND = None


def kind_of(d):
    """abstract leaf kind of a digest (the inverse of LEAVES; the GT length marker n<k> is its own kind)"""
    global _KIND
    if _KIND is None:
        _KIND = {digest(v): k for k, vs in LEAVES.items() for v in vs}
        _KIND.update({'str:n%d' % i: 'n%d' % i for i in range(9)})
    return _KIND.get(d, '?' + d)


def project(root):
    """object graph -> {"root": kid, "heap": [ {"lab", "alab", "dig", "kids": [kid]} ]}, the heap format of
    spec/H_Reduce.tla: kid = {"c" edge class, "k" name / key, "r" node (0: leaf), "d" leaf digest, "dk" leaf kind,
    "soft"}.  Identity by id(); kids in canonical order: tuple / list items in order, dict values by key
    (OrderedDict: in order), slot values by name (c = "s"), instance dictionary entries by name (c = "a"); set members (leaves) go into the node's digest."""
    ids, heap, keep = {}, [], []

    def kid(c, k, x, soft):
        d = digest(x)
        if d is not None:
            return {'c': c, 'k': k, 'r': 0, 'd': d, 'dk': kind_of(d), 'soft': soft}
        return {'c': c, 'k': k, 'r': node(x), 'd': '', 'dk': '', 'soft': soft}

    def key(k):
        return k if type(k) is str else str(digest(k))

    def node(x):
        if id(x) in ids:
            return ids[id(x)]
        keep.append(x)
        t = type(x)
        rec = {'lab': '%s.%s' % (t.__module__, t.__qualname__), 'alab': SHAPE_OF.get(t, '?' + t.__qualname__), 'dig': '',
               'kids': []}
        heap.append(rec)
        ids[id(x)] = me = len(heap)
        kids = []
        for base in (int, float, str, bytes, complex):
            if isinstance(x, base):             # instance of a subclass of a scalar type: the value goes into the digest
                rec['dig'] = digest(base(x))
        if isinstance(x, tuple):
            kids += [kid('t', '', y, False) for y in x]
        elif isinstance(x, list):
            kids += [kid('i', '', y, t is list) for y in x]
        elif isinstance(x, (set, frozenset)):
            ms = [digest(y) for y in x]
            rec['dig'] = 'members:' + '|'.join(sorted(m if m is not None else '<node>' for m in ms))
        elif isinstance(x, dict):
            items = list(x.items())
            if not isinstance(x, collections.OrderedDict):
                items.sort(key=lambda kv: key(kv[0]))
            kids += [kid('v', key(k), v, t is dict) for k, v in items]
        # where an attribute lives is observed: each slot through attribute access (the slot descriptor is a data
        # descriptor: it never falls back to the instance dictionary), each entry of the instance dictionary in vars(x)
        for name in sorted(set(_slots(t))):
            try:
                kids.append(kid('s', name, getattr(x, name), False))
            except AttributeError:
                pass
        d = getattr(x, '__dict__', None)
        if isinstance(d, dict) and not isinstance(x, (type, types.ModuleType)):
            soft = _plain(x)
            kids += [kid('a', str(k), d[k], soft) for k in sorted(d, key=str)]
        rec['kids'] = kids
        return me
    return {'root': kid('root', '', root, True), 'heap': heap}
