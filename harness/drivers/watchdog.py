"""Run a function over many items in worker subprocesses under a watchdog.

A worker that makes no progress on one item for `limit` seconds is killed; the item is run again alone in a fresh process
with the same limit; only if that also times out the item's result is HANG.  A worker that dies (signal / os._exit) while
working on an item gives DIED after the same confirmation.  No wall-clock value ever enters a result: the limit only
decides between "there is a result" and "there is none".
"""
import multiprocessing as mp
import multiprocessing.connection as mpc
import os, time

HANG = {'__watchdog__': 'hang'}


def DIED(code):
    return {'__watchdog__': 'died', 'exitcode': code}


def _worker(fn, init, conn, items, idxs):
    ctx = init() if init else None
    for i, it in zip(idxs, items):
        conn.send(('s', i))
        conn.send(('r', i, fn(ctx, it)))
    conn.send(('e',))
    conn.close()


class _W:
    def __init__(self, fn, init, items, idxs):
        self.parent, child = mp.Pipe(duplex=False)
        self.proc = mp.Process(target=_worker, args=(fn, init, child, items, idxs))
        self.proc.start()
        child.close()
        self.idxs, self.items = list(idxs), list(items)
        self.current, self.t = None, time.time()
        self.doneset = set()


def _alone(fn, init, item, limit):
    """confirmation run -> ('ok', result) | ('hang',) | ('died', code)"""
    w = _W(fn, init, [item], [0])
    res = None
    while True:
        if w.parent.poll(1.0):
            try:
                m = w.parent.recv()
            except EOFError:
                w.proc.join()
                return ('died', w.proc.exitcode)
            if m[0] == 'r':
                res = ('ok', m[2])
            if m[0] == 'e':
                w.proc.join()
                return res
            w.t = time.time()
        elif time.time() - w.t > limit:
            w.proc.kill()
            w.proc.join()
            return ('hang',)
        elif not w.proc.is_alive() and not w.parent.poll(0):
            return ('died', w.proc.exitcode)


SKIPPED = {'__watchdog__': 'skipped'}


def run(fn, items, procs=16, limit=60.0, init=None, chunk=None, abort_after=None):
    """fn(ctx, item) -> picklable result; returns the list of results in item order.
    abort_after=k: after k confirmed HANG / DIED results the remaining items are not run (result SKIPPED)."""
    n = len(items)
    results = [None] * n
    if n == 0:
        return results
    chunk = chunk or max(1, min(400, n // (procs * 4) + 1))
    todo = [list(range(a, min(n, a + chunk))) for a in range(0, n, chunk)]
    todo.reverse()
    live = []

    def spawn():
        while todo and len(live) < procs:
            idxs = todo.pop()
            live.append(_W(fn, init, [items[i] for i in idxs], idxs))

    nbad = [0]

    def settle(w, verdict_if_confirmed):
        """worker w stopped while working on w.current: confirm alone, requeue the rest of its chunk"""
        i = w.current
        if abort_after is not None and nbad[0] >= abort_after:
            return                                          # the verdict is decided: no further confirmation runs
        if i is not None and i not in w.doneset:
            r = _alone(fn, init, items[i], limit)
            if r is None:
                r = ('died', None)
            results[i] = r[1] if r[0] == 'ok' else (HANG if r[0] == 'hang' else DIED(r[1]))
            if r[0] != 'ok':
                nbad[0] += 1
            w.doneset.add(i)
        rest = [j for j in w.idxs if j not in w.doneset]
        if rest:
            todo.append(rest)

    spawn()
    while live:
        if abort_after is not None and nbad[0] >= abort_after:
            for w in live:
                w.proc.kill()
                w.proc.join()
            break
        ready = mpc.wait([w.parent for w in live], timeout=1.0)
        now = time.time()
        for w in list(live):
            if w.parent in ready:
                try:
                    while w.parent.poll(0):
                        m = w.parent.recv()
                        w.t = now
                        if m[0] == 's':
                            w.current = m[1]
                        elif m[0] == 'r':
                            results[m[1]] = m[2]
                            w.doneset.add(m[1])
                        elif m[0] == 'e':
                            w.proc.join()
                            live.remove(w)
                            break
                except EOFError:
                    w.proc.join()
                    live.remove(w)
                    settle(w, 'died')
            elif now - w.t > limit:
                w.proc.kill()
                w.proc.join()
                live.remove(w)
                settle(w, 'hang')
        spawn()
    if abort_after is not None and nbad[0] >= abort_after:
        results = [SKIPPED if x is None else x for x in results]
    return results
