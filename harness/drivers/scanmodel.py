"""Binding between spec/Scanner.tla and the real scanners (used by C03 and C06).

* REPS: the concretisation table - several concrete representatives per abstract symbol; all representatives of a symbol
  have the same length in characters (= W(s) of the specification), so the specification's marks are character marks.
  Long runs: bulk symbols B<x> (BulkW characters of one class) and unit runs U<name>; configure(thorough) sets their widths.
* concretise(): abstract input -> concrete text (seed-dependent choice of representatives).
* expected(): the specification's prediction (tokens with marks and values, error kind and marks) made concrete.
* observe_scan(): projection of what yaml.scan really does.
* ERR_KINDS: error kind of the specification -> (context, problem) texts of scanner.py (used for drift notes only).
"""
import re

REPS = {
    'w': ['g', 'k', 'z', 'Q', 'Z'], 'h': ['A', 'B'], 'a': ['a', 'b'], 'n': ['n', 't', 'v', 'r', 'N', 'L', 'P'],
    'xc': ['x'], 'uc': ['u'], 'Uc': ['U'], '0': ['0'], '1': ['1'], '2': ['2'], '3': ['3'], '4': ['4'], '5': ['5'], '6': ['6'], '7': ['7'], '8': ['8'], '9': ['9'],
    'u': ['\xe9', '\xfc', '\u4e2d', '\U0001f600', '\u0663', '\uff13', '\xa0', '\ud7ff', '\ue000', '\ufffd', '\U0010ffff'],
    'nd': ['\xb2', '\u2460', '\u0663', '\uff13', '\u0e53', '\xb9', '\u2082'],
    'sp': [' '], 'tab': ['\t'], 'lf': ['\n'], 'cr': ['\r'], 'nel': ['\x85'], 'ls': ['\u2028'], 'ps': ['\u2029'],
    'bom': ['\ufeff'],
    'np': ['\x01', '\x7f', '\x00', '\ufffe', '\uffff', '\x0b', '\x1b', '\x9f', '\x80'],
    '-': ['-'], '?': ['?'], ':': [':'], ',': [','], '[': ['['], ']': [']'], '{': ['{'], '}': ['}'], '#': ['#'],
    '&': ['&'], '*': ['*'], '!': ['!'], '|': ['|'], '>': ['>'], "'": ["'"], 'dq': ['"'], '%': ['%'], '@': ['@'],
    'bt': ['`'], 'bs': ['\\'], '.': ['.'], '<': ['<'], '+': ['+'], '_': ['_'], '/': ['/'],
    'up': [';', '=', '$', '~', '(', ')'], 'o': ['^'],
    'X2': ['x41', 'x7e', 'xE9', 'xff', 'x0a'], 'U4': ['u00e9', 'u263A', 'u0041', 'uFFFD', 'ud7ff'],
    'U4s': ['uD800', 'udfff', 'uDBFF'], 'U8': ['U0001F600', 'U00000041', 'U0010FFFF', 'U0000e000'],
    'U8s': ['U0000D800', 'U0000dfff'], 'U8big': ['U00110000', 'U7FFFFFFF', 'U00200000', 'U01000000'],
    'U8huge': ['U80000000', 'UFFFFFFFF', 'Uf0000000'],
    'NX': ['0x' + 'f' * 40, '0x' + '0123456789abcdefABCD' * 2, '0X' + '1a' * 20], 'NB': ['0b' + '1' * 40, '0b' + '10' * 20],
    'NO': ['0o' + '7' * 40, '00' + '01234567' * 5], 'ND': ['1' * 40, '9876543210' * 4, '0' * 40], 'NU': ['1_' * 20, '0_' * 20],
    'YAML': ['YAML'], 'TAG': ['TAG'], 'L': ['k' * 1024, 'Z' * 1024], 'DBIG': ['1' * 4301, '7' * 4301],
    'P1': ['%41', '%7e', '%20', '%2F'], 'P2a': ['%C3', '%c3', '%C2', '%DF'], 'P2b': ['%A9', '%a9', '%80', '%BF'],
    'Pbad': ['%FF', '%FE', '%f8'],
}
# long runs (Scanner.tla: RunTable / BulkSyms / UnitSyms).  A bulk B<x> is BulkW characters of class x (the a + z copies around
# it are ordinary symbols of the input); a unit run U<name> is UNIT_N repetitions of a token-producing unit.
BULK_BASE = {'Bsp': 'sp', 'Btab': 'tab', 'Blf': 'lf', 'Bcr': 'cr', 'Bcrlf': 'cr', 'Bnel': 'nel', 'Bls': 'ls', 'Bps': 'ps', 'Bw': 'w',
             'Bu': 'u', 'Bhash': '#', 'Bdash': '-', 'Bdot': '.', 'B0': '0', 'B1': '1'}
UNITS = {'Udash': '- ', 'Uq': '? ', 'Ucolon': ': ', 'Ucomma': ',', 'Uwcomma': 'a, ', 'Uopen': '[', 'Ubrace': '{', 'Uclose': ']',
         'Uflowq': '?', 'Uflowcolon': ':', 'Udoc': '---\n', 'Uend': '...\n', 'Uydir': '%YAML 1.1\n', 'Udir': '%FOO bar\n',
         'Uanchor': '&a ', 'Utag': '!t ', 'Ualias': '*a ', 'Uentry': '- a\n', 'Upair': 'a: b\n', 'Ufpair': 'a: b, ', 'Ucmt': '# c\n',
         'Usq': "'' ", 'Udq': '"" ', 'Uesc': '\\n', 'Ulit': '|\n', 'Uqq': "''", 'Ubsbs': '\\\\', 'Uempty': '-\n', 'Uqempty': '?\n'}
BULK_W, DIGIT_BULK_W, UNIT_N = 1200, 4400, 1200
BULK_LINES = {}
WIDTH = {}


def configure(thorough=False):
    """widths of the long runs as in Scanner.tla (BulkW = 1200 / 5000 by Thorough, DigitBulkW = 4400)"""
    global BULK_W, UNIT_N
    BULK_W, UNIT_N = (5000, 3000) if thorough else (1200, 1200)
    n, d = BULK_W, DIGIT_BULK_W
    REPS.update({
        'Bsp': [' ' * n], 'Btab': ['\t' * n], 'Blf': ['\n' * n], 'Bcr': ['\r' * n], 'Bcrlf': ['\r\n' * (n // 2)], 'Bnel': ['\x85' * n],
        'Bls': ['\u2028' * n], 'Bps': ['\u2029' * n], 'Bw': ['k' * n, 'Z' * n, ('gkzQZ' * n)[:n]],
        'Bu': ['\xe9' * n, '\u4e2d' * n, '\U0001f600' * n, ('\xe9\u4e2d\U0001f600' * n)[:n]], 'Bhash': ['#' * n], 'Bdash': ['-' * n],
        'Bdot': ['.' * n], 'B0': ['0' * d], 'B1': ['1' * d, '7' * d, ('987654321' * d)[:d]]})
    for s_, u in UNITS.items():
        REPS[s_] = [u * UNIT_N]
    BULK_LINES.clear()
    BULK_LINES.update({s_: (n // 2 if s_ == 'Bcrlf' else n) for s_ in ('Blf', 'Bcr', 'Bcrlf', 'Bnel', 'Bls', 'Bps')})
    WIDTH.clear()
    WIDTH.update({s_: len(r[0]) for s_, r in REPS.items()})
    for s_, r in REPS.items():
        assert all(len(x) == len(r[0]) for x in r), s_


configure(False)


def has_run(symbols):
    return any(s_ in BULK_BASE or s_ in UNITS for s_ in symbols)

ESCAPES = {'0': '\0', 'a': '\x07', 'b': '\x08', 't': '\x09', '\t': '\x09', 'n': '\x0a', 'v': '\x0b', 'f': '\x0c', 'r': '\x0d',
           'e': '\x1b', ' ': ' ', '"': '"', '\\': '\\', '/': '/', 'N': '\x85', '_': '\xa0', 'L': '\u2028', 'P': '\u2029'}

# specification error kind -> (context regex, problem regex) of scanner.py
ERR_KINDS = {
    'no_token': (r'while scanning for the next token', r'cannot start any token'),
    'simple_key': (r'while scanning a simple key', r"could not find expected ':'"),
    'seq_not_allowed': (None, r'sequence entries are not allowed here'),
    'key_not_allowed': (None, r'mapping keys are not allowed here'),
    'value_not_allowed': (None, r'mapping values are not allowed here'),
    'anchor_name': (r'while scanning an (alias|anchor)', r'expected alphabetic or numeric character'),
    'anchor_end': (r'while scanning an (alias|anchor)', r'expected alphabetic or numeric character'),
    'dir_name': (r'while scanning a directive', r'expected alphabetic or numeric character'),
    'dir_digit': (r'while scanning a directive', r'expected a digit, but found'),
    'dir_dot': (r'while scanning a directive', r"expected a digit or '\.'"),
    'dir_digit_sp': (r'while scanning a directive', r"expected a digit or ' '"),
    'dir_sp': (r'while scanning a directive', r"expected ' ', but found"),
    'dir_comment': (r'while scanning a directive', r'expected a comment or a line break'),
    'handle_bang': (r'while scanning a (tag|directive)', r"expected '!', but found"),
    'uri_expected': (r'while parsing a (tag|directive)', r'expected URI, but found'),
    'uri_hex': (r'while scanning a (tag|directive)', r'expected URI escape sequence of 2 hexadecimal'),
    'uri_utf8': (r'while scanning a (tag|directive)', r"codec can't decode"),
    'tag_gt': (r'while parsing a tag', r"expected '>', but found"),
    'tag_end': (r'while scanning a tag', r"expected ' ', but found"),
    'block_zero': (r'while scanning a block scalar', r'expected indentation indicator in the range 1-9'),
    'block_indicator': (r'while scanning a block scalar', r'expected chomping or indentation indicators'),
    'block_comment': (r'while scanning a block scalar', r'expected a comment or a line break'),
    'quoted_docsep': (r'while scanning a quoted scalar', r'found unexpected document separator'),
    'quoted_eof': (r'while scanning a quoted scalar', r'found unexpected end of stream'),
    'escape_hex': (r'while scanning a double-quoted scalar', r'expected escape sequence of \d hexadecimal'),
    'escape_range': (r'while scanning a double-quoted scalar', r'Unicode code point'),
    'dir_number_long': (r'while scanning a directive', r'extremely long version number'),
    'unknown_escape': (r'while scanning a double-quoted scalar', r'found unknown escape character'),
}


def concretise(symbols, rnd):
    """-> (text, parts) ; parts[k] is the concrete text of symbol k (0-based)"""
    parts = [rnd.choice(REPS[s]) for s in symbols]
    return ''.join(parts), parts


def concretise_fixed(symbols, k):
    parts = [REPS[s][k % len(REPS[s])] for s in symbols]
    return ''.join(parts), parts


def _value(items, symbols, parts):
    """value items of the specification -> concrete string (None when the model's bytes do not decode: never for 'ok')"""
    out, pend = [], bytearray()

    def flush():
        if pend:
            out.append(bytes(pend).decode('utf-8', 'replace'))
            pend.clear()
    for it in items:
        if it > 40000:                                        # NLs(q): the line feeds a bulk of line breaks is normalised to
            flush()
            out.append('\n' * BULK_LINES[symbols[it - 40000 - 1]])
            continue
        if it > 30000:
            flush()
            out.append(parts[it - 30000 - 1][1:])
            continue
        if 20000 < it:
            q = it - 20000 - 1
            if symbols[q] == '%':
                pend.append(int(parts[q + 1] + parts[q + 2], 16))
            else:
                pend.append(int(parts[q][1:], 16))
            continue
        flush()
        if it == -1:
            out.append('\n')
        elif it == -2:
            out.append(' ')
        elif it > 10000:
            q = it - 10000 - 1
            txt = parts[q]
            if len(txt) > 1:                                  # escape macro: letter + hex digits
                out.append(chr(int(txt[1:], 16)))
            elif symbols[q] in ('xc', 'uc', 'Uc'):
                n = {'xc': 2, 'uc': 4, 'Uc': 8}[symbols[q]]
                out.append(chr(int(''.join(parts[q + 1:q + 1 + n]), 16)))
            else:
                out.append(ESCAPES[txt])
        else:
            out.append(parts[it - 1])
    flush()
    return ''.join(out)


def expected(state, symbols, parts):
    """the specification's prediction for this concretisation: (tokens, outcome, errkind, errmarks)
    token = [kind, si, sl, sc, ei, el, ec, value-projection]"""
    toks = []
    for t in state['out']:
        k = t['k']
        a, b = _value(t['a'], symbols, parts), _value(t['b'], symbols, parts)
        if k == 'Scalar':
            val = [a, t['x'] == 'plain', None if t['x'] == 'plain' else {'dq': '"'}.get(t['x'], t['x'])]
        elif k in ('Alias', 'Anchor'):
            val = a
        elif k == 'Tag':
            val = [None if t['x'] == 'nohandle' else a, b]
        elif k == 'Directive':
            if t['x'] == 'YAML':
                val = ['YAML', [int(a) if len(a) <= 4300 else None, int(b) if len(b) <= 4300 else None]]
            elif t['x'] == 'TAG':
                val = ['TAG', [a, b]]
            else:
                val = [a, None]
        else:
            val = None
        toks.append([k, t['s']['i'], t['s']['l'], t['s']['c'], t['e']['i'], t['e']['l'], t['e']['c'], val])
    res = state['res']
    e = state['err']
    marks = []
    if res == 'error':
        if e['c']['i'] >= 0:
            marks.append([e['c']['i'], e['c']['l'], e['c']['c']])
        marks.append([e['p']['i'], e['p']['l'], e['p']['c']])
    elif res == 'reader_error':
        marks.append([e['p']['i']])
    return toks, res, e['kind'], marks


def project_token(tk):
    s, e = tk.start_mark, tk.end_mark
    kind = type(tk).__name__[:-5]
    if kind == 'Scalar':
        val = [tk.value, bool(tk.plain), tk.style]
    elif kind in ('Alias', 'Anchor'):
        val = tk.value
    elif kind == 'Tag':
        val = [tk.value[0], tk.value[1]]
    elif kind == 'Directive':
        val = [tk.name, list(tk.value) if tk.value is not None else None]
    else:
        val = None
    return [kind, s.index, s.line, s.column, e.index, e.line, e.column, val]


def observe_scan(yaml, data, Loader):
    """-> (tokens, outcome, info): outcome 'ok' | 'error' (ScannerError...) | 'reader_error' | 'exception:<Type>'"""
    toks = []
    try:
        for tk in yaml.scan(data, Loader=Loader):
            toks.append(project_token(tk))
        return toks, 'ok', None
    except yaml.reader.ReaderError as e:
        return toks, 'reader_error', {'cls': 'ReaderError', 'marks': [[e.position]], 'bytes': isinstance(e.character, bytes)}
    except yaml.YAMLError as e:
        marks = []
        for m in (getattr(e, 'context_mark', None), getattr(e, 'problem_mark', None)):
            if m is not None:
                marks.append([m.index, m.line, m.column])
        return toks, 'error', {'cls': type(e).__name__, 'marks': marks, 'context': getattr(e, 'context', None),
                               'problem': getattr(e, 'problem', None)}
    except Exception as e:       # noqa - the property is about exactly this
        return toks, 'exception:' + type(e).__name__, {'cls': type(e).__name__, 'msg': str(e)[:120]}


def kind_matches(kind, info):
    pat = ERR_KINDS.get(kind)
    if pat is None or info is None:
        return False
    c, p = pat
    ctx, prob = info.get('context'), info.get('problem') or ''
    if c is None:
        if ctx is not None:
            return False
    elif ctx is None or not re.search(c, ctx):
        return False
    return re.search(p, prob) is not None


def compare(state, symbols, parts, real):
    """L comparison (drift only): None when the real scan equals the prediction, else a short description"""
    etoks, eres, ekind, emarks = expected(state, symbols, parts)
    rtoks, rout, info = real
    if eres == 'unmodelled':                                  # a unit run: the specification generates the input, H judges it
        return None
    if eres == 'crash':
        return None if rout.startswith('exception:') else 'model predicts a non-YAML exception (%s), real: %s' % (ekind, rout)
    if rout != eres:
        return 'outcome: model %s/%s, real %s %s' % (eres, ekind, rout, (info or {}).get('problem') or (info or {}).get('msg'))
    if rtoks != etoks:
        for i, (x, y) in enumerate(zip(etoks, rtoks)):
            if x != y:
                return 'token %d: model %r, real %r' % (i, x, y)
        return 'token count: model %d, real %d' % (len(etoks), len(rtoks))
    if eres == 'error':
        if info['marks'] != emarks:
            return 'error marks: model %s %r, real %r (%s)' % (ekind, emarks, info['marks'], info.get('problem'))
        if not kind_matches(ekind, info):
            return 'error kind: model %s, real %r / %r' % (ekind, info.get('context'), info.get('problem'))
    if eres == 'reader_error' and info['marks'] != emarks:
        return 'reader error position: model %r, real %r' % (emarks, info['marks'])
    return None


# ------------------------------------------------------------------ real text -> abstract symbols (for LoadPipe, FromFile = TRUE)
_CH = {' ': 'sp', '\t': 'tab', '\n': 'lf', '\r': 'cr', '\x85': 'nel', '\u2028': 'ls', '\u2029': 'ps', '\ufeff': 'bom', '"': 'dq',
       '`': 'bt', '\\': 'bs', '^': 'o'}
for _c in '-?:,[]{}#&*!|>\'%@.<+_/':
    _CH[_c] = _c
for _c in ';=$~()':
    _CH[_c] = 'up'
for _c in '0123456789':
    _CH[_c] = _c
for _c in 'abef':
    _CH[_c] = 'a'            # hex digit and escape name
for _c in 'cdABCDEF':
    _CH[_c] = 'h'            # hex digit, no escape name
for _c in 'ntvrNLP':
    _CH[_c] = 'n'            # escape name, no hex digit
_CH.update({'x': 'xc', 'u': 'uc', 'U': 'Uc'})
_NONPRINT = re.compile('[^\x09\x0A\x0D\x20-\x7E\x85\xA0-\uD7FF\uE000-\uFFFD\U00010000-\U0010ffff]')
_ESCBODY = re.compile(r'u[0-9A-Fa-f]{4}|U[0-9A-Fa-f]{8}')
_DIRNAME = re.compile(r'(?m)^%(YAML|TAG)(?![0-9A-Za-z_-])')


def abstract(text):
    """map a concrete text to the abstract alphabet of Scanner.tla (one symbol per character; the directive names YAML and
    TAG become their macro-symbols).  The model is exact for this mapping except for the value of escapes and for raw
    %-escapes >= 0x80 (see design_parts/C03.md), which do not matter for acceptance of the documents C06 judges."""
    out = []
    names = {m.start() + 1: m.group(1) for m in _DIRNAME.finditer(text)}
    # a directive is only recognised at column 0; other break characters than LF start a line too
    for m in re.finditer('[\r\x85\u2028\u2029]%(YAML|TAG)(?![0-9A-Za-z_-])', text):
        names[m.start() + 2] = m.group(1)
    i, n = 0, len(text)
    while i < n:
        if i in names:
            out.append(names[i])
            i += len(names[i])
            continue
        ch = text[i]
        if ch == '\\' and i + 1 < n:
            # escape bodies whose value class matters become their macro-symbols (read left to right, so that an escaped
            # backslash is not taken for the start of an escape)
            m = _ESCBODY.match(text, i + 1)
            if text[i + 1] == '\\':
                out += ['bs', 'bs']
                i += 2
                continue
            if m:
                code = int(m.group(0)[1:], 16)
                body = m.group(0)
                sym = None
                if body[0] == 'u' and 0xD800 <= code <= 0xDFFF:
                    sym = 'U4s'
                elif body[0] == 'U':
                    sym = 'U8s' if 0xD800 <= code <= 0xDFFF else 'U8big' if 0x10FFFF < code < 0x80000000 else 'U8huge' if code >= 0x80000000 else None
                if sym:
                    out += ['bs', sym]
                    i += 1 + len(body)
                    continue
        s = _CH.get(ch)
        if s is None:
            if 'a' <= ch <= 'z' or 'A' <= ch <= 'Z':
                s = 'w'
            elif _NONPRINT.match(ch):
                s = 'np'
            elif ord(ch) < 128:
                s = 'o'
            else:
                s = 'u'
        out.append(s)
        i += 1
    return out
