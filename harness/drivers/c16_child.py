"""C16 child interpreter: started once per (PYTHONHASHSEED, chunk).  The recipes of the chunk (several option sets per
value, many values) are executed in an order that depends on the interpreter (as listed / reversed / shuffled), so that
every (value, options) is dumped after a different history of earlier dumps in each process.
Rebuilds every value of the chunk from its recipe,
dumps it in each requested insertion-order variant with each dumper and writes digests of the output texts; in `full`
mode also the re-dump after load (fixed point), the anchor names alone / as second document / after another document,
and the key orders as inserted / in the document / as loaded.  Observes only; every comparison is made by TLC."""
import hashlib, json, random, sys


def main(inp, outp, order=0):
    from harness.common import use_repo
    from harness import c02_util as U
    yaml = use_repo()
    job = json.load(open(inp))
    idx = list(range(len(job['recipes'])))
    if order == 1:
        idx.reverse()
    elif order >= 2:
        random.Random(len(idx) * 7919 + order).shuffle(idx)
    res = [None] * len(idx)
    for ri in idx:
        rec = job['recipes'][ri]
        value0, opts = U.rebuild(rec)
        out = {'outs': {}, 'fixed': {}, 'anchors': {}, 'order': {}}
        for variant in job['variants']:
            value = U.permute(value0, variant, rec.get('rseed', rec.get('index', 0)))
            for dumper in U.DUMPERS:
                try:
                    text = yaml.dump(value, Dumper=getattr(yaml, dumper), **opts)
                    out['outs']['%d/%s' % (variant, dumper)] = U.tdigest(text)
                except Exception as e:
                    out['outs']['%d/%s' % (variant, dumper)] = 'dump-error:' + type(e).__name__
                    continue
                if job['full'] and variant == 0 and not rec.get('light'):
                    D = getattr(yaml, dumper)
                    for loader in U.LOADERS:
                        L = getattr(yaml, loader)
                        try:
                            back = yaml.load(text, Loader=L)
                        except Exception as e:
                            out['fixed'][dumper + '/' + loader] = [U.tdigest(text), 'load-error:' + type(e).__name__]
                            continue
                        try:
                            out['fixed'][dumper + '/' + loader] = [U.tdigest(text), U.tdigest(yaml.dump(back, Dumper=D, **opts))]
                        except Exception as e:
                            out['fixed'][dumper + '/' + loader] = [U.tdigest(text), 'dump-error:' + type(e).__name__]
                        if not opts.get('sort_keys', True):
                            out['order'][dumper + '/' + loader] = U.key_orders(yaml, value, text, back)
                    try:
                        alone = U.anchor_names(yaml, text)[0]
                        second = U.anchor_names(yaml, yaml.dump_all([value, value], Dumper=D, **opts))[1]
                        other = [[1, 2], {'k': None}]
                        other.append(other[0])
                        other.append(other)
                        after = U.anchor_names(yaml, yaml.dump_all([other, value], Dumper=D, **opts))[1]
                        out['anchors'][dumper] = [alone, second, after]
                    except Exception as e:
                        out['anchors'][dumper] = [['error:' + type(e).__name__], [], []]
        res[ri] = out
    json.dump(res, open(outp, 'w'))


if __name__ == '__main__':
    main(sys.argv[1], sys.argv[2], int(sys.argv[3]) if len(sys.argv) > 3 else 0)
