"""Drivers for C07 / C18: delivery forms, scripted and instrumented streams, the consumer programs of Reader.tla,
concretisation of the abstract code-unit alphabet of DeliveryIndep.tla, and the projections of tokens / events / nodes /
objects / errors that are compared across delivery forms.  No verdicts here: this module only concretises, observes,
projects."""
import codecs, hashlib, re

# ------------------------------------------------------------------------------------------------ delivery forms
FORMS = ['str', 'b8', 'b8bom', 'b16le', 'b16be', 'text', 's8', 's8bom', 's16le', 's16be']
ENC = {'str': None, 'text': None, 'b8': 'utf-8', 'b8bom': 'utf-8', 's8': 'utf-8', 's8bom': 'utf-8',
       'b16le': 'utf-16-le', 's16le': 'utf-16-le', 'b16be': 'utf-16-be', 's16be': 'utf-16-be'}
BOM = {'b8bom': codecs.BOM_UTF8, 's8bom': codecs.BOM_UTF8, 'b16le': codecs.BOM_UTF16_LE, 's16le': codecs.BOM_UTF16_LE,
       'b16be': codecs.BOM_UTF16_BE, 's16be': codecs.BOM_UTF16_BE}
STREAM = {'text', 's8', 's8bom', 's16le', 's16be'}
EAGER_OF = {'text': 'str', 's8': 'b8', 's8bom': 'b8bom', 's16le': 'b16le', 's16be': 'b16be'}


def encode_form(text, form):
    """the whole input of a delivery form for a decodable document"""
    if ENC[form] is None:
        return text
    return BOM.get(form, b'') + text.encode(ENC[form], 'surrogatepass')


class ScriptedStream:
    """read(n) returns exactly the pieces a schedule chose (short reads are legal); when the schedule is exhausted the rest
    is handed out in pieces of the size asked for (extra = number of such unscheduled calls).  Logs every call."""

    def __init__(self, data, schedule, name='<scripted>'):
        self.data, self.pos, self.schedule, self.k = data, 0, list(schedule), 0
        self.log = []          # (asked, got, offset after the call)
        self.extra = 0
        self.name = name

    def read(self, size=-1):
        if self.k < len(self.schedule):
            n = self.schedule[self.k]
            self.k += 1
            if size is not None and size >= 0:
                n = min(n, size)
        else:
            n = size if size is not None and size >= 0 else len(self.data)
            if self.pos < len(self.data) or self.k > len(self.schedule):
                self.extra += 1
            self.k += 1
        piece = self.data[self.pos:self.pos + n]
        self.pos += len(piece)
        self.log.append((size, len(piece), self.pos))
        return piece


class CutStream:
    """read(n) returns the data up to the next cut offset (absolute offsets in units of the data), at most n units, at least
    one unit unless the data are exhausted.  Logs (asked, got, offset after the call)."""

    def __init__(self, data, cuts, name='<cuts>'):
        self.data, self.pos = data, 0
        self.cuts = sorted(set(c for c in cuts if 0 < c < len(data)))
        self.ci = 0
        self.log = []
        self.name = name
        self.closed_after = None

    def read(self, size=-1):
        while self.ci < len(self.cuts) and self.cuts[self.ci] <= self.pos:
            self.ci += 1
        end = self.cuts[self.ci] if self.ci < len(self.cuts) else len(self.data)
        if size is not None and size >= 0:
            end = min(end, self.pos + size)
        piece = self.data[self.pos:end]
        self.pos = end
        self.log.append((size, len(piece), self.pos))
        return piece


def interesting_cuts(data, text_prefix_len=None):
    """offsets (in units of data) at which a split is delicate: inside a multi-byte UTF-8 sequence, inside a UTF-16 code
    unit or surrogate pair, between CR and LF, and around the refill boundaries of both back-ends (4096, 16384 multiples)"""
    out = {'multi': [], 'crlf': [], 'refill': []}
    n = len(data)
    for b in (4096, 16384):
        for k in range(b, n + 2, b):
            out['refill'] += [x for x in (k - 1, k, k + 1) if 0 < x < n]
    if isinstance(data, str):
        for m in re.finditer('\r\n', data):
            out['crlf'].append(m.start() + 1)
        return out
    if data[:2] in (codecs.BOM_UTF16_LE, codecs.BOM_UTF16_BE):
        le = data[:2] == codecs.BOM_UTF16_LE
        cr, lf = (b'\r\0', b'\n\0') if le else (b'\0\r', b'\0\n')
        for i in range(2, n - 1, 2):
            out['multi'].append(i + 1)                                   # inside a code unit
            hi = data[i + 1] if le else data[i]
            if 0xd8 <= hi <= 0xdb:
                out['multi'] += [i + 2, i + 3]                           # inside a surrogate pair
            if data[i:i + 2] == cr and data[i + 2:i + 4] == lf:
                out['crlf'] += [i + 2, i + 1, i + 3]
    else:
        for i in range(n):
            if 0x80 <= data[i] <= 0xbf:
                out['multi'].append(i)                                   # before a continuation byte
            elif data[i] == 13 and i + 1 < n and data[i + 1] == 10:
                out['crlf'].append(i + 1)
    return out


# ------------------------------------------------------------------------------------------------ concretisation
POOL = {
    'A': ['a', 'Z', '7', 'k', '_'],
    'B2': ['\xe9', '\u044f', '\xa0'],
    'B3': ['\u20ac', '\u4e2d', '\ud7ff', '\ue000'],
    'B4': ['\U0001F600', '\U0001D11E', '\U0010FFFF', '\U00010000'],
    'CR': ['\r'], 'LF': ['\n'], 'NEL': ['\x85'], 'LS': ['\u2028', '\u2029'], 'BOM': ['\ufeff'],
    'NP1': ['\x01', '\x00', '\x7f', '\x1f', '\x0b'], 'NP2': ['\x80', '\x9f', '\x84', '\x86'], 'NP3': ['\ufffe', '\uffff'],
}
SYNTAX_A = [' ', ':', '-', '#', ',', '[', ']', '{', '}', '"', "'", '&', '*', '!', '|', '>', '%', '?', '\t', '.', 'x', 'y']
BAD8 = {'INV': [b'\xff', b'\xfe', b'\xc0', b'\xf8', b'\x80'], 'TR1': [b'\xc3', b'\xe2', b'\xf0'], 'TR2': [b'\xe2\x82', b'\xf0\x9f']}
BAD16 = {'INV': ['\udc00', '\udfff'], 'TR1': ['\ud83d', '\ud800']}      # encoded with surrogatepass
CLASS_LETTER = {'A': 'a', 'B2': 'b', 'B3': 'c', 'B4': 'd', 'CR': 'R', 'LF': 'L', 'NEL': 'N', 'LS': 'S', 'BOM': 'M',
                'NP1': '1', 'NP2': '2', 'NP3': '3', 'NUL': '0'}


def concretise(doc, form, rnd, syntax=False):
    """doc: list of symbols of DeliveryIndep.tla -> (data of the form [str or bytes], list of concrete pieces per symbol).
    Every abstract code unit becomes exactly one real code unit (byte, or character for the text forms)."""
    enc = ENC[form]
    pieces = []
    prev = None
    for s in doc:
        if s in POOL:
            pool = POOL[s]
            if s == 'A' and syntax:
                pool = pool + SYNTAX_A
            ch = rnd.choice(pool)
            pieces.append(ch if enc is None else ch.encode(enc))
        elif enc == 'utf-8':
            cand = BAD8[s]
            if s == 'INV' and prev in ('TR1', 'TR2'):
                cand = [c for c in cand if not 0x80 <= c[0] <= 0xbf]     # a continuation byte would complete the sequence
            pieces.append(rnd.choice(cand))
        elif s == 'ODD':
            pieces.append(rnd.choice([b'a', b'\xd8', b'\x00']))
        else:
            pieces.append(rnd.choice(BAD16[s]).encode(enc, 'surrogatepass'))
        prev = s
    if enc is None:
        return ''.join(pieces), pieces
    data = BOM.get(form, b'') + b''.join(pieces)
    return data, pieces


def classes_of(text):
    """abstraction of a concrete character sequence: one class letter per character (trusted base)"""
    out = []
    for ch in text:
        o = ord(ch)
        if ch == '\r':
            out.append('R')
        elif ch == '\n':
            out.append('L')
        elif ch == '\x85':
            out.append('N')
        elif ch in '\u2028\u2029':
            out.append('S')
        elif ch == '\ufeff':
            out.append('M')
        elif ch == '\0':
            out.append('0')
        elif o == 9 or 0x20 <= o <= 0x7e:
            out.append('a')
        elif o < 0x80:
            out.append('1')
        elif o < 0xa0:
            out.append('2')
        elif o < 0x800:
            out.append('b')
        elif 0xd800 <= o <= 0xdfff or o in (0xfffe, 0xffff):
            out.append('3')
        elif o < 0x10000:
            out.append('c')
        else:
            out.append('d')
    return ''.join(out)


NONPRINTABLE = re.compile('[^\x09\x0A\x0D\x20-\x7E\x85\xA0-\ud7ff\ue000-\ufffd\U00010000-\U0010ffff]')   # YAML 1.1 c-printable complement


def line_structure(text):
    """indices at which a line starts (first is 0) and indices of zero-width U+FEFF: the input of the Pos rule"""
    breaks, boms, i, n = [0], [], 0, len(text)
    while i < n:
        ch = text[i]
        if ch == '\r' and i + 1 < n and text[i + 1] == '\n':
            i += 2
            breaks.append(i)
            continue
        if ch in '\r\n\x85\u2028\u2029':
            breaks.append(i + 1)
        elif ch == '\ufeff':
            boms.append(i)
        i += 1
    return breaks, boms


# ------------------------------------------------------------------------------------------------ consumer programs
PROGRAMS = {'p11': ('p', 1, 1), 'p21': ('p', 2, 1), 'p32': ('p', 3, 2), 'p33': ('p', 3, 3), 'x22': ('x', 2, 2),
            'x31': ('x', 3, 1), 'x33': ('x', 3, 3), 'x42': ('x', 4, 2)}


def drive(reader, prog, limit=100000):
    """run a consumer program of Reader.tla against a real Reader; returns the list of observations
    ('peek', i, ch) / ('prefix', l, s) / ('forward', l, index, line, column)"""
    kind, look, step = PROGRAMS[prog]
    ahead = ''
    obs = []
    while limit:
        limit -= 1
        looking = len(ahead) < look and '\0' not in ahead
        if looking:
            if kind == 'p':
                i = len(ahead)
                ch = reader.peek(i)
                obs.append(('peek', i, ch))
                ahead += ch
            else:
                s = reader.prefix(look)
                obs.append(('prefix', look, s))
                if len(s) > len(ahead):
                    ahead = s
                elif len(s) <= len(ahead):
                    break                      # no progress: stop (the comparison will show what is missing)
        else:
            good = ahead.index('\0') if '\0' in ahead else len(ahead)
            if good == 0:
                break
            l = min(step, good)
            reader.forward(l)
            obs.append(('forward', l, reader.index, reader.line, reader.column))
            ahead = ahead[l:]
    return obs


# ------------------------------------------------------------------------------------------------ projections
def _mark(m):
    return None if m is None else (m.line, m.column)


def digest(items, block=64):
    """a list of strings as it is, or - when long - as digests of blocks of 64 items (compared by TLC as strings)"""
    if len(items) <= 2 * block:
        return items
    out = []
    for i in range(0, len(items), block):
        out.append('#%d:%s' % (i, hashlib.sha1('\x1e'.join(items[i:i + block]).encode('utf-8', 'surrogatepass')).hexdigest()[:16]))
    return out


def proj_token(t):
    d = {k: v for k, v in vars(t).items() if k not in ('start_mark', 'end_mark', 'encoding')}
    return '%s %r %r %r' % (type(t).__name__, _mark(t.start_mark), _mark(t.end_mark), sorted(d.items()))


def proj_event(e):
    d = {k: v for k, v in vars(e).items() if k not in ('start_mark', 'end_mark', 'encoding')}
    return '%s %r %r %r' % (type(e).__name__, _mark(e.start_mark), _mark(e.end_mark), sorted(d.items(), key=lambda kv: kv[0]))


def proj_node(yaml, n, seen=None, out=None):
    """node graph in document order with identity: one string per node"""
    if out is None:
        seen, out = {}, []
    if id(n) in seen:
        out.append('alias->%d' % seen[id(n)])
        return out
    seen[id(n)] = len(seen)
    head = '%s %s %r %r' % (type(n).__name__, n.tag, _mark(n.start_mark), _mark(n.end_mark))
    if isinstance(n, yaml.ScalarNode):
        out.append(head + ' %r' % (n.value,))
    elif isinstance(n, yaml.SequenceNode):
        out.append(head + ' [%d' % len(n.value))
        for c in n.value:
            proj_node(yaml, c, seen, out)
    else:
        out.append(head + ' {%d' % len(n.value))
        for k, v in n.value:
            proj_node(yaml, k, seen, out)
            proj_node(yaml, v, seen, out)
    return out


def canon(o, seen=None):
    """objects built by the safe loaders, as a canonical string (identity of containers included)"""
    seen = {} if seen is None else seen
    if isinstance(o, (list, dict, set)):
        if id(o) in seen:
            return '@%d' % seen[id(o)]
        seen[id(o)] = len(seen)
    if isinstance(o, list):
        return '[' + ','.join(canon(x, seen) for x in o) + ']'
    if isinstance(o, tuple):
        return '(' + ','.join(canon(x, seen) for x in o) + ')'
    if isinstance(o, dict):
        return '{' + ','.join(canon(k, seen) + ':' + canon(v, seen) for k, v in o.items()) + '}'
    if isinstance(o, set):
        return 'set{' + ','.join(sorted(canon(x, seen) for x in o)) + '}'
    if isinstance(o, float):
        return 'f:' + (o.hex() if o == o else 'nan')
    return '%s:%r' % (type(o).__name__, o)


def reader_kind(e):
    """class of a ReaderError: a character outside the printable set, or input that cannot be decoded"""
    return 'unprintable' if e.encoding == 'unicode' or 'not allowed' in str(e.reason) else 'undecodable'


def proj_error(yaml, e):
    """class, problem / context text, line / column of the marks; for reader errors kind and position (as reported)"""
    d = {'cls': type(e).__name__, 'problem': '', 'context': '', 'pl': -1, 'pc': -1, 'cl': -1, 'cc': -1, 'pi': -1,
         'rd': False, 'rkind': '', 'rpos': -1}
    if isinstance(e, yaml.reader.ReaderError):
        d['rd'] = True
        d['problem'] = str(e.reason)
        d['rkind'] = reader_kind(e)
        d['rpos'] = e.position
        d['rchar'] = e.character if isinstance(e.character, int) else -1
        return d
    if isinstance(e, yaml.MarkedYAMLError):
        d['problem'] = str(e.problem)
        d['context'] = str(e.context)
        if e.problem_mark is not None:
            d['pl'], d['pc'], d['pi'] = e.problem_mark.line, e.problem_mark.column, e.problem_mark.index
        if e.context_mark is not None:
            d['cl'], d['cc'] = e.context_mark.line, e.context_mark.column
    else:
        d['problem'] = str(e)[:200]
    return d


APIS = ('scan', 'parse', 'compose', 'load')


def run_api(yaml, api, backend, src):
    """one delivery through one API of one back-end -> {'st', 'items', 'err'}; generators are drained item by item so that
    the items yielded before an error are part of the observation"""
    L = yaml.SafeLoader if backend == 'py' else yaml.CSafeLoader
    items, err, st = [], None, 'ok'
    try:
        if api == 'scan':
            for t in yaml.scan(src, Loader=L):
                items.append(proj_token(t))
        elif api == 'parse':
            for e in yaml.parse(src, Loader=L):
                items.append(proj_event(e))
        elif api == 'compose':
            for n in yaml.compose_all(src, Loader=L):
                items.append('|'.join(proj_node(yaml, n)))
        else:
            for o in yaml.load_all(src, Loader=L):
                items.append(canon(o))
    except yaml.YAMLError as e:
        st, err = 'err', proj_error(yaml, e)
    except RecursionError:
        st, err = 'exc', {'cls': 'RecursionError'}
    except Exception as e:
        st, err = 'exc', {'cls': type(e).__name__, 'problem': str(e)[:200]}
    return {'st': st, 'items': items, 'err': err}
