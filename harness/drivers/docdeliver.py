"""Driver for C12 (spec/DocDeliver.tla): the text of n dumped documents handed back to the loaders as a file-like object whose
read() follows a *schedule* of the model (one / two / line / doc / half / all, applied cyclically), in text and byte form; a Loader
whose reader asks for the model's number of units per read; a parser fed with the tokens of scan().
Only concretisation and observation live here - no verdicts."""
import codecs, re

KINDS = ('one', 'two', 'line', 'doc', 'half', 'all')
FORMS = ('text', 'b8', 'b16')
_BREAK = re.compile(r'\r\n|\r|\n')


def next_in(marks, p, n):
    """smallest mark > p, else n (marks sorted)"""
    for q in marks:
        if q > p:
            return q
    return n


def got(kind, asked, pos, n, bounds, lines):
    """Got(kind, asked, p) of DocDeliver.tla; asked < 0 / None = no limit"""
    if asked is None or asked < 0:
        asked = n - pos
    if kind == 'one':
        want = 1
    elif kind == 'two':
        want = 2
    elif kind == 'line':
        want = next_in(lines, pos, n) - pos
    elif kind == 'doc':
        want = next_in(bounds, pos, n) - pos
    elif kind == 'half':
        want = (next_in(bounds, pos, n) - pos + 1) // 2
    elif kind == 'all':
        want = asked
    else:
        raise ValueError(kind)
    return max(0, min(want, asked, n - pos))


class PolicyStream:
    """file-like object over `data` (str or bytes): the k-th read() returns Got(sched[k mod len], asked, pos) units.
    bounds / lines: offsets (in units of data) at which the text of a document / a line ends.  Logs (asked, got)."""

    def __init__(self, data, bounds, lines, sched, name='<policy stream>'):
        self.data, self.pos, self.k = data, 0, 0
        self.bounds, self.lines, self.sched = sorted(bounds), sorted(lines), list(sched)
        self.log = []
        self.name = name

    def read(self, size=-1):
        kind = self.sched[self.k % len(self.sched)]
        self.k += 1
        g = got(kind, size, self.pos, len(self.data), self.bounds, self.lines)
        piece = self.data[self.pos:self.pos + g]
        self.pos += g
        self.log.append((size, g))
        return piece


def form_data(text, cuts, form):
    """the text in a delivery form -> (data, bounds, lines): `cuts` are offsets into the text (ends of the documents' texts),
    translated to offsets in units of the form (characters, UTF-8 bytes, UTF-16 bytes after the byte order mark)"""
    ends = [m.end() for m in _BREAK.finditer(text)]
    if form == 'text':
        return text, list(cuts), ends
    if form == 'b8':
        off = lambda k: len(text[:k].encode('utf-8'))
        return text.encode('utf-8'), [off(k) for k in cuts], [off(k) for k in ends]
    if form == 'b16':
        off = lambda k: 2 + len(text[:k].encode('utf-16-le'))
        return codecs.BOM_UTF16_LE + text.encode('utf-16-le'), [off(k) for k in cuts], [off(k) for k in ends]
    raise ValueError(form)


def open_stream(text, cuts, form, sched):
    data, bounds, lines = form_data(text, cuts, form)
    return PolicyStream(data, bounds, lines, sched, '<%s %s>' % (form, '+'.join(sched)))


_sized = {}


def sized_loader(yaml, base, size):
    """the Loader class `base` with a reader that asks its stream for `size` units per read (the model's Size instead of 4096);
    everything else - in particular the end-of-input rule of update_raw - is the code under test"""
    key = (id(yaml), base, size)
    if key not in _sized:
        B = getattr(yaml, base)

        class Sized(B):
            def update_raw(self, size=size):
                return B.update_raw(self, size)
        Sized.__name__ = '%s_read%d' % (base, size)
        _sized[key] = Sized
    return _sized[key]


def token_parser(yaml):
    """a real Parser whose token source is a list of tokens (those scan() returned)"""
    class Tokens:
        def __init__(self, tokens):
            self.toks = list(tokens)

        def check_token(self, *choices):
            if self.toks:
                return not choices or isinstance(self.toks[0], choices)
            return False

        def peek_token(self):
            return self.toks[0] if self.toks else None

        def get_token(self):
            return self.toks.pop(0) if self.toks else None

    class TokenParser(Tokens, yaml.parser.Parser):
        def __init__(self, tokens):
            Tokens.__init__(self, tokens)
            yaml.parser.Parser.__init__(self)

    def events_of(tokens):
        p, out = TokenParser(tokens), []
        while p.check_event():
            out.append(p.get_event())
        return out
    return events_of
