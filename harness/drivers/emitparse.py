"""Driver shared by C05 and C12: build event streams, run  emit -> text -> parse  on the real classes, project events to
the records H_EventEq.tla judges (all text as lists of code points), concretise abstract characters.
Only observation and projection live here; every verdict formula is in spec/H_EventEq.tla / H_DocBoundaries.tla."""
import random

STYLE_CHAR = {'none': None, 'plain': None, 'single': "'", 'double': '"', 'literal': '|', 'folded': '>'}
STYLE_NAME = {None: 'plain', '': 'plain', "'": 'single', '"': 'double', '|': 'literal', '>': 'folded'}

# representatives of the character classes of Scalars.tla (first = the code point the model computes with)
CLASSES = {
    97: 'aZ7_b/+=~^$)(;<', 233: '\xe9\xfc中\xffЖ퟿�', 128512: '\U0001f600\U00010000\U0010fffe',
    7: '\x07\x08\x0b\x0c\x1b', 127: '\x7f\x01\x1f\x80\x84\x86\x9f\x0e', 65534: '￾￿', 8232: '  ',
    38: '&*@`', 124: '|>', 91: '[]{}',
}


def cps(s):
    return [ord(c) for c in s] if s else []


def text_of(cp):
    return ''.join(map(chr, cp))


def concretise(cp, rnd):
    """replace every abstract character by a seeded representative of its class"""
    return ''.join(rnd.choice(CLASSES[c]) if c in CLASSES else chr(c) for c in cp)


def project(ev):
    """event object -> record of H_EventEq.tla"""
    k = type(ev).__name__[:-5]
    r = {'k': k, 'a': [], 't': [], 'v': [], 'i': [], 'p': 0, 'ver': [], 'tags': []}
    if k in ('Scalar', 'SequenceStart', 'MappingStart', 'Alias'):
        r['a'] = cps(ev.anchor)
    if k in ('Scalar', 'SequenceStart', 'MappingStart'):
        r['t'] = cps(ev.tag)
    if k == 'Scalar':
        r['v'] = cps(ev.value)
        r['i'] = [int(bool(ev.implicit[0])), int(bool(ev.implicit[1]))]
        r['p'] = int(ev.style in (None, ''))
    elif k in ('SequenceStart', 'MappingStart'):
        r['i'] = [int(bool(ev.implicit))]
    elif k == 'DocumentStart':
        if ev.version:
            r['ver'] = [int(ev.version[0]), int(ev.version[1])]
        if ev.tags:
            r['tags'] = sorted([cps(h), cps(p)] for h, p in ev.tags.items())
    return {k: x for k, x in r.items() if k == 'k' or x}


def emit_parse(yaml, events, Dumper, Loader, opts, parse=True):
    """-> dict(outcome, text, eout, err)"""
    res = {'outcome': 'ok', 'text': None, 'eout': [], 'err': ''}
    try:
        res['text'] = yaml.emit(events, Dumper=Dumper, **opts)
    except yaml.emitter.EmitterError as e:
        res['outcome'], res['err'] = 'EmitterError', str(e)[:200]
        return res
    except Exception as e:
        res['outcome'], res['err'] = 'exception', '%s: %s' % (type(e).__name__, str(e)[:200])
        return res
    if not parse:
        return res
    try:
        evs = list(yaml.parse(res['text'], Loader=Loader))
        res['eout'] = [project(e) for e in evs]
        res['styles'] = [STYLE_NAME.get(e.style, '?') for e in evs if type(e).__name__ == 'ScalarEvent']
    except Exception as e:
        res['outcome'], res['err'] = 'ParseError', '%s: %s' % (type(e).__name__, str(e)[:200])
    return res


# ------------------------------------------------------------------ contexts of MC_Scalars.tla as event streams
def ctx_events(yaml, cx, value, req, impl0):
    """event stream that puts one scalar into the context cx of MC_Scalars.tla; returns (events, index of the scalar among
    the scalar events of the stream)"""
    E = yaml.events
    sc = E.ScalarEvent(None, None, (bool(impl0), True), value, style=STYLE_CHAR[req])
    x = lambda: E.ScalarEvent(None, None, (True, False), 'x')
    k = lambda: E.ScalarEvent(None, None, (True, False), 'k')
    seq = lambda flow: E.SequenceStartEvent(None, None, True, flow_style=flow)
    mp = lambda flow: E.MappingStartEvent(None, None, True, flow_style=flow)
    kind, d, fol = cx['kind'], cx['d'], cx['fol']
    body, idx = [], 0
    if kind in ('root0', 'root3'):
        body = [sc]
    elif kind == 'item':
        body = [seq(False)] * d + [sc] + ([x()] if fol == 'sib' else []) + [E.SequenceEndEvent()] * d
    elif kind in ('mval', 'bkey', 'ckey'):
        pair = [k(), sc] if kind == 'mval' else [sc, x()]
        idx = 1 if kind == 'mval' else 0
        body = [seq(False)] * (d - 1) + [mp(False)] + pair + ([k(), x()] if fol == 'sib' else []) + \
               [E.MappingEndEvent()] + [E.SequenceEndEvent()] * (d - 1)
    elif kind in ('fitem', 'fnext'):
        pre = [x()] if kind == 'fnext' else []
        idx = len(pre)
        body = [seq(True)] * d + pre + [sc] + ([x()] if fol == 'comma' else []) + [E.SequenceEndEvent()] * d
    elif kind in ('fkey', 'fval'):
        pair = [k(), sc] if kind == 'fval' else [sc, x()]
        idx = 1 if kind == 'fval' else 0
        body = [seq(True)] * (d - 1) + [mp(True)] + pair + ([k(), x()] if fol == 'comma' else []) + \
               [E.MappingEndEvent()] + [E.SequenceEndEvent()] * (d - 1)
    evs = [E.StreamStartEvent(), E.DocumentStartEvent(explicit=(kind == 'root3'))] + body + \
          [E.DocumentEndEvent(explicit=(fol == 'dend'))]
    if fol == 'dnext':
        evs += [E.DocumentStartEvent(explicit=False), x(), E.DocumentEndEvent(explicit=False)]
    return evs + [E.StreamEndEvent()], idx


def ctx_prefix(cx):
    """text the emitter has written on the line before the scalar (so that prefix + model output = real text)"""
    kind, d, b = cx['kind'], cx['d'], cx['b']
    dashes = lambda n: ''.join(' ' * (b * i - (b * (i - 1) + 1 if i else 0)) + '-' for i in range(n))
    if kind == 'root0':
        return ''
    if kind == 'root3':
        return '---'
    if kind == 'item':
        return dashes(d)
    if kind in ('mval', 'bkey', 'ckey'):
        p = dashes(d - 1)
        p += ' ' * (b * (d - 1) - len(p))
        return p + {'mval': 'k:', 'bkey': '', 'ckey': '?'}[kind]
    if kind in ('fitem', 'fnext'):
        return '[' * d + ('x,' if kind == 'fnext' else '')
    return '[' * (d - 1) + '{' + ('k:' if kind == 'fval' else '')


LB = {'n': '\n', 'r': '\r', 'rn': '\r\n'}


def ctx_opts(cx):
    return dict(indent=cx['b'], width=cx['width'], allow_unicode=bool(cx['uni']), line_break=LB[cx['lb']])


# ------------------------------------------------------------------ attribute classes of Emitter.tla
SCALAR_TEXT = {'empty': '', 'word': 'a', 'words': 'a b', 'multiline': 'a\nb', 'lead': ' a', 'trail': 'a ', 'ind': '- a',
               'nonascii': '\xe9', 'nl': 'a\n', 'nlnl': 'a\n\n', 'long': 'aaa bbb cc', 'docsep': '---', 'x': 'x',
               'dashkey': '--- a', 'dotkey': '... a', 'dotsfold': 'aaaaaa ... b', 'dashfold': 'aaaaaa ---'}
ANCHOR = {'': [None], 'a1': ['a1', 'x-1', 'A_b'], 'a2': ['a2', 'y', 'Z9'], 'bad': ['a b', '\xe9', 'a*'], 'empty': ['']}
TAG = {'': [None], '!': ['!'], 'local': ['!f', '!foo', '!a/b'], 'core': ['tag:yaml.org,2002:s', 'tag:yaml.org,2002:str', 'tag:yaml.org,2002:int'],
       'uri': ['t:\xe9', 'tag:\xe9.org,2000:x y', 't:\u4e2d<'], 'hdl': ['t:h1:x', 't:h1:x', 't:h1:x'], 'hu': ['t:\xe9:x', 't:\xe9:x', 't:\xe9:x'],
       'st': ['t:s:x'] * 3, 'bt': ['t:b:x'] * 3, 'empty': ['']}
TAGS = {'': None, 'hs': {'!!': 't:s:'}, 'hb': {'!': 't:b:'}, 'h1': {'!h1!': 't:h1:'}, 'hu': {'!u!': 't:\xe9:'}, 'badh': {'!h1': 'x'}, 'nop': {'!h1!': ''}}
VERSION = {'': None, '1.1': (1, 1), '1.2': (1, 2), '2.0': (2, 0)}
LBNAME = {(10,): '\n', (13,): '\r', (13, 10): '\r\n'}


def model_event(yaml, e, rnd=None):
    """event record of Emitter.tla -> real event; rnd = None: the representative the model computes with"""
    E = yaml.events
    pick = (lambda xs: xs[0]) if rnd is None else (lambda xs: rnd.choice(xs))
    k = e['k']
    if k == 'StreamStart':
        return E.StreamStartEvent()
    if k == 'StreamEnd':
        return E.StreamEndEvent()
    if k == 'DocumentStart':
        return E.DocumentStartEvent(explicit=e['x'], version=VERSION[e['ver']], tags=TAGS[e['tg']])
    if k == 'DocumentEnd':
        return E.DocumentEndEvent(explicit=e['x'])
    if k == 'Alias':
        return E.AliasEvent(pick(ANCHOR[e['a']]))
    if k == 'Scalar':
        cp = cps(SCALAR_TEXT[e['v']])
        val = text_of(cp) if rnd is None else concretise(cp, rnd)
        return E.ScalarEvent(pick(ANCHOR[e['a']]), pick(TAG[e['t']]), tuple(e['i']), val, style=STYLE_CHAR[e['s']])
    if k == 'SequenceStart':
        return E.SequenceStartEvent(pick(ANCHOR[e['a']]), pick(TAG[e['t']]), e['i'][0], flow_style=e['fs'])
    if k == 'MappingStart':
        return E.MappingStartEvent(pick(ANCHOR[e['a']]), pick(TAG[e['t']]), e['i'][0], flow_style=e['fs'])
    if k == 'SequenceEnd':
        return E.SequenceEndEvent()
    return E.MappingEndEvent()


def model_opts(o):
    return dict(canonical=bool(o['canonical']), indent=o['best'], width=o['width'], allow_unicode=bool(o['uni']),
                line_break=LBNAME[tuple(o['lb'])])


def attr_ok(hist):
    """the attribute half of well-formedness (mirror of BadAttr in MC_Emitter.tla) - classifies the INPUT only"""
    for e in hist:
        k = e['k']
        if e['a'] in ('bad', 'empty') or (k == 'Alias' and e['a'] == '') or e['t'] == 'empty':
            return False
        if k == 'Scalar' and e['t'] == '' and not e['i'][0] and not e['i'][1]:
            return False
        if k in ('SequenceStart', 'MappingStart') and e['t'] == '' and not e['i'][0]:
            return False
        if k == 'DocumentStart' and (e['ver'] == '2.0' or e['tg'] in ('badh', 'nop')):
            return False
    return True


# ------------------------------------------------------------------ dump iteration with a textual pre-filter
def _raw_run(args):
    import re
    from .. import tlaval
    fn, path, a, b, extra, keep = args
    with open(path) as f:
        f.seek(a)
        buf = f.read(b - a)
    rx = re.compile(keep)
    chunks = [c for c in re.split(r'(?m)^State \d+:\n', buf) if c.strip()]
    names = set()
    for c in chunks:
        mm = re.search(r'trail \|-> \{([^}]*)\}', c)
        if mm:
            names.update(re.findall(r'"([^"]+)"', mm.group(1)))
    return len(chunks), fn((tlaval._state([c]) for c in chunks if rx.search(c)), extra), names


def pmap_raw(fn, path, extra, keep, procs=16, chunks=64):
    """like mbt.pmap, but only states whose dump text matches `keep` are parsed; -> (number of states seen, results, method names found
    in the `trail` field of all states)"""
    import multiprocessing as mp
    from .. import mbt
    parts = mbt.split_dump(path, chunks)
    with mp.Pool(procs) as pool:
        res = pool.map(_raw_run, [(fn, path, a, b, extra, keep) for a, b in parts], chunksize=1)
    return sum(x[0] for x in res), [x[1] for x in res], set().union(*[x[2] for x in res])


def ev_repr(e):
    """all attributes of an event (repr() of the event classes omits tags, version, style, flow_style)"""
    d = {k: v for k, v in vars(e).items() if k not in ('start_mark', 'end_mark') and v is not None}
    return '%s(%s)' % (type(e).__name__[:-5], ', '.join('%s=%r' % kv for kv in sorted(d.items())))


def run_tlc_many(jobs, parallel=4, workers=4, heap='3g'):
    """jobs: list of (name, kwargs for harness.tlc.run); runs them concurrently (the JVM start and the small searches
    dominate); -> {name: TLCResult}"""
    from concurrent.futures import ThreadPoolExecutor
    from .. import tlc

    def one(job):
        name, kw = job
        return name, tlc.run(workers=workers, heap=heap, **kw)
    with ThreadPoolExecutor(max_workers=parallel) as ex:
        return dict(ex.map(one, jobs))
