"""Grammar-directed document printer (C06 corpus c).

Input: the event-kind sequence of a token sequence that Parser.tla accepts (TLC dump) - i.e. a document structure.
Output: a YAML text with that structure, with seeded choices of everything the structure leaves open: block / flow
collections, the five scalar styles with indentation and chomping indicators, comments, anchors / aliases, tags,
directives, explicit document markers, and the break characters (LF / CR / CRLF / NEL / LS / PS, optionally mixed).

The printer does not have to be right: whether a printed text belongs to the domain of C06 is decided by the
specification (LoadPipe.tla) on the text itself, and no expected value is attached to it.  It only has to reach the
syntactic corners.  A small share of the documents is made malformed on purpose in the four ways C06 names (undefined
alias, duplicate anchor, unknown tag; a second document arises from the structure itself).
"""

WORDS = ['a', 'b', 'c1', 'key', 'x y', 'v', '1', '0x1F', '1.5', 'true', 'null', '~', '2001-01-01', 'é', '中', 'a#b', 'a:b', '-x', '?q', ':z',
         'no', 'Yes', '.inf', '1e3', '<<', '=', 'a-b', 'p q r', '!x', '&y', '*z', '%w', '@at', '`bt', 'a,b', 'a]', '{c', "it's", 'q"q']
TAGS = ['!!str', '!!int', '!!seq', '!!map', '!!null', '!!bool', '!!float', '!local', '!', '!!unknown', '!<tag:yaml.org,2002:str>', '!e!x',
        '!!set', '!!omap', '!!binary', '!!timestamp', '!a.b/c', '!x%41']
ESC = ['\\n', '\\t', '\\"', '\\\\', '\\x41', '\\u00e9', '\\U0001F600', '\\N', '\\_', '\\L', '\\P', '\\e', '\\0', '\\/', '\\ ', '\\a', '\\b', '\\v',
       '\\f', '\\r']


def tree(kinds):
    """event kinds -> list of documents, each a node ('Scalar',) | ('Alias',) | ('Seq', [..]) | ('Map', [..flat..]) or None"""
    docs, stack, cur = [], [], None
    for k in kinds:
        if k == 'DocumentStart':
            stack = [['Doc', []]]
        elif k == 'DocumentEnd':
            docs.append(stack[0][1][0] if stack and stack[0][1] else ('Scalar',))
            stack = []
        elif k in ('Scalar', 'Alias'):
            if stack:
                stack[-1][1].append((k,))
        elif k in ('SequenceStart', 'MappingStart'):
            stack.append(['Seq' if k[0] == 'S' else 'Map', []])
        elif k in ('SequenceEnd', 'MappingEnd'):
            n = stack.pop()
            stack[-1][1].append((n[0], n[1]))
    return docs


class Printer:
    def __init__(self, rnd, brk):
        self.r = rnd
        self.brk = brk                      # list of break strings to choose from (1 element = uniform)
        self.anchors = []
        self.earlier = []                   # anchors of earlier documents (an alias to one of them is undefined)
        self.malform = rnd.random() < 0.08
        self.uses_e = False

    def nl(self):
        return self.r.choice(self.brk)

    def comment(self, p=0.12):
        return (' # ' + self.r.choice(['c', 'x: y', '- z', ''])) if self.r.random() < p else ''

    def word(self, flow):
        w = self.r.choice(WORDS)
        if flow:
            for ch in ',[]{}':
                w = w.replace(ch, '')
        return w or 'w'

    def props(self, collection=False):
        s = ''
        r = self.r
        if r.random() < 0.18:
            if self.malform and self.anchors and r.random() < 0.5:
                name = r.choice(self.anchors)                      # duplicate anchor
            else:
                name = r.choice(['a', 'b', 'a1', 'A-b_c', 'x'])
            self.anchors.append(name)
            s += '&' + name + ' '
        if r.random() < 0.18:
            t = r.choice(TAGS)
            if collection and t in ('!!str', '!!int', '!!null', '!!bool', '!!float', '!!binary', '!!timestamp') and not self.malform:
                t = r.choice(['!!seq', '!!map', '!', '!local'])
            if t == '!e!x':
                self.uses_e = True
            s = (s + t + ' ') if r.random() < 0.7 else (t + ' ' + s)
        return s

    def plain(self, flow, ind, simple):
        r = self.r
        ws = [self.word(flow) for _ in range(r.choice([1, 1, 1, 2, 3]))]
        w0 = ws[0]
        if w0[0] in '-?:,[]{}#&*!|>\'"%@`' and not (w0[0] in '-?:' and len(w0) > 1 and not flow):
            ws[0] = 'k' + w0
        ws = [w.replace(': ', ':').replace(' #', '#') for w in ws]
        if simple or len(ws) == 1 or r.random() < 0.6:
            return ' '.join(ws)
        out = ws[0]
        for w in ws[1:]:
            if r.random() < 0.5:
                out += self.nl() + ('' if r.random() < 0.7 else self.nl()) + ' ' * (ind + r.choice([0, 1, 3])) + w
            else:
                out += ' ' + w
        return out

    def single(self, flow, ind, simple):
        r = self.r
        parts = []
        for _ in range(r.choice([0, 1, 2, 3])):
            parts.append(r.choice([self.word(False).replace("'", "''"), "''", ' ', '# x', ': ', '- ', '"', '\\', '  ']))
            if not simple and r.random() < 0.2:
                parts.append(self.nl() + (self.nl() if r.random() < 0.3 else '') + ' ' * (ind + r.choice([0, 2])))
        return "'" + ''.join(parts) + "'"

    def double(self, flow, ind, simple):
        r = self.r
        parts = []
        for _ in range(r.choice([0, 1, 2, 3, 4])):
            parts.append(r.choice([self.word(False).replace('"', '\\"'), r.choice(ESC), ' ', "'", '# x', ': ', '  ', 'é']))
            if not simple and r.random() < 0.2:
                parts.append(r.choice(['\\', '', ' ']) + self.nl() + (self.nl() if r.random() < 0.3 else '') + ' ' * (ind + r.choice([0, 2])) +
                             r.choice(['', '\\ ', '\\t']))
        return '"' + ''.join(parts) + '"'

    def block_scalar(self, ind):
        """literal / folded; ind = indentation of the parent (content must be indented more)"""
        r = self.r
        style = r.choice('|>')
        base = max(ind, 0) + r.choice([1, 1, 2, 4])
        chomp = r.choice(['', '', '-', '+'])
        lead = r.random() < 0.25                          # first content line starts with extra spaces: indicator needed
        indic = ''
        if lead or r.random() < 0.2:
            k = base - max(ind, 0)
            if 1 <= k <= 9:
                indic = str(k)
        head = style + (indic + chomp if r.random() < 0.5 else chomp + indic) + self.comment(0.15)
        lines = []
        n = r.choice([0, 1, 2, 3, 4])
        for j in range(n):
            kind = r.random()
            extra = ' ' * r.choice([0, 0, 0, 1, 3]) if (j > 0 or lead) else ''
            if kind < 0.15:
                lines.append('')                                            # empty line
            elif kind < 0.25:
                lines.append(' ' * r.choice([0, 1, base, base + 2]))        # whitespace-only line
            else:
                lines.append(' ' * base + extra + r.choice([self.word(False), '# not a comment', '- x', 'a: b', self.word(False) + '  ',
                                                              self.word(False) + ' ' + self.word(False)]))
        for _ in range(r.choice([0, 0, 1, 2])):
            lines.append('')
        return head + ''.join(self.nl() + ln for ln in lines)

    def scalar(self, flow, ind, simple=False, block_ok=True):
        r = self.r
        p = self.props()
        styles = ['plain', 'plain', 'single', 'double']
        if not flow and not simple and block_ok:
            styles += ['block', 'block']
        if r.random() < 0.08:
            return p.rstrip() if p else ('' if r.random() < 0.6 else '~')   # empty node (only properties, or nothing at all)
        s = r.choice(styles)
        if s == 'plain':
            return p + self.plain(flow, ind, simple)
        if s == 'single':
            return p + self.single(flow, ind, simple)
        if s == 'double':
            return p + self.double(flow, ind, simple)
        return p + self.block_scalar(ind)

    def alias(self):
        if self.anchors and not (self.malform and self.r.random() < 0.5):
            return '*' + self.r.choice(self.anchors)
        if self.malform:
            return '*' + (self.r.choice(self.earlier) if self.earlier and self.r.random() < 0.6 else 'undefined')
        self.anchors.append('n')
        return '&n ' + self.r.choice(['1', 'x', "'q'"])                     # no anchor to refer to yet: define one instead

    def flow(self, node, ind):
        r = self.r
        if node[0] == 'Scalar':
            return self.scalar(True, ind, simple=r.random() < 0.7)
        if node[0] == 'Alias':
            return self.alias()
        sp = lambda: r.choice(['', ' ', ' ', self.nl() + ' ' * (ind + 1)])   # noqa
        p = self.props(True)
        if node[0] == 'Seq':
            items = [self.flow(c, ind + 1) for c in node[1]]
            return p + '[' + sp() + (',' + sp()).join(items) + (',' if items and r.random() < 0.1 else '') + sp() + ']'
        kids = node[1]
        pairs = []
        for i in range(0, len(kids) - 1, 2):
            k, v = self.flow(kids[i], ind + 1), self.flow(kids[i + 1], ind + 1)
            form = r.random()
            if form < 0.15:
                pairs.append('? ' + k + ' : ' + v)
            elif form < 0.25 and kids[i + 1][0] == 'Scalar':
                pairs.append(k)                                             # value omitted
            else:
                pairs.append(k + r.choice([': ', ': ', ' : ']) + v)
        return p + '{' + sp() + (',' + sp()).join(pairs) + sp() + '}'

    def block(self, node, ind, after):
        """text of a node in block context; `after` = what precedes it on the line ('-', ':', '?', 'doc' or 'line');
        the text starts right after that indicator (a leading space is added here when something follows on the line)"""
        r = self.r
        if node[0] == 'Alias':
            return ' ' + self.alias() + self.comment()
        if node[0] == 'Scalar':
            return ' ' + self.scalar(False, ind, simple=False) + self.comment(0.05)
        if r.random() < 0.3 or ind > 8:
            return ' ' + self.flow(node, ind + 1) + self.comment()
        p = self.props(True)
        n2 = ind + r.choice([1, 2, 2, 4]) if after != 'doc' else max(ind, 0) + r.choice([0, 0, 2])
        if node[0] == 'Seq' and after in (':', '?') and ind >= 0 and r.random() < 0.4:
            n2 = ind                                    # indentless: the sequence sits at the indentation of its key
        head = (' ' + p.rstrip() if p else '') + self.comment()
        out = head
        if node[0] == 'Seq':
            if not node[1]:
                return ' ' + p + '[]'
            compact = after == '-' and not p and r.random() < 0.3
            for j, c in enumerate(node[1]):
                if compact and j == 0:
                    out = ' -' + self.block(c, ind + 2, '-')
                    n2 = ind + 2
                    continue
                if r.random() < 0.08:
                    out += self.nl() + ' ' * r.choice([0, n2]) + '# comment'
                out += self.nl() + ' ' * n2 + '-' + self.block(c, n2, '-')
            return out
        kids = node[1]
        if len(kids) < 2:
            return ' ' + p + '{}'
        for i in range(0, len(kids) - 1, 2):
            k, vnode = kids[i], kids[i + 1]
            if r.random() < 0.05:
                out += self.nl()
            if k[0] in ('Scalar', 'Alias') and r.random() < 0.8:
                kt = self.alias() + ' ' if k[0] == 'Alias' else self.scalar(False, n2, simple=True)
                out += self.nl() + ' ' * n2 + kt + ':' + self.block(vnode, n2, ':')
            else:
                out += self.nl() + ' ' * n2 + '?' + self.block(k, n2, '?')
                if r.random() < 0.9:
                    out += self.nl() + ' ' * n2 + ':' + self.block(vnode, n2, ':')
        return out

    def document(self, node, first, more):
        r = self.r
        self.earlier += self.anchors
        self.anchors = []
        self.uses_e = False
        body = self.block(node, -1, 'doc') if node is not None else ''
        head = ''
        explicit = (not first) or r.random() < 0.4 or self.uses_e
        if r.random() < 0.15:
            head += '%YAML 1.1' + self.comment() + self.nl()
            explicit = True
        if self.uses_e or r.random() < 0.05:
            head += '%TAG !e! tag:example.com,2000:' + self.nl()
            explicit = True
        elif r.random() < 0.1:
            head += r.choice(['%TAG ! tag:example.com,2000:', '%TAG !! tag:example.com,2000:', '%TAG ! !my-']) + self.comment(0.05) + self.nl()
            explicit = True
        if explicit:
            text = head + '---' + body
        else:
            text = body[1:] if body.startswith(' ') else body.lstrip('\r\n\x85\u2028\u2029 ')
        text += self.nl()
        if r.random() < 0.2:
            text += '...' + self.comment() + self.nl()
        return text


def random_structure(rnd, docs=None):
    """event kinds of a seeded random stream: 1-3 documents, nesting depth <= 3, up to 3 entries per collection"""
    out = ['StreamStart']

    def node(depth):
        x = rnd.random()
        if depth >= 3 or x < 0.45:
            out.append('Scalar' if rnd.random() < 0.9 else 'Alias')
        elif x < 0.72:
            out.append('SequenceStart')
            for _ in range(rnd.randrange(0, 4)):
                node(depth + 1)
            out.append('SequenceEnd')
        else:
            out.append('MappingStart')
            for _ in range(rnd.randrange(0, 4)):
                node(depth + 1 if rnd.random() < 0.15 else 3)       # keys are mostly scalars
                node(depth + 1)
            out.append('MappingEnd')
    for _ in range(docs or rnd.choice([1, 1, 2, 3])):
        out.append('DocumentStart')
        node(0)
        out.append('DocumentEnd')
    out.append('StreamEnd')
    return out


BREAKS = ['\n', '\r', '\r\n', '\x85', '\u2028', '\u2029']


def render(kinds, rnd):
    mode = rnd.random()
    if mode < 0.45:
        brk = ['\n']
    elif mode < 0.85:
        brk = [rnd.choice(BREAKS)]
    else:
        brk = [rnd.choice(BREAKS), rnd.choice(BREAKS), '\n']
    p = Printer(rnd, brk)
    docs = tree(kinds)
    out = ''
    if rnd.random() < 0.04:
        out += '\ufeff'                                  # a byte order mark in front of the stream
    if rnd.random() < 0.05:
        out += '# leading comment' + p.nl()
    for i, d in enumerate(docs):
        out += p.document(d, i == 0 and not out.endswith('...' + brk[0]), i + 1 < len(docs))
    return out
