"""Projections of what the two back-ends deliver for one text (C06).  Total, small, no verdicts in here."""
import datetime, re
from . import streamplace as sp

PAIRS = [('Base', 'BaseLoader', 'CBaseLoader'), ('Safe', 'SafeLoader', 'CSafeLoader'), ('Full', 'FullLoader', 'CFullLoader'),
         ('Unsafe', 'UnsafeLoader', 'CUnsafeLoader'), ('Default', 'Loader', 'CLoader')]


def esc(s):
    """injective, pure ASCII"""
    if s is None:
        return '~'
    if isinstance(s, bytes):
        return 'b' + s.hex()
    return '=' + s.encode('unicode_escape').decode('ascii')


def event_proj(ev):
    k = type(ev).__name__[:-5]
    imp = getattr(ev, 'implicit', None)
    if isinstance(imp, (tuple, list)):
        imp = ','.join('T' if x else 'F' for x in imp)
    elif imp is not None:
        imp = 'T' if imp else 'F'
    ver = getattr(ev, 'version', None)
    tags = getattr(ev, 'tags', None)
    expl = getattr(ev, 'explicit', None)
    return {'k': k, 'anchor': esc(getattr(ev, 'anchor', None)), 'tag': esc(getattr(ev, 'tag', None)), 'impl': imp or '~',
            'val': esc(getattr(ev, 'value', None)), 'expl': '~' if expl is None else ('T' if expl else 'F'),
            'ver': '~' if ver is None else '%s.%s' % tuple(ver),
            'tags': '~' if not tags else ';'.join('%s>%s' % (esc(h), esc(p)) for h, p in sorted(tags.items()))}


def node_proj(yaml, roots):
    """node graphs of a stream -> [root ids], heap in first-visit order"""
    heap, ids, out = [], {}, []

    def visit(n):
        if id(n) in ids:
            return ids[id(n)]
        i = len(heap)
        ids[id(n)] = i
        rec = {'kind': type(n).__name__[:-4], 'tag': esc(n.tag), 'val': '~', 'kids': []}
        heap.append(rec)
        if isinstance(n, yaml.ScalarNode):
            rec['val'] = esc(n.value)
        elif isinstance(n, yaml.SequenceNode):
            rec['kids'] = [visit(c) for c in n.value]
        else:
            rec['kids'] = [x for k, v in n.value for x in (visit(k), visit(v))]
        return i
    keep = []
    for r in roots:
        keep.append(r)
        out.append(-1 if r is None else visit(r))
    return {'roots': out, 'heap': heap}


_ADDR = re.compile(r' at 0x[0-9a-fA-F]+')
_QUOTED = re.compile(r"'[^']*[A-Za-z0-9\\\\][^']*'|\"[^\"]*\"|\d+")


def obj_proj(docs):
    """object graphs -> [root ids], heap in first-visit order; identity is tracked for containers and other mutable objects"""
    heap, ids, out, keep = [], {}, [], []

    def visit(o, depth=0):
        t = type(o)
        shared = not isinstance(o, (str, bytes, int, float, bool, type(None), complex))
        if shared and id(o) in ids:
            return ids[id(o)]
        i = len(heap)
        rec = {'type': t.__module__ + '.' + t.__qualname__, 'val': '~', 'kids': []}
        heap.append(rec)
        if shared:
            ids[id(o)] = i
            keep.append(o)
        if depth > 60:
            rec['val'] = 'deep'
        elif o is None or isinstance(o, bool):
            rec['val'] = repr(o)
        elif isinstance(o, int):
            rec['val'] = str(o) if abs(o) < 10 ** 4000 else 'int:%d bits' % o.bit_length()
        elif isinstance(o, float):
            rec['val'] = 'nan' if o != o else o.hex()
        elif isinstance(o, complex):
            rec['val'] = repr(o)
        elif isinstance(o, (str, bytes)):
            rec['val'] = esc(o)
        elif isinstance(o, (list, tuple)):
            rec['kids'] = [visit(x, depth + 1) for x in o]
        elif isinstance(o, dict):
            rec['kids'] = [x for k, v in o.items() for x in (visit(k, depth + 1), visit(v, depth + 1))]
        elif isinstance(o, (set, frozenset)):
            # a set has no order: children are listed by their own projection
            items = sorted((repr(obj_proj([x])), n) for n, x in enumerate(o))
            rec['val'] = '|'.join(s for s, _ in items)
        elif isinstance(o, datetime.datetime):
            rec['val'] = o.isoformat() + '|' + str(o.utcoffset())
        elif isinstance(o, datetime.date):
            rec['val'] = o.isoformat()
        else:
            try:
                rec['val'] = _ADDR.sub('', repr(o))[:200]
            except Exception as e:      # noqa
                rec['val'] = 'repr failed: ' + type(e).__name__
        return i
    for d in docs:
        out.append(visit(d))
    return {'roots': out, 'heap': heap}


def run_case(yaml, fn):
    try:
        return {'o': 'ok', 'cls': '-', 'v': fn()}
    except yaml.YAMLError as e:
        return {'o': 'err', 'cls': type(e).__name__, 'v': 0, 'msg': _QUOTED.sub('<x>', '%s: %s' % (getattr(e, 'context', None) or '-', getattr(e, 'problem', None) or getattr(e, 'reason', '')))[:110]}
    except RecursionError:
        return {'o': 'err', 'cls': 'RecursionError', 'v': 0}
    except Exception as e:                  # noqa  (C03's business; here only the class is compared)
        return {'o': 'err', 'cls': 'non-YAML ' + type(e).__name__, 'v': 0}


# projections observed under every other delivery than the str one: what the reader / scanner feed into (events) and the
# whole pipeline behind them once (objects through the C composer / the Python composer)
DELIVERY_CASES = (('events', 'BaseLoader', 'CBaseLoader', 'Base'), ('objects', 'SafeLoader', 'CSafeLoader', 'Safe'))


def delivery_cases(yaml, text, dels):
    """projections x one loader pair for the text delivered in other forms (StreamPlace.tla: form x read limit)
    -> ([{name, del, py, c}], [names of deliveries whose form cannot carry the text])"""
    out, na = [], []
    for form, step in dels:
        name = sp.delname(form, step)
        mk = sp.source(text, form, step)
        if mk is None:
            na.append(name)
            continue
        for what, pl, cl, pair in DELIVERY_CASES:
            PL, CL = getattr(yaml, pl), getattr(yaml, cl)
            if what == 'events':
                fn = lambda L: [event_proj(e) for e in yaml.parse(mk(), Loader=L)]
            else:
                fn = lambda L: obj_proj(list(yaml.load_all(mk(), Loader=L)))
            out.append({'name': '%s/%s@%s' % (what, pair, name), 'del': name,
                        'py': run_case(yaml, lambda: fn(PL)), 'c': run_case(yaml, lambda: fn(CL))})
    return out, na


def read_log(yaml, text, form, step, loader):
    """the read() calls a loader makes on the stream of a delivery -> [(asked, granted, position after the call)]"""
    mk = sp.source(text, form, step)
    stream = mk()
    run_case(yaml, lambda: sum(1 for _ in yaml.parse(stream, Loader=getattr(yaml, loader))))
    return list(stream.log)


def cases(yaml, text, pairs=PAIRS, allow_unsafe=True, dels=()):
    """all projections x loader pairs for one text (delivered as str), then the cases of the other deliveries
    -> [{name, del, py, c}]"""
    out = []
    data_c = text
    for name, pl, cl in pairs:
        if name in ('Unsafe', 'Default') and not allow_unsafe:
            continue
        PL, CL = getattr(yaml, pl), getattr(yaml, cl)
        if name in ('Base', 'Default'):
            out.append({'name': 'events/' + name,
                        'py': run_case(yaml, lambda: [event_proj(e) for e in yaml.parse(text, Loader=PL)]),
                        'c': run_case(yaml, lambda: [event_proj(e) for e in yaml.parse(data_c, Loader=CL)])})
        if name in ('Base', 'Safe'):
            out.append({'name': 'nodes/' + name,
                        'py': run_case(yaml, lambda: node_proj(yaml, list(yaml.compose_all(text, Loader=PL)))),
                        'c': run_case(yaml, lambda: node_proj(yaml, list(yaml.compose_all(data_c, Loader=CL))))})
            out.append({'name': 'node1/' + name,
                        'py': run_case(yaml, lambda: node_proj(yaml, [yaml.compose(text, Loader=PL)])),
                        'c': run_case(yaml, lambda: node_proj(yaml, [yaml.compose(data_c, Loader=CL)]))})
        out.append({'name': 'objects/' + name,
                    'py': run_case(yaml, lambda: obj_proj(list(yaml.load_all(text, Loader=PL)))),
                    'c': run_case(yaml, lambda: obj_proj(list(yaml.load_all(data_c, Loader=CL))))})
        out.append({'name': 'object1/' + name,
                    'py': run_case(yaml, lambda: obj_proj([yaml.load(text, Loader=PL)])),
                    'c': run_case(yaml, lambda: obj_proj([yaml.load(data_c, Loader=CL)]))})
    for c in out:
        c['del'] = 'str'
    if dels:
        out += delivery_cases(yaml, text, dels)[0]
    return out


def diff_summary(a, b, path=''):
    """where two projections differ (diagnostics and known-finding keys only; the verdict is TLC's)"""
    if type(a) != type(b):
        return path + ':type'
    if isinstance(a, dict):
        for k in a:
            if a[k] != b.get(k):
                return diff_summary(a[k], b.get(k), path + '.' + k)
        return path + ':keys'
    if isinstance(a, list):
        if len(a) != len(b):
            return path + ':length'
        for i, (x, y) in enumerate(zip(a, b)):
            if x != y:
                at = ''
                if isinstance(x, dict) and isinstance(y, dict):       # which kind of event / node / object it is
                    for f in ('k', 'kind', 'type'):
                        if f in x and x[f] == y.get(f):
                            at = '@' + str(x[f]) + ('/' + str(x['tag']) if x.get('tag') == y.get('tag') and 'tag' in x else '')
                return diff_summary(x, y, path + '[]' + at)
        return path
    # a leaf: the two values, when they are short (they identify the class of the difference)
    sa, sb = str(a), str(b)
    return path + ((':' + sa + '|' + sb) if len(sa) <= 40 and len(sb) <= 40 and not path.endswith(('.val', '.v')) else '')
