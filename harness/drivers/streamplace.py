"""Concretisation of spec/StreamPlace.tla (C06): deliveries and placements -> real inputs.  No verdicts in here.

* source(text, form, step): the input object of a delivery (str / bytes / a stream whose read(n) grants at most `step` units),
  or None when the form cannot carry the text (a text that cannot be encoded; a byte order mark in front of a text that
  begins with U+FEFF itself would be a mid-stream BOM, which the portable subset excludes).
* pad(ctx, n): the padding of a context, exactly n ASCII characters.
* realise(state, rnd_key): a placement state of the TLC dump -> the document and its delivery, or a reason why not.
"""
import codecs, random, zlib
from . import scanmodel as sm

FULL = 65536
MEM = ('str', 'b8', 'b8bom', 'b16le', 'b16be')
ENC = {'str': None, 'text': None, 'b8': 'utf-8', 'b8bom': 'utf-8', 's8': 'utf-8', 'b16le': 'utf-16-le', 's16le': 'utf-16-le',
       'b16be': 'utf-16-be'}
BOM = {'b8bom': codecs.BOM_UTF8, 'b16le': codecs.BOM_UTF16_LE, 's16le': codecs.BOM_UTF16_LE, 'b16be': codecs.BOM_UTF16_BE}
# characters of a macro-symbol, as StreamPlace.tla's Wd says (checked against the concretisation table by c06.py)
WD = {'P1': 3, 'P2a': 3, 'P2b': 3, 'X2': 3, 'TAG': 3, 'U4': 5, 'U8': 9, 'YAML': 4}


class LimitedStream:
    """read(n) grants at most `step` units (and at most n); '' / b'' only at the end.  Logs (asked, granted, position)."""

    def __init__(self, data, step, name='<limited>'):
        self.data, self.pos, self.step, self.log, self.name = data, 0, step, [], name

    def read(self, size=-1):
        if size is None or size < 0:
            n = len(self.data) - self.pos              # read() without a size means "everything" for every kind of stream
        else:
            n = min(size, self.step)
        piece = self.data[self.pos:self.pos + n]
        self.pos += len(piece)
        self.log.append((size, len(piece), self.pos))
        return piece


def delname(form, step):
    return form if form in MEM else '%s:%s' % (form, 'full' if step >= FULL else step)


def encode(text, form):
    """the units of the document in a form -> str / bytes, or None (not applicable)"""
    enc = ENC[form]
    if enc is None:
        return text
    try:
        data = text.encode(enc)
    except UnicodeEncodeError:
        return None
    if form in BOM:
        if text.startswith('\ufeff'):
            # the text's own first character already is the byte order mark of the encoded form: for UTF-16 that is the
            # form itself; for b8bom it would only repeat b8
            return None if form == 'b8bom' else data
        return BOM[form] + data
    return data


def source(text, form, step):
    """-> factory of a fresh input object, or None"""
    data = encode(text, form)
    if data is None:
        return None
    if form in MEM:
        return lambda: data
    return lambda: LimitedStream(data, step)


# ------------------------------------------------------------------ paddings
def _lines(n, first, mk, minlen):
    """first + lines; every line has at least minlen characters; exactly n characters in total"""
    rest = n - len(first)
    if rest < 0 or (0 < rest < minlen):
        return None
    sizes = [64] * (rest // 64)
    r = rest % 64
    if r >= minlen or (r and not sizes):
        sizes.append(r)
    elif r:
        sizes[-1] += r
    return first + ''.join(mk(i, k) for i, k in enumerate(sizes))


def _words(n):
    s = ('abcdefg ' * (n // 8 + 1))[:n]
    return s[:-1] + 'x' if s.endswith(' ') else s


def pad(ctx, n):
    """-> exactly n ASCII characters that put the scanner into the context, or None (n too small)"""
    if n < 0:
        return None
    if ctx == 'top':
        if n == 0:
            return ''
        out, rest = [], n
        while rest > 0:
            k = min(64, rest)
            out.append('\n' if k == 1 else '#' + 'c' * (k - 2) + '\n')
            rest -= k
        return ''.join(out)
    if ctx == 'entries':
        return _lines(n, '', lambda i, k: ('k%04d: ' % i) + 'v' * (k - 8) + '\n', 9)
    if ctx == 'doc':
        p = pad('entries', n - 4)
        return None if n < 13 or p is None else p + '...\n'
    if ctx == 'indent':
        return None if n < 4 else 'k:\n' + ' ' * (n - 3)
    if ctx == 'comment':
        return None if n < 1 else '#' + 'c' * (n - 1)
    if ctx == 'plain':
        return None if n < 4 else 'k: ' + _words(n - 3)
    if ctx == 'dquote':
        return None if n < 5 else 'k: "' + _words(n - 4)
    if ctx == 'squote':
        return None if n < 5 else "k: '" + _words(n - 4)
    if ctx in ('literal', 'folded'):
        head = 'k: |\n' if ctx == 'literal' else 'k: >\n'
        return None if n < len(head) + 3 else _lines(n, head, lambda i, k: ' ' + 't' * (k - 2) + '\n', 3)
    if ctx == 'spaces':
        return None if n < 3 else 'k:' + ' ' * (n - 2)
    if ctx == 'blank':
        return None if n < 5 else 'k: v\n' + '\n' * (n - 5)
    if ctx == 'tag':
        return None if n < 2 else '!' + 'a' * (n - 1)
    if ctx == 'verbatim':
        return None if n < 3 else '!<' + 'a' * (n - 2)
    if ctx == 'anchor':
        return None if n < 2 else '&' + 'a' * (n - 1)
    if ctx == 'flow':
        return None if n < 2 else '[' + ('ab, ' * (n // 4 + 1))[:n - 1]
    raise KeyError(ctx)


SHORT = 24          # padding of the short version that LoadPipe.tla classifies


def construct_text(ctx, con, variant, seed):
    """the characters of a construct for one seeded choice of representatives -> list of characters"""
    rnd = random.Random(zlib.crc32(('%d|%s|%s|%d' % (seed, ctx, ' '.join(con), variant)).encode()))
    text, _parts = sm.concretise(con, rnd)
    return text


def units(ch, form):
    enc = ENC[form]
    return 1 if enc is None else len(ch.encode(enc))


def realise(st, variant, seed):
    """placement state -> dict(text, short, form, step, ...) | dict(skip=reason)"""
    ctx, con, form, step, pos, off, mid = st['ctx'], st['con'], st['form'], st['step'], st['pos'], st['off'], st['mid']
    body = construct_text(ctx, con, variant, seed)
    if off > len(body) or (mid and off >= len(body)):
        return {'skip': 'offset beyond the construct'}
    try:
        if mid >= (units(body[off], form) if off < len(body) else 1):
            return {'skip': 'the chosen character has fewer units'}
        before = sum(units(c, form) for c in body[:off]) + mid
    except UnicodeEncodeError:
        return {'skip': 'not encodable'}
    lead = len(BOM.get(form, b''))
    need = pos - lead - before
    per = 2 if ENC[form] and ENC[form].startswith('utf-16') else 1
    if need < 0 or need % per:
        return {'skip': 'no padding of that many units'}
    p = pad(ctx, need // per)
    if p is None:
        return {'skip': 'padding too short for the context'}
    return {'text': p + body, 'short': pad(ctx, SHORT) + body, 'form': form, 'step': step, 'pos': pos, 'ctx': ctx,
            'con': tuple(con), 'ascii': body.isascii(), 'key': '%s|%s|%d' % (ctx, ' '.join(con), variant)}
