"""Concretisation and observation for spec/Api.tla (C11, C19): the pool of documents / values, the loader / dumper
classes the abstract class names stand for, instrumented streams and callbacks with fault injection by invocation
index, projections of results to digests, and the deep structural digest of every module- and class-level attribute
of the yaml package.  Nothing here judges: verdict formulas live in spec/Trace_Calls.tla and spec/Trace_Faults.tla."""
import hashlib, io, re, sys, types
from ..common import use_repo

yaml = use_repo()
from yaml import nodes as N, events as E, tokens as T   # noqa: E402

EPREFIX = 'tag:e.example,2000:'

# ------------------------------------------------------------------ fault controller
class Inj(Exception):
    pass


class InjYaml(yaml.YAMLError):
    pass


class InjMarked(yaml.MarkedYAMLError):
    pass


class InjValue(ValueError):
    pass


class InjType(TypeError):
    pass


class InjAttr(AttributeError):
    pass


class InjOS(OSError):
    pass


class InjLookup(KeyError):
    pass


class InjBase(BaseException):
    pass


class InjCtor(yaml.constructor.ConstructorError):      # the library's own error families, raised by USER code
    pass


class InjRepr(yaml.representer.RepresenterError):
    pass


class InjMarkedM(yaml.MarkedYAMLError):                # ... carrying marks of its own
    pass


INJ_CLASSES = [Inj, InjYaml, InjOS, InjValue, InjType, InjAttr, InjLookup, InjMarked, InjBase, InjCtor, InjRepr, InjMarkedM]
CALLBACK_CLASSES = [0, 1, 6, 7, 9, 10, 11]  # (6 = a KeyError subclass: what EAFP-style dispatch code would swallow) what a user constructor / representer is run with, each of them per invocation


def make_injected(icls, i, k=0):
    """The exception instance for invocation index i (k > 0: a LATER failure of a stream that stays broken)."""
    cls = INJ_CLASSES[icls]
    text = 'injected at %d' % i if k == 0 else 'later failure %d after %d' % (k, i)
    if cls is InjMarked:
        return cls('user context', None, text, None)            # context and problem, no marks
    if cls is InjCtor:
        return cls(None, None, text, None)                      # problem only, no marks
    if cls is InjMarkedM:
        m = yaml.Mark('user-mark', 3, 1, 2, None, None)
        return cls('user context', m, text, m)
    if cls is InjOS:
        return cls(5, text)
    return cls(text, i, k)


def exc_content(e):
    """Everything a caller can read off an exception object: type, args, attributes (marks included), str()."""
    d = getattr(e, '__dict__', {})
    return md5('%s.%s|%r|%s|%s' % (type(e).__module__, type(e).__qualname__, e.args,
                                   ','.join('%s=%s' % (k, canon(d[k])) for k in sorted(d)), e))


class Ctl:
    """Counts the invocations of caller-supplied code (read / write / flush / constructor / representer callbacks) and
    raises the prepared exception object at invocation number fail_at (0-based; None = never)."""

    def __init__(self):
        self.reset()

    def reset(self, fail_at=None, exc=None, later=None):
        """later: None = one-shot fault; a function k -> exception instance = the stream / callback STAYS broken: every
        invocation after fail_at fails too, each with a distinct instance"""
        self.n = 0
        self.log = []
        self.fail_at = fail_at
        self.exc = exc
        self.later = later
        self.fired = False
        self.content = None
        self.later_raised = 0

    def tick(self, kind):
        i = self.n
        self.n += 1
        self.log.append(kind)
        if self.fail_at is not None and i == self.fail_at:
            self.fired = True
            self.content = exc_content(self.exc)        # what the exception looks like when it is raised
            raise self.exc
        if self.fail_at is not None and self.later is not None and i > self.fail_at:
            self.later_raised += 1
            raise self.later(self.later_raised)


CTL = Ctl()


class InStream:
    """A caller's input stream: read(n) returns at most `chunk` characters / bytes."""

    def __init__(self, data, chunk=7):
        self.data, self.pos, self.chunk = data, 0, chunk

    def read(self, n=-1):
        CTL.tick('r')
        k = self.chunk if n is None or n < 0 else min(n, self.chunk)
        d = self.data[self.pos:self.pos + k]
        self.pos += len(d)
        return d


class OutStream:
    """A caller's output stream: logs every chunk it receives."""

    def __init__(self, binary=False):
        self.chunks = []
        self.binary = binary
        if not binary:
            pass

    def write(self, d):
        CTL.tick('w')
        self.chunks.append(d)

    def flush(self):
        CTL.tick('f')

    def text(self):
        if self.chunks and isinstance(self.chunks[0], bytes):
            return b''.join(self.chunks).decode('latin-1')
        return ''.join(self.chunks)


class OutStreamNoFlush:
    def __init__(self):
        self.chunks = []

    def write(self, d):
        CTL.tick('w')
        self.chunks.append(d)

    text = OutStream.text


# ------------------------------------------------------------------ user classes (callbacks)
class VE:           # object whose representation carries a tag with the prefix of handle !e!
    pass


class RU:           # object of a user representer
    pass


class RMBase:       # multi-representer registered for this base class
    pass


class RMSub(RMBase):
    pass


class Unrepresentable:
    __slots__ = ()

    def __reduce_ex__(self, protocol):
        raise TypeError('cannot pickle %r object' % type(self).__name__)


def _c_scalar(loader, node):
    CTL.tick('c')
    return ('U', loader.construct_scalar(node))


def _c_seq(loader, node):
    CTL.tick('c')
    return ('UQ', tuple(loader.construct_sequence(node)))


def _c_map(loader, node):
    CTL.tick('c')
    return ('UM', tuple(loader.construct_mapping(node, deep=True).items()))


def _c_gen(loader, node):
    CTL.tick('c')          # phase 1
    data = ['UG']
    yield data
    CTL.tick('c')          # phase 2
    data.extend(loader.construct_sequence(node))


def _c_multi(loader, suffix, node):
    CTL.tick('c')
    return ('UX', suffix, loader.construct_scalar(node))


def _r_ve(dumper, data):
    return dumper.represent_scalar(EPREFIX + 't', 'vev')


def _r_ru(dumper, data):
    CTL.tick('p')
    return dumper.represent_scalar('!ru', 'ruv')


def _r_rseq(dumper, data):
    CTL.tick('p')
    return dumper.represent_sequence('!rq', ['q1', ['q2']])


def _r_multi(dumper, data):
    CTL.tick('p')
    return dumper.represent_mapping('!rm', {'k': 'rmv'})


def _c_path(loader, node):
    return ('PT', loader.construct_scalar(node))


def _c_implicit(loader, node):
    return ('IR', loader.construct_scalar(node))


def _c_mapnd(loader, node):
    CTL.tick('c')          # a user constructor on a mapping that does NOT ask for deep construction
    return ('UN', tuple(loader.construct_mapping(node).items()))


def _c_pathc(loader, node):
    CTL.tick('c')          # the tag comes from a user PATH resolver; the constructor is a counted user callback
    return ('PC', loader.construct_scalar(node))


def _c_implicitc(loader, node):
    CTL.tick('c')          # the tag comes from a user IMPLICIT resolver
    return ('IC', loader.construct_scalar(node))


IMPLICIT_RE = re.compile(r'^ir[0-9]+$')
IMPLICITC_RE = re.compile(r'^ic[0-9]+$')


def _customise_resolver(c):
    """Every user subclass also customises the resolver: a path resolver (the value under key pk of a mapping that is
    the first child of the root) and an implicit resolver."""
    c.add_path_resolver('!pt', [0, 'pk'], str)
    c.add_implicit_resolver('!ir', IMPLICIT_RE, ['i'])
    c.add_path_resolver('!ptc', [0, 'ck'], str)
    c.add_implicit_resolver('!irc', IMPLICITC_RE, ['i'])


def _mk_loader(base):
    c = type('User' + base.__name__, (base,), {})
    _customise_resolver(c)
    c.add_constructor('!pt', _c_path)
    c.add_constructor('!ir', _c_implicit)
    c.add_constructor('!u', _c_scalar)
    c.add_constructor('!uq', _c_seq)
    c.add_constructor('!umap', _c_map)
    c.add_constructor('!ug', _c_gen)
    c.add_multi_constructor('!um:', _c_multi)
    c.add_constructor('!umn', _c_mapnd)
    c.add_constructor('!ptc', _c_pathc)
    c.add_constructor('!irc', _c_implicitc)
    return c


def _mk_dumper(base):
    c = type('User' + base.__name__, (base,), {})
    _customise_resolver(c)
    c.add_representer(VE, _r_ve)
    c.add_representer(RU, _r_ru)
    c.add_multi_representer(RMBase, _r_multi)
    return c


class RQ:
    pass


LOADERS = {('base', 'py'): yaml.BaseLoader, ('safe', 'py'): yaml.SafeLoader, ('full', 'py'): yaml.FullLoader,
           ('unsafe', 'py'): yaml.UnsafeLoader, ('legacy', 'py'): yaml.Loader,
           ('base', 'c'): yaml.CBaseLoader, ('safe', 'c'): yaml.CSafeLoader, ('full', 'c'): yaml.CFullLoader,
           ('unsafe', 'c'): yaml.CUnsafeLoader, ('legacy', 'c'): yaml.CLoader}
DUMPERS = {('base', 'py'): yaml.BaseDumper, ('safe', 'py'): yaml.SafeDumper, ('unsafe', 'py'): yaml.Dumper,
           ('base', 'c'): yaml.CBaseDumper, ('safe', 'c'): yaml.CSafeDumper, ('unsafe', 'c'): yaml.CDumper}
LOADERS[('user', 'py')] = _mk_loader(yaml.SafeLoader)
LOADERS[('user', 'c')] = _mk_loader(yaml.CSafeLoader)
DUMPERS[('user', 'py')] = _mk_dumper(yaml.SafeDumper)
DUMPERS[('user', 'c')] = _mk_dumper(yaml.CSafeDumper)
for _k in list(DUMPERS):
    if _k[0] == 'user':
        DUMPERS[_k].add_representer(RQ, _r_rseq)
USER_CLASSES = [LOADERS[('user', 'py')], LOADERS[('user', 'c')], DUMPERS[('user', 'py')], DUMPERS[('user', 'c')]]


# ------------------------------------------------------------------ python objects of the pool (Api.tla: po sl ps pn pk ys yk)
class Plain:                    # an ordinary class: state goes into __dict__
    pass


class Point:                    # slots only, no __dict__: state goes through setattr
    __slots__ = ('x', 'y')


class Bag:                      # takes its state itself: the loader constructs the state with deep=True
    def __setstate__(self, state):
        self.__dict__.update(state)


class Pair:                     # created by python/object/new with arguments
    def __new__(cls, *args):
        self = object.__new__(cls)
        self.args = args
        return self


class _StateHashed:
    """__hash__ and __eq__ over the state: where such an object is a mapping key, it matters whether it was complete
    when it was put into the mapping."""

    def __hash__(self):
        return hash(tuple(sorted(self.__dict__.items())))

    def __eq__(self, other):
        return type(other) is type(self) and self.__dict__ == other.__dict__


class Key(_StateHashed):
    pass


class YBag(yaml.YAMLObject):
    yaml_tag = '!Bag'
    yaml_loader = [LOADERS[('user', 'py')], LOADERS[('user', 'c')]]
    yaml_dumper = DUMPERS[('user', 'py')]

    def __setstate__(self, state):
        self.__dict__.update(state)


class YKey(_StateHashed, yaml.YAMLObject):
    yaml_tag = '!Key'
    yaml_loader = [LOADERS[('user', 'py')], LOADERS[('user', 'c')]]
    yaml_dumper = DUMPERS[('user', 'py')]


class YTick(yaml.YAMLObject):
    """A YAMLObject subclass with from_yaml / to_yaml of its own: a caller-supplied constructor and representer that the
    metaclass registers with the user classes."""
    yaml_tag = '!Tick'
    yaml_loader = [LOADERS[('user', 'py')], LOADERS[('user', 'c')]]
    yaml_dumper = DUMPERS[('user', 'py')]

    def __init__(self, v):
        self.v = v

    @classmethod
    def from_yaml(cls, loader, node):
        CTL.tick('c')
        return cls(loader.construct_scalar(node))

    @classmethod
    def to_yaml(cls, dumper, data):
        CTL.tick('p')
        return dumper.represent_scalar(cls.yaml_tag, data.v)


DUMPERS[('user', 'c')].add_representer(YTick, YTick.to_yaml)
PYTAG = '!!python/object:' + __name__ + '.'

# ------------------------------------------------------------------ the pool: documents
ITEM_TEXT = {
    's': '- sx', 'da': '- &a va', 'ua': '- *a', 'ub': '- *b', 'rec': '- &r [*r]',
    'te': '- !e!str vt', 'tb': '- !!str vb', 'SE': '- "unterminated', 'PE': '- &p &q x',
    'KE': '- {[k]: v}', 'py': '- !!python/object/apply:collections.OrderedDict [[[k, v]]]',
    'dk': '- !!python/object/apply:collections.OrderedDict [!!python/name:no.such.module.x y]',
    'pt': '- {pk: ptv, other: [x, {pk: y}]}', 'ir': '- ir42',
    'cu': '- !u vu', 'cg': '- !ug [g1, !u g2]', 'cm': '- !um:sfx vm',
    'po': '- ' + PYTAG + 'Plain {name: plain}', 'sl': '- ' + PYTAG + 'Point {x: 1, y: 2}',
    'ps': '- ' + PYTAG + 'Bag {items: *a}', 'pn': '- !!python/object/new:' + __name__ + '.Pair [*a]',
    'pk': '- ? ' + PYTAG + 'Key {name: k}\n  : kv', 'ys': '- !Bag {items: *a}', 'yk': '- ? !Key {name: k}\n  : kv',
    # nested collections the library constructs in two steps (pending while a later sibling is constructed)
    'gs': '- [sx]', 'gr': '- [*r]', 'ge': '- [!undefined z]', 'pc': '- {ck: pcv}', 'ic': '- ic7',
    'yo': '- !Tick yv',              # YAMLObject subclass with its own from_yaml
}
DOCS = {
    'plain': (False, False, ['s', 's']), 'scanerr': (False, False, ['s', 'SE']), 'parseerr': (False, False, ['s', 'PE']),
    'comperr': (False, False, ['da', 'ub']), 'ctorerr': (False, False, ['s', 'KE']), 'yamldir': (True, False, ['s']),
    'tagdir': (False, True, ['te']), 'usetag': (False, False, ['te']), 'stdtag': (False, False, ['tb']),
    'anchors': (False, False, ['da', 'ua']), 'usealias': (False, False, ['ua']), 'rec': (False, False, ['rec']),
    'pyobj': (False, False, ['py']), 'deepfail': (False, False, ['s', 'dk']), 'ucall': (False, False, ['cu', 's']),
    'ugen': (False, False, ['cg', 'cu']), 'umulti': (False, False, ['s', 'cm']), 'paths': (False, False, ['pt', 'ir', 's']),
    'pyplain': (False, False, ['po', 's']), 'slots': (False, False, ['sl']), 'deepalias': (False, False, ['da', 'ps']),
    'newalias': (False, False, ['da', 'pn']), 'keyed': (False, False, ['pk']), 'ydeep': (False, False, ['da', 'ys']),
    'ykeyed': (False, False, ['s', 'yk']), 'yobj': (False, False, ['yo', 's']),
}


# the family <root>_<pending>_<point> of Api.tla (FamDocs): root kind x what is pending x the user callback that follows
FAM_ROOTS, FAM_PEND, FAM_POINTS = ('sq', 'uq'), ('none', 'gs', 'cg', 'pc', 'gr', 'ge'), ('cu', 'cg', 'cm', 'ic', 'yo')
DOC_ROOT = {}           # properties of the root node (anchor, tag of the non-generator user sequence constructor)
for _r in FAM_ROOTS:
    for _p in FAM_PEND:
        for _q in FAM_POINTS:
            _n = '%s_%s_%s' % (_r, _p, _q)
            DOCS[_n] = (False, False, ([] if _p == 'none' else [_p]) + [_q])
            _props = (['&r'] if _p == 'gr' else []) + (['!uq'] if _r == 'uq' else [])
            if _props:
                DOC_ROOT[_n] = ' '.join(_props)
FAMILY = [n for n in DOCS if n[:3] in ('sq_', 'uq_')]


def doc_text(name, implicit):
    y, t, items = DOCS[name]
    out = ''
    if y:
        out += '%YAML 1.1\n'
    if t:
        out += '%TAG !e! tag:yaml.org,2002:\n'
    if y or t or not implicit:
        out += '---\n'
    if name in DOC_ROOT:
        out += DOC_ROOT[name] + '\n'
    return out + ''.join(ITEM_TEXT[i] + '\n' for i in items)


def stream_text(src):
    if 'raw' in src:
        return src['raw']
    return ''.join(doc_text(d, j == 0 and src['impl']) for j, d in enumerate(src['docs']))


# ------------------------------------------------------------------ the pool: values / nodes / events
VALS = {
    'plainv': (False, False, ['s', 's'], False), 'shared': (False, False, ['x1', 'x1'], False),
    'shared2': (False, False, ['x1', 'x2', 'x2', 'x1'], False), 'recv': (False, False, ['rec', 's'], False),
    'reprerr': (False, False, ['x1', 'x1', 'RE'], False), 'tagged': (True, False, ['ve'], False),
    'usesve': (False, False, ['ve', 's'], False), 'verv': (False, True, ['s'], False), 'urepr': (False, False, ['ru', 's'], False),
    'umrepr': (False, False, ['x1', 'rm', 'x1'], False), 'uni': (False, False, ['nu', 's'], False),
    'uniau': (False, False, ['nu', 's'], True), 'scalarv': (False, False, ['S'], False),
    'pathsv': (False, False, ['pv', 'iv', 's'], False), 'yrepr': (False, False, ['ry', 's'], False),
}


def make_value(name):
    items = VALS[name][2]
    if items == ['S']:
        return 'plain scalar root'
    x1, x2, rec = ['x1v'], ['x2v'], []
    rec.append(rec)
    m = {'s': lambda: 'sv', 'x1': lambda: x1, 'x2': lambda: x2, 'rec': lambda: rec, 've': VE, 'RE': Unrepresentable,
         'ru': RU, 'rm': RMSub, 'nu': lambda: 'caf\xe9', 'ry': lambda: YTick('yv'),
         'pv': lambda: {'pk': 'ptv', 'other': ['x', {'pk': 'y'}]}, 'iv': lambda: 'ir42'}
    return [m[i]() for i in items]


STR, SEQ, MAP = 'tag:yaml.org,2002:str', 'tag:yaml.org,2002:seq', 'tag:yaml.org,2002:map'


def make_node(name):
    items = VALS[name][2]
    if items == ['S']:
        return N.ScalarNode(STR, 'plain scalar root')
    shared = {}
    kids = []
    for it in items:
        if it in ('x1', 'x2'):
            if it not in shared:
                shared[it] = N.SequenceNode(SEQ, [N.ScalarNode(STR, it + 'v')], flow_style=True)
            kids.append(shared[it])
        elif it == 'rec':
            if it not in shared:
                shared[it] = N.SequenceNode(SEQ, [], flow_style=True)
                shared[it].value.append(shared[it])
            kids.append(shared[it])
        elif it == 've':
            kids.append(N.ScalarNode(EPREFIX + 't', 'vev'))
        elif it == 'RE':
            kids.append(N.ScalarNode(STR, 'unrepresentable'))
        elif it == 'ru':
            kids.append(N.ScalarNode('!ru', 'ruv'))
        elif it == 'ry':
            kids.append(N.ScalarNode('!Tick', 'yv'))
        elif it == 'rm':
            kids.append(N.MappingNode('!rm', [(N.ScalarNode(STR, 'k'), N.ScalarNode(STR, 'rmv'))], flow_style=True))
        elif it == 'nu':
            kids.append(N.ScalarNode(STR, 'caf\xe9'))
        elif it == 'iv':
            kids.append(N.ScalarNode(STR, 'ir42'))
        elif it == 'pv':
            inner = N.MappingNode(MAP, [(N.ScalarNode(STR, 'pk'), N.ScalarNode(STR, 'y'))], flow_style=True)
            kids.append(N.MappingNode(MAP, [(N.ScalarNode(STR, 'pk'), N.ScalarNode(STR, 'ptv')),
                                            (N.ScalarNode(STR, 'other'), N.SequenceNode(SEQ, [N.ScalarNode(STR, 'x'), inner], flow_style=True))],
                                      flow_style=True))
        else:
            kids.append(N.ScalarNode(STR, 'sv'))
    return N.SequenceNode(SEQ, kids, flow_style=False)


def make_events(names):
    """What a caller of emit() passes for a stream of values: anchors numbered per document by the caller."""
    evs = [E.StreamStartEvent()]
    for name in names:
        tags, ver, items, _au = VALS[name]
        evs.append(E.DocumentStartEvent(explicit=True, version=(1, 1) if ver else None,
                                        tags={'!e!': EPREFIX} if tags else None))
        if items == ['S']:
            evs.append(E.ScalarEvent(None, None, (True, False), 'plain scalar root'))
            evs.append(E.DocumentEndEvent(explicit=False))
            continue
        evs.append(E.SequenceStartEvent(None, None, True, flow_style=False))
        count = {i: items.count(i) for i in items}
        ids, seen, nxt = {}, set(), 0
        # caller's numbering: by order of second occurrence (any numbering that restarts per document would do)
        occ = {}
        for it in items:
            occ[it] = occ.get(it, 0) + 1
            if it == 'rec' and it not in ids:
                nxt += 1
                ids[it] = 'c%03d' % nxt
            elif it in ('x1', 'x2') and occ[it] == 2:
                nxt += 1
                ids[it] = 'c%03d' % nxt
        for it in items:
            if it in ('x1', 'x2', 'rec'):
                if it in seen:
                    evs.append(E.AliasEvent(ids[it]))
                    continue
                seen.add(it)
                evs.append(E.SequenceStartEvent(ids.get(it), None, True, flow_style=True))
                if it == 'rec':
                    evs.append(E.AliasEvent(ids[it]))
                else:
                    evs.append(E.ScalarEvent(None, None, (True, False), it + 'v'))
                evs.append(E.SequenceEndEvent())
            elif it == 've':
                evs.append(E.ScalarEvent(None, EPREFIX + 't', (False, False), 'vev'))
            elif it == 'ru':
                evs.append(E.ScalarEvent(None, '!ru', (False, False), 'ruv'))
            elif it == 'ry':
                evs.append(E.ScalarEvent(None, '!Tick', (False, False), 'yv'))
            elif it == 'rm':
                evs.append(E.MappingStartEvent(None, '!rm', False, flow_style=True))
                evs.append(E.ScalarEvent(None, None, (True, False), 'k'))
                evs.append(E.ScalarEvent(None, None, (True, False), 'rmv'))
                evs.append(E.MappingEndEvent())
            elif it == 'nu':
                evs.append(E.ScalarEvent(None, None, (True, False), 'caf\xe9'))
            elif it == 'iv':
                evs.append(E.ScalarEvent(None, None, (True, False), 'ir42'))
            elif it == 'pv':
                sc = lambda x: E.ScalarEvent(None, None, (True, False), x)
                evs += [E.MappingStartEvent(None, None, True, flow_style=True), sc('pk'), sc('ptv'), sc('other'),
                        E.SequenceStartEvent(None, None, True, flow_style=True), sc('x'),
                        E.MappingStartEvent(None, None, True, flow_style=True), sc('pk'), sc('y'), E.MappingEndEvent(),
                        E.SequenceEndEvent(), E.MappingEndEvent()]
            else:
                evs.append(E.ScalarEvent(None, None, (True, False), 'sv' if it != 'RE' else 'unrepresentable'))
        evs.append(E.SequenceEndEvent())
        evs.append(E.DocumentEndEvent(explicit=False))
    evs.append(E.StreamEndEvent())
    return evs


# ------------------------------------------------------------------ projections
def md5(s):
    return hashlib.md5(s.encode('utf-8', 'surrogatepass')).hexdigest()[:16]


def canon(o, memo=None):
    """Canonical text of an object graph: types, values, order, sharing and cycles."""
    if memo is None:
        memo = {}
    if o is None or isinstance(o, (bool, int, float, str, bytes, complex)):
        return type(o).__name__ + ':' + repr(o)
    if id(o) in memo:
        return '@%d' % memo[id(o)]
    memo[id(o)] = len(memo)
    t = type(o)
    name = t.__module__ + '.' + t.__qualname__
    if isinstance(o, (list, tuple)):
        return name + '[' + ','.join(canon(x, memo) for x in o) + ']'
    if isinstance(o, dict):
        # a mapping is what it answers: an entry whose key no longer finds it (hashed in another state) is marked
        return name + '{' + ','.join(canon(k, memo) + _finds(o, k) + '=' + canon(v, memo) for k, v in o.items()) + '}'
    if isinstance(o, (set, frozenset)):
        return name + '{' + ','.join(sorted(canon(x, memo) + _finds(o, x) for x in o)) + '}'
    if hasattr(o, 'isoformat'):
        return name + ':' + o.isoformat()
    # the state of an instance: its __dict__ and every slot of its classes that is set
    d = getattr(o, '__dict__', None)
    attrs = dict(d) if isinstance(d, dict) else {}
    slots = False
    for c in t.__mro__:
        sl = c.__dict__.get('__slots__', ())
        for k in ((sl,) if isinstance(sl, str) else tuple(sl)):
            slots = True
            if k in ('__dict__', '__weakref__'):
                continue
            try:
                attrs.setdefault(k, object.__getattribute__(o, k))
            except AttributeError:
                pass
    if isinstance(d, dict) or slots:
        return name + '(' + ','.join(k + '=' + canon(v, memo) for k, v in sorted(attrs.items())) + ')'
    return name + ':' + ADDR_RE.sub('0x', repr(o))


ADDR_RE = re.compile(r'0x[0-9a-fA-F]+')


def _finds(container, k):
    try:
        return '' if k in container else '!lost'
    except Exception as e:
        return '!unhashable:' + type(e).__name__


def mark(m, pos):
    return '' if (m is None or not pos) else '@%d:%d:%d' % (m.index, m.line, m.column)


def canon_node(n, pos, memo=None):
    if memo is None:
        memo = {}
    if n is None:
        return 'None'
    if id(n) in memo:
        return '@%d' % memo[id(n)]
    memo[id(n)] = len(memo)
    head = '%s<%s>%s%s' % (n.id, n.tag, mark(n.start_mark, pos), mark(n.end_mark, pos))
    if isinstance(n, N.ScalarNode):
        return head + repr(n.value) + repr(n.style)
    if isinstance(n, N.SequenceNode):
        return head + repr(n.flow_style) + '[' + ','.join(canon_node(c, pos, memo) for c in n.value) + ']'
    return head + repr(n.flow_style) + '{' + ','.join(canon_node(k, pos, memo) + ':' + canon_node(v, pos, memo) for k, v in n.value) + '}'


EV_ATTRS = ['anchor', 'tag', 'implicit', 'value', 'style', 'flow_style', 'explicit', 'version', 'tags', 'encoding']
TOK_ATTRS = ['value', 'name', 'plain', 'style', 'encoding']


def canon_event(e, pos):
    a = [type(e).__name__]
    for k in EV_ATTRS:
        if hasattr(e, k):
            a.append('%s=%r' % (k, getattr(e, k)))
    return ' '.join(a) + mark(e.start_mark, pos) + mark(e.end_mark, pos)


def canon_token(t, pos):
    a = [type(t).__name__]
    for k in TOK_ATTRS:
        if hasattr(t, k):
            a.append('%s=%r' % (k, getattr(t, k)))
    return ' '.join(a) + mark(t.start_mark, pos) + mark(t.end_mark, pos)


def is_stream_unit(op, x):
    if op == 'parse':
        return isinstance(x, (E.StreamStartEvent, E.StreamEndEvent))
    if op == 'scan':
        return isinstance(x, (T.StreamStartToken, T.StreamEndToken))
    return False


def unit_digests(op, x):
    """(digest with positions, digest without positions) of one delivered unit"""
    if op in ('load', 'load_all'):
        c = canon(x)
        return md5(c), md5(c)
    if op in ('compose', 'compose_all'):
        return md5(canon_node(x, True)), md5(canon_node(x, False))
    if op == 'parse':
        return md5(canon_event(x, True)), md5(canon_event(x, False))
    if op == 'scan':
        return md5(canon_token(x, True)), md5(canon_token(x, False))
    raise ValueError(op)


def exc_end(e):
    return 'raise:' + type(e).__name__


def exc_full(e):
    return md5('%s|%s' % (type(e).__name__, re.sub(r'0x[0-9a-fA-F]+', '0x', str(e))))


def output_docs(text):
    """Per-document projection of produced YAML text: the events of each document without positions, styles and the
    explicit flags; ['unparsable:<Class>'] appended where the text stops being parsable."""
    docs, cur = [], None
    try:
        for e in yaml.parse(text, Loader=yaml.SafeLoader):
            if isinstance(e, (E.StreamStartEvent, E.StreamEndEvent)):
                continue
            if isinstance(e, E.DocumentStartEvent):
                cur = ['DS version=%r tags=%r' % (e.version, e.tags)]
                continue
            if isinstance(e, E.DocumentEndEvent):
                docs.append(md5('\n'.join(cur)))
                cur = None
                continue
            a = [type(e).__name__]
            for k in ('anchor', 'tag', 'value'):
                if hasattr(e, k):
                    a.append('%s=%r' % (k, getattr(e, k)))
            cur.append(' '.join(a))
    except yaml.YAMLError as x:
        docs.append('unparsable:' + type(x).__name__)
    return docs


# ------------------------------------------------------------------ the deep digest of library-global state
PRIMS = (bool, int, float, str, bytes, complex, type(None))


def _walk(o, memo, depth, out, path):
    if isinstance(o, PRIMS):
        out.append('%s=%s:%r' % (path, type(o).__name__, o))
        return
    if id(o) in memo:
        out.append('%s=@%s' % (path, memo[id(o)]))
        return
    memo[id(o)] = path
    if isinstance(o, re.Pattern):
        out.append('%s=re:%r:%d' % (path, o.pattern, o.flags))
    elif isinstance(o, dict):
        out.append('%s=dict:%d' % (path, len(o)))
        for i, (k, v) in enumerate(o.items()):
            kk = k if isinstance(k, PRIMS) else getattr(k, '__qualname__', None) or type(k).__qualname__
            _walk(v, memo, depth + 1, out, '%s[%d:%r]' % (path, i, kk))
    elif isinstance(o, (list, tuple)):
        out.append('%s=%s:%d' % (path, type(o).__name__, len(o)))
        for i, v in enumerate(o):
            _walk(v, memo, depth + 1, out, '%s[%d]' % (path, i))
    elif isinstance(o, (set, frozenset)):
        sub = []
        for v in o:
            s2 = []
            _walk(v, dict(memo), depth + 1, s2, '')
            sub.append('|'.join(s2))
        out.append('%s=%s:{%s}' % (path, type(o).__name__, ','.join(sorted(sub))))
    elif isinstance(o, type):
        out.append('%s=class:%s.%s' % (path, o.__module__, o.__qualname__))
    elif isinstance(o, (types.FunctionType, types.BuiltinFunctionType, types.MethodType, classmethod, staticmethod,
                        types.MethodDescriptorType, types.WrapperDescriptorType, types.GetSetDescriptorType,
                        types.MemberDescriptorType, property)):
        f = getattr(o, '__func__', o)
        out.append('%s=fn:%s.%s' % (path, getattr(f, '__module__', '?'), getattr(f, '__qualname__', repr(type(o)))))
        # what a function object of the package holds between calls: default-argument values (evaluated ONCE, at import:
        # a mutable default is one object for the whole process), function attributes, closure cells
        if isinstance(f, types.FunctionType) and str(f.__module__).startswith('yaml') and id(f) not in memo.setdefault('fn', set()):
            memo['fn'].add(id(f))
            held = [('.__defaults__[%d]' % i, v) for i, v in enumerate(f.__defaults__ or ())]
            held += [('.__kwdefaults__[%s]' % k, v) for k, v in sorted((f.__kwdefaults__ or {}).items())]
            held += [('.__dict__[%s]' % k, v) for k, v in sorted(f.__dict__.items())]
            for i, c in enumerate(f.__closure__ or ()):
                try:
                    held.append(('.__closure__[%d]' % i, c.cell_contents))
                except ValueError:
                    pass
            for suffix, v in held:
                if not isinstance(v, PRIMS):
                    _walk(v, memo, depth + 1, out, path + suffix)
    elif isinstance(o, types.ModuleType):
        out.append('%s=module:%s' % (path, o.__name__))
    elif isinstance(o, (io.StringIO, io.BytesIO)):      # module-level buffers: their CONTENT is state
        out.append('%s=buffer:%s:%r:%d' % (path, type(o).__name__, o.getvalue(), o.tell()))
    else:
        d = getattr(o, '__dict__', None)
        out.append('%s=obj:%s.%s' % (path, type(o).__module__, type(o).__qualname__))
        if isinstance(d, dict) and depth < 6:
            for k in sorted(d):
                _walk(d[k], memo, depth + 1, out, path + '.' + k)


def package_modules():
    return sorted((n, m) for n, m in sys.modules.items() if (n == 'yaml' or n.startswith('yaml.')) and m is not None)


def globals_lines():
    """One line per module- and class-level attribute (nested containers expanded) of the yaml package and of the
    harness's user subclasses.  Discovered by walking vars() of every module and every class defined in the package."""
    out, memo = [], {}
    classes = []
    for name, mod in package_modules():
        d = vars(mod)
        out.append('%s=modulekeys:%s' % (name, ','.join(sorted(k for k in d if k not in ('__builtins__', '__cached__', '__spec__', '__loader__')))))
        for k in sorted(d):
            if k in ('__builtins__', '__cached__', '__spec__', '__loader__', '__doc__', '__file__', '__path__'):
                continue
            v = d[k]
            if isinstance(v, type) and v.__module__.startswith('yaml'):
                if v not in classes:
                    classes.append(v)
                out.append('%s.%s=class:%s.%s' % (name, k, v.__module__, v.__qualname__))
                continue
            _walk(v, memo, 0, out, name + '.' + k)
    seen = set()
    for c in classes + USER_CLASSES:
        if c in seen:
            continue
        seen.add(c)
        cn = c.__module__ + '.' + c.__qualname__
        try:
            d = vars(c)
        except TypeError:
            continue
        out.append('%s=classkeys:%s|bases:%s' % (cn, ','.join(sorted(k for k in d if k != '__slotnames__')), ','.join(b.__qualname__ for b in c.__bases__)))
        for k in sorted(d):
            if k in ('__dict__', '__weakref__', '__doc__', '__module__', '__qualname__', '__slotnames__'):
                continue
            _walk(d[k], memo, 0, out, cn + '.' + k)
    return out


def globals_digest():
    return md5('\n'.join(globals_lines()))


def globals_diff(a, b):
    sa, sb = set(a), set(b)
    return sorted(sa - sb)[:6], sorted(sb - sa)[:6]


# ------------------------------------------------------------------ executing API steps
WRAP_LOAD = {('safe', 'load'): 'safe_load', ('safe', 'load_all'): 'safe_load_all', ('full', 'load'): 'full_load',
             ('full', 'load_all'): 'full_load_all', ('unsafe', 'load'): 'unsafe_load', ('unsafe', 'load_all'): 'unsafe_load_all'}
WRAP_DUMP = {('safe', 'dump'): 'safe_dump', ('safe', 'dump_all'): 'safe_dump_all'}


def loader_class(cls, be, variant=0):
    if cls == 'unsafe' and variant % 2:
        return LOADERS[('legacy', be)]
    return LOADERS[(cls, be)]


def open_load(step, variant=0, chunk=7):
    """-> (iterable-or-value thunk result).  Returns a callable that performs the API call."""
    op, cls, be = step['op'], step['cls'], step['be']
    text = stream_text(step['arg'])
    if variant & 2:
        text = text.encode('utf-8')
    src = InStream(text, chunk) if step['io'] == 'file' else text
    w = WRAP_LOAD.get((cls, op))
    if w and be == 'py' and (variant & 4):
        return lambda: getattr(yaml, w)(src)
    L = loader_class(cls, be, variant)
    if op in ('load', 'load_all'):
        return lambda: getattr(yaml, op)(src, L)
    return lambda: getattr(yaml, op)(src, Loader=L)


def dump_kwargs(step):
    first = VALS[step['arg'][0]]
    kw = {}
    if step['op'] != 'emit':
        if first[0]:
            kw['tags'] = {'!e!': EPREFIX}
        if first[1]:
            kw['version'] = (1, 1)
    if first[3]:
        kw['allow_unicode'] = True
    return kw


def new_out(step, variant=0):
    if step['io'] != 'file':
        return None
    return OutStreamNoFlush() if (variant & 8) else OutStream()


def dump_call(step, variant=0):
    """-> (args, call): args = the caller-owned argument objects (values / nodes / events) built once; call(out) returns a
    thunk that performs the API call with exactly these objects and the given stream (None: the call returns the text)."""
    op, cls, be = step['op'], step['cls'], step['be']
    D = DUMPERS[(cls, be)]
    kw = dump_kwargs(step)
    names = step['arg']
    if op == 'emit':
        evs = make_events(names)
        return evs, (lambda out: (lambda: yaml.emit(evs, out, Dumper=D, **kw)))
    if op in ('serialize', 'serialize_all'):
        cache = {}          # the same value passed twice = the same node objects passed twice
        ns = [cache.setdefault(n, make_node(n)) if n not in cache else cache[n] for n in names]
        if op == 'serialize':
            return ns, (lambda out: (lambda: yaml.serialize(ns[0], out, Dumper=D, **kw)))
        return ns, (lambda out: (lambda: yaml.serialize_all(ns, out, Dumper=D, **kw)))
    vcache = {}
    vs = [vcache.setdefault(n, make_value(n)) if n not in vcache else vcache[n] for n in names]
    w = WRAP_DUMP.get((cls, op))
    if w and be == 'py' and (variant & 4):
        if op == 'dump':
            return vs, (lambda out: (lambda: getattr(yaml, w)(vs[0], out, **kw)))
        return vs, (lambda out: (lambda: getattr(yaml, w)(vs, out, **kw)))
    if op == 'dump':
        return vs, (lambda out: (lambda: yaml.dump(vs[0], out, Dumper=D, **kw)))
    return vs, (lambda out: (lambda: yaml.dump_all(vs, out, Dumper=D, **kw)))


def open_dump(step, variant=0):
    """-> (thunk, stream or None)"""
    out = new_out(step, variant)
    args, call = dump_call(step, variant)
    return call(out), out


def args_digest(args):
    """Digest of caller-owned argument objects with everything reachable from them, every attribute included (an
    attribute added to a node or an event is a change)."""
    return md5(canon(args))


IS_LOAD = {'load', 'load_all', 'compose', 'compose_all', 'parse', 'scan'}
IS_GEN = {'load_all', 'compose_all', 'parse', 'scan'}


def observe_call(step, variant=0):
    """Perform one complete call.  -> dict(end, units (positionless digests), full (digest of everything the caller
    sees), exc (the exception object or None), out (OutStream or None))"""
    op = step['op']
    exc = None
    units, fulls = [], []
    out = None
    try:
        if op in IS_LOAD:
            r = open_load(step, variant)()
            if op in IS_GEN:
                delivered = []
                for x in r:
                    delivered.append(x)
                r = delivered
            else:
                r = [] if r is None and False else [r]
            for x in r:
                if is_stream_unit(op, x):
                    continue
                a, b = unit_digests(op, x)
                fulls.append(a)
                units.append(b)
        else:
            thunk, out = open_dump(step, variant)
            r = thunk()
            text = r if out is None else out.text()
            if isinstance(text, bytes):
                text = text.decode('latin-1')
            fulls.append(md5(text))
            units = output_docs(text)
    except BaseException as e:      # whatever reaches the caller is the observation
        if isinstance(e, (SystemExit, MemoryError)):
            raise
        exc = e
    if exc is not None:
        vis_units = output_docs(out.text()) if (out is not None) else []
        full = [exc_full(exc)] + ([md5(out.text())] if out is not None else [])
        return {'end': exc_end(exc), 'units': vis_units, 'full': md5('|'.join(full)), 'exc': exc, 'out': out}
    return {'end': 'return', 'units': units, 'full': md5('|'.join(fulls)), 'exc': None, 'out': out}


class Gen:
    """A generator obtained from load_all / compose_all / parse / scan, advanced one next() at a time."""

    def __init__(self, step, variant=0):
        self.op = step['op']
        self.g = open_load(step, variant)()

    def next(self):
        """-> dict(end: 'yield' | 'stop' | 'raise:<Class>', units, full)"""
        while True:
            try:
                x = next(self.g)
            except StopIteration:
                return {'end': 'stop', 'units': [], 'full': md5('stop'), 'exc': None}
            except BaseException as e:
                if isinstance(e, (SystemExit, MemoryError)):
                    raise
                return {'end': exc_end(e), 'units': [], 'full': exc_full(e), 'exc': e}
            if is_stream_unit(self.op, x):
                continue
            a, b = unit_digests(self.op, x)
            return {'end': 'yield', 'units': [b], 'full': a, 'exc': None}

    def close(self):
        self.g.close()


def observe_iteration(step, variant=0):
    """Iterate a generator entry point to its end, keeping what it delivers before a failure.
    -> dict(end, units, fulls)"""
    g = Gen(step, variant)
    units, fulls = [], []
    while True:
        r = g.next()
        if r['end'] == 'yield':
            units += r['units']
            fulls.append(r['full'])
            continue
        end = 'return' if r['end'] == 'stop' else r['end']
        return {'end': end, 'units': units, 'fulls': fulls, 'endfull': r['full']}


def observe_dump_stream(step, variant=0):
    """A dumper call writing to a caller's stream: per-document projection of what the stream received."""
    st = dict(step)
    st['io'] = 'file'
    r = observe_call(st, variant)
    return {'end': r['end'], 'units': r['units']}



# ------------------------------------------------------------------ C11: documents given as encoded bytes (Api.tla EncDocs)
# (added for C11; add-only: the three names rebound at the end - open_load, _walk, globals_lines - keep their behaviour for
# everything that existed before)
import codecs as _codecs, collections as _collections, array as _array

ENC_CODEC = {'u8': 'utf-8', 'ule': 'utf-16-le', 'ube': 'utf-16-be'}
ENC_BOM = {'u8': b'', 'ule': _codecs.BOM_UTF16_LE, 'ube': _codecs.BOM_UTF16_BE}
ENC_CHAR = {2: '\xe9', 3: '€', 4: '\U0001f600'}      # utf-8 widths 2, 3, 4; utf-16: 2 = one unit, 4 = a surrogate pair
ENC_CHUNK = {'f': 1 << 20, 'r1': 1, 'r2': 2, 'r3': 3}     # what read(n) returns at most
ENC_ITEMS = {'ok': ['s', 'mb'], 'SE': ['s', 'SE', 'mb'], 'PE': ['s', 'PE', 'mb'], 'CE': ['da', 'ub', 'mb'], 'KE': ['s', 'KE', 'mb']}
ENC_RE = re.compile(r'^(u8|ule|ube)_(f|r[123])_c([234])([0-3])_(ok|SE|PE|CE|KE)$')
ENC_FIRST_DECODE, ENC_NEXT_DECODE = 8192, 4096            # reader.py: two reads of 4096 before the first decode, then one


def enc_parse(name):
    m = ENC_RE.match(name)
    if not m:
        return None
    return {'enc': m.group(1), 'form': m.group(2), 'width': int(m.group(3)), 'off': int(m.group(4)), 'end': m.group(5)}


def enc_family(encs=('u8', 'ule', 'ube'), forms=('f', 'r1', 'r2', 'r3'), ends=('ok', 'SE', 'PE', 'CE', 'KE')):
    """The names of Api.tla EncDocs restricted to the given encodings / forms / ends (every width and offset)."""
    out = []
    for e in encs:
        for f in forms:
            for w in ((2, 3, 4) if e == 'u8' else (2, 4)):
                for k in range(w):
                    if e != 'u8' and f in ('f', 'r2') and k % 2:
                        continue
                    out += ['%s_%s_c%d%d_%s' % (e, f, w, k, x) for x in ends]
    return out


def is_enc_source(arg):
    return isinstance(arg, dict) and 'docs' in arg and any(ENC_RE.match(d) for d in arg['docs'])


def enc_bytes(src):
    """-> (bytes, form) for a source with at least one EncDocs document; encoding and form are those of the first one.
    The run of multi-byte characters follows the failing item directly (where the scanner's look-ahead ends); for the full-read
    form a comment line before item mb is filled up so that the item's multi-byte character starts `off` bytes before the next decode point."""
    first = next(enc_parse(d) for d in src['docs'] if ENC_RE.match(d))
    codec, form = ENC_CODEC[first['enc']], first['form']
    data = ENC_BOM[first['enc']]
    enc = lambda s: s.encode(codec)
    for j, d in enumerate(src['docs']):
        p = enc_parse(d)
        if p is None:
            data += enc(doc_text(d, j == 0 and src['impl']))
            continue
        ch = ENC_CHAR[p['width']]
        run = ch * 4
        if not (j == 0 and src['impl']):
            data += enc('--- #' + run + '\n')
        pad = 'p' * p['off']
        for it in ENC_ITEMS[p['end']]:
            if it == 's':
                data += enc('- sx' + pad + '\n')
            elif it == 'da':
                data += enc('- &a va' + pad + '\n')
            elif it == 'SE':
                data += enc('- @' + run + '\n')          # a character that cannot start any token
            elif it == 'mb':
                # one entry, the same VALUE whatever the form: a flow sequence of two scalars with a comment between them;
                # for the full-read form the comment fills up to the decode point (a token starts before it, so the
                # look-ahead of a failing item in front does not run through it)
                head, tail, fill = enc('- [' + run + 'z, #'), enc('\n  '), b''
                if form == 'f':
                    b = ENC_FIRST_DECODE
                    while b < len(data) + len(head) + len(tail) + 64:
                        b += ENC_NEXT_DECODE
                    fill = enc('x') * ((b - p['off'] - len(data) - len(head) - len(tail)) // len(enc('x')))
                data += head + fill + tail + enc(run + 'z]\n')
            else:
                data += enc(ITEM_TEXT[it] + '\n')
    return data, form


_open_load_text = open_load


def open_load(step, variant=0, chunk=7):
    """As before for the documents that are texts; a source with an EncDocs document is handed over as bytes in its
    encoding: the bytes object (io = mem) or a byte stream that answers read(n) as its form says (io = file)."""
    if not is_enc_source(step['arg']):
        return _open_load_text(step, variant, chunk)
    op, cls, be = step['op'], step['cls'], step['be']
    data, form = enc_bytes(step['arg'])
    src = InStream(data, ENC_CHUNK[form]) if step['io'] == 'file' else data
    w = WRAP_LOAD.get((cls, op))
    if w and be == 'py' and (variant & 4):
        return lambda: getattr(yaml, w)(src)
    L = loader_class(cls, be, variant)
    if op in ('load', 'load_all'):
        return lambda: getattr(yaml, op)(src, L)
    return lambda: getattr(yaml, op)(src, Loader=L)


# ---- the digest walker: objects whose CONTENT is state although they have no __dict__ to walk
_walk_core = _walk


def _walk(o, memo, depth, out, path):
    if isinstance(o, (bytearray, memoryview, _collections.deque, _array.array)) and id(o) not in memo:
        memo[id(o)] = path
        c = bytes(o) if isinstance(o, (bytearray, memoryview)) else list(o)
        out.append('%s=%s:%r' % (path, type(o).__name__, c))
        return
    if isinstance(o, (_codecs.IncrementalDecoder, _codecs.IncrementalEncoder)) and id(o) not in memo:
        try:
            out.append('%s.getstate()=%r' % (path, o.getstate()))       # bytes held back, flags (also of C-level codecs)
        except Exception as e:
            out.append('%s.getstate()!%s' % (path, type(e).__name__))
    _walk_core(o, memo, depth, out, path)


# ---- interpreter-global settings a library call may change for everybody (restored or not): part of the observation
def interpreter_lines():
    import warnings, locale, decimal, gc, threading
    out = ['sys.recursionlimit=%d' % sys.getrecursionlimit(), 'sys.switchinterval=%r' % sys.getswitchinterval(),
           'sys.dont_write_bytecode=%r' % sys.dont_write_bytecode, 'sys.int_max_str_digits=%r' % sys.get_int_max_str_digits(),
           'sys.trace=%r sys.profile=%r' % (sys.gettrace() is not None, sys.getprofile() is not None),
           'sys.hooks=%s,%s' % (getattr(sys.excepthook, '__qualname__', '?'), getattr(sys.displayhook, '__qualname__', '?')),
           'warnings.filters=%d:%s' % (len(warnings.filters), md5(repr([(f[0], getattr(f[1], 'pattern', f[1]), f[2].__name__,
                                                                                   getattr(f[3], 'pattern', f[3]), f[4]) for f in warnings.filters]))),
           'locale=%r' % (locale.setlocale(locale.LC_ALL),), 'decimal.prec=%d' % decimal.getcontext().prec,
           'gc=%r:%r' % (gc.isenabled(), gc.get_threshold()),
           'sys.path=%s' % md5(repr(sys.path)), 'sys.meta_path=%d sys.path_hooks=%d' % (len(sys.meta_path), len(sys.path_hooks)),
           'yaml-modules=%s' % ','.join(n for n, _ in package_modules())]
    for name in ('utf-8', 'utf-16-le', 'utf-16-be', 'utf-16', 'ascii', 'latin-1'):
        try:
            out.append('codec:%s=%s' % (name, _codecs.lookup(name).name))
        except LookupError:
            out.append('codec:%s=missing' % name)
    return out


_globals_lines_package = globals_lines


def globals_lines():
    return _globals_lines_package() + ['<interpreter>.' + l for l in interpreter_lines()]
