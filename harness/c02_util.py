"""Shared by C02 and C16: concretisation of the abstract values of spec/Represent.tla, projection of Python object
graphs to the rooted heaps of spec/H_RoundTrip.tla, the dump option product, the observation of one dump/load case,
the classifier that names the input class of a failing case, the seeded random value generator, and a parallel
front-end to TLC trace validation.

Nothing in this file decides a verdict: observations are projected and handed to TLC (Trace_RoundTrip /
Trace_Determinism); the classifier only computes the `key` under which a TLC-rejected observation is reported."""
import base64, datetime, hashlib, io, json, os, random, re, threading
from . import tlc
from .common import BUILD, ensure_dir

D = datetime
TZ = datetime.timezone
TD = datetime.timedelta

# ------------------------------------------------------------------------------------------------ repertoire
# representatives per scalar class of Represent.tla.  `KEYREPS` are the order-convex subsets used where the value is
# a dict key / set member: every key representative of a class of lower rank is < every one of a class of higher rank
# (NumRank / StrRank / BytesRank of the spec), so that the order the spec assumes is the order Python sees.
REPS = {
    'none': [None],
    'true': [True],
    'false': [False],
    'int_neg': [-1, -17, -2 ** 31, -2 ** 63 - 1, -10 ** 30],
    'int_pos': [2, 7, 10, 12, 255, 65536, 999999],
    'int_big': [10 ** 30, 2 ** 200, 10 ** 400, 10 ** 4000 + 7],
    'fninf': [float('-inf')],
    'fnegzero': [-0.0],
    'float_frac': [0.5, 0.1, 1e-07, 0.3333333333333333, 5e-324, 0.999999999999],
    'float_pos': [1234567.5, 123456789.125, 250000000000000.5, 3141592.653589793],
    'fexp': [1e16, 1e17, 1.5e+20, 1e22],
    'finf': [float('inf')],
    'fnan': [float('nan')],
    's_empty': [''],
    's_word': ['abc', 'hello', 'x', 'Zed9', 'caf\xe9', '\u4e2d\u6587', 'key-1', 'a b c', 'hi there, you', 'path/to/file.txt',
               'snake_case', 'word ' * 30 + 'end', 'g\U0001F600h', 'm\xe9lange of w\xf6rds ' * 8, 'http://example.com/a?b=c'],
    's_bool': ['yes', 'No', 'TRUE', 'false', 'on', 'Off', 'True', 'NO', 'OFF'],
    's_int': ['12', '0', '-5', '+3', '0x1F', '0b101', '017', '1:30', '1_000', '190:20:30'],
    's_float': ['1.5', '.5', '-.inf', '.NaN', '1.0e+3', '6.8523015e+5', '685_230.15', '190:20:30.15', '+.INF', '.inf'],
    's_ts': ['2001-01-01', '2001-12-14 21:59:43.10 -5', '2002-12-14', '2001-12-14t21:59:43.10-05:00', '2001-12-14 21:59:43Z'],
    's_merge': ['<<'],
    's_value': ['='],
    's_null': ['~', 'null', 'Null', 'NULL'],
    's_multi': ['a\nb', 'line1\nline2\n', '\n', ' lead', 'trail ', 'a: b', '- x', '# c', 'tab\there', "it's", '"q"',
                'x\u2028y', 'p\u2029q', 'a\x85b', '\ufeffbom', 'mid\ufeffbom', '\x07bell', 'a\\b', '{a}', '[a]', '!tag',
                '&anc', '*ali', '? q', '| lit', '> fold', '%dir', '@at', '`bt', 'a,b', 'k: v: w', 'x #y', 'e\x1b[0m',
                'nul\x00', 'del\x7f', '\x80\x9f', '\ud7ff\ue000\ufffd', 'x\n  more indented words go here\ny',
                'first line\n second line is more indented and rather long, so that it is folded\nlast',
                ' leading space and quite a long line of words that will need folding at some point',
                'para one\n\npara two\n\n\nend', 'trailing breaks\n\n\n', '\n\nleading breaks', 'a\rb', 'a\r\nb',
                'q" \\ and \xe9 mixed, long enough to be folded somewhere in the middle of the line, "again" \\ x',
                'sp  double  spaces   here', 'tab\t\ttabs\there and\tthere', '\tlead tab', 'trail tab\t', 'a\n\tb',
                "'single' and \"double\" quotes", 'colon:nospace', 'dash-', '-', '--- doc', '... end', '---', '...',
                'x\n---\ny', 'x\n...\ny', 'word\n' * 12, 'a b\n' * 7 + ' c d e f g h i j k l m n o p\n' + 'z'],
    'b_lo': [b'', b'a', b'\x00\x01', b'abc' * 20, b'\x00' * 100, b'ABC'],
    'b_hi': [b'z', b'\xff\xfe', b'zzzz' * 30, bytes(range(0x7a, 0x100))],
}
KEYREPS = dict(REPS)
KEYREPS.update({
    's_word': ['abc', 'hello', 'x', 'key-1', 'a b c', 'path/to/file.txt', 'snake_case', 'hi there, you', 'word ' * 30 + 'end',
               'h\xe9llo', 'ma\xf1ana', 'k\u4e2d'],
    's_bool': ['TRUE', 'True', 'NO', 'OFF', 'No', 'Off', 'FALSE', 'ON', 'Yes'],
    's_int': ['12', '0', '0x1F', '0b101', '017', '1:30', '1_000', '190:20:30'],
    's_float': ['.5', '.NaN', '.inf', '.Inf', '.NAN'],
    's_null': ['~'],
    's_multi': [' lead', '- x', '# c', '"q"', '!tag', '&anc', '*ali', '%dir', ' a\nb', '#x\ny', "'q'\nz", '-\n', '"\n"',
                ' leading space and quite a long line of words that will need folding at some point', '--- doc', '---',
                '- a b\n' * 6 + '  c d e f g h i j k l m n o p\n' + 'z'],
})

DATE_REPS = {
    'date': {1: [D.date(1, 1, 1), D.date(1970, 1, 1), D.date(1999, 12, 31)],
             2: [D.date(2001, 9, 9), D.date(2024, 2, 29)],
             3: [D.date(2525, 1, 2), D.date(9999, 12, 31)]},
    'dtn': {1: [D.datetime(1, 1, 1, 0, 0, 0), D.datetime(1999, 12, 31, 23, 59, 59, 999999), D.datetime(1987, 6, 5, 4, 3, 2)],
            2: [D.datetime(2001, 12, 14, 21, 59, 43, 100000), D.datetime(2020, 2, 29, 12, 0, 0, 1), D.datetime(2010, 1, 1)],
            3: [D.datetime(2525, 5, 5, 5, 5, 5, 50), D.datetime(9999, 12, 31, 23, 59, 59, 999999)]},
    # aware, and the UTC offset has seconds (D7)
    'dts': {1: [D.datetime(1995, 5, 5, 5, 5, 5, tzinfo=TZ(TD(hours=5, minutes=30, seconds=15))),
                D.datetime(1937, 6, 30, 12, tzinfo=TZ(TD(minutes=19, seconds=32)))],
            2: [D.datetime(2001, 1, 1, 1, 1, 1, 5, tzinfo=TZ(-TD(seconds=1))), D.datetime(2010, 10, 10, tzinfo=TZ(TD(seconds=30, microseconds=500000)))],
            3: [D.datetime(2525, 1, 1, tzinfo=TZ(-TD(hours=7, seconds=59)))]},
}


# aware datetimes: local time by rank (incl. the edges of the range and non-zero microseconds) x UTC offset by shape:
# timezone.utc, +00:00, and sign x {zero, non-zero} hours x {zero, non-zero} minutes (TzShapes of Represent.tla)
DTA_LOCAL = {1: [D.datetime(1, 1, 2, 0, 0, 0), D.datetime(1970, 1, 1), D.datetime(1995, 5, 5, 5, 5, 5, 7), D.datetime(1999, 12, 31, 23, 59, 59, 999999)],
             2: [D.datetime(2001, 12, 14, 21, 59, 43, 100000), D.datetime(2015, 6, 30, 23, 59, 59), D.datetime(2005, 3, 3, 3, 3, 3, 1)],
             3: [D.datetime(2525, 1, 1), D.datetime(9999, 12, 30, 12, 0, 0, 999999)]}
TZ_MINUTES = {'p00': [0], 'pH0': [60, 300, 840, 1380], 'p0M': [1, 30, 45, 59], 'pHM': [61, 330, 765, 1439],
              'nH0': [-60, -300, -720, -1380], 'n0M': [-1, -25, -30, -59], 'nHM': [-61, -210, -570, -1439]}


class ZeroOffset(datetime.tzinfo):
    """a user-defined time zone whose offset is zero (stands for zoneinfo's UTC / Europe/London in winter / pytz zones)"""
    def utcoffset(self, dt):
        return TD(0)

    def dst(self, dt):
        return TD(0)

    def tzname(self, dt):
        return 'ZERO'

    def __repr__(self):
        return 'ZeroOffset()'


def tz_of_shape(rng, z, free=False):
    if z == 'utc':
        return TZ.utc
    if z == 'p00':
        # a zero offset carried by a tzinfo that is NOT the timezone.utc singleton (timezone(timedelta(0)) is that singleton):
        # what the text says must depend on the offset, not on which object carries it
        return rng.choice([TZ(TD(0), 'zero'), ZeroOffset()])
    if not free:
        return TZ(TD(minutes=rng.choice(TZ_MINUTES[z])))
    h = rng.randrange(1, 24) if z[1] == 'H' else 0
    m = rng.randrange(1, 60) if z[2] == 'M' else 0
    return TZ(TD(minutes=(-1 if z[0] == 'n' else 1) * (60 * h + m)))


def aware_rep(rng, r, z):
    return rng.choice(DTA_LOCAL[r]).replace(tzinfo=tz_of_shape(rng, z))


def rep_of(rng, cls, key=False):
    return rng.choice((KEYREPS if key else REPS)[cls])


# ------------------------------------------------------------------------------------------------ build a value
def build_value(heap, root, rng, key_positions=True):
    """heap/root as in a TLC state of Represent.tla (parsed by tlaval) -> Python object.  Dicts are filled in the
    order of the state (insertion order); sets likewise (their iteration order is Python's business)."""
    objs = []
    for cell in heap:
        t = cell['t']
        if t == 'list':
            objs.append([])
        elif t == 'dict':
            objs.append({})
        elif t == 'set':
            objs.append(set())
        elif t == 'dta':
            objs.append(aware_rep(rng, cell['r'], cell['z']))
        else:
            objs.append(rng.choice(DATE_REPS[t][cell['r']]).replace())     # a fresh object: distinct cells are distinct objects

    def val(v, key=False):
        if v['id']:
            return objs[v['id'] - 1]
        return rep_of(rng, v['s'], key)
    for cell, o in zip(heap, objs):
        c = cell['c']
        if cell['t'] == 'list':
            for v in c:
                o.append(val(v))
        elif cell['t'] == 'dict':
            for k, v in zip(c[0::2], c[1::2]):
                o[val(k, True)] = val(v)
        elif cell['t'] == 'set':
            for k in c:
                o.add(val(k, True))
    return val(root)


# ------------------------------------------------------------------------------------------------ projection
CONTAINER = {list: 'list', dict: 'dict', set: 'set'}


def sdigest(s):
    if len(s) <= 40 and all(' ' <= ch <= '~' and ch not in '"\\' for ch in s):
        return 's:' + s
    return 'h:%s:%d' % (hashlib.sha1(s.encode('utf-16-le', 'surrogatepass')).hexdigest()[:20], len(s))


def label(x):
    """(type label, digest) of a scalar or date object; type-strict"""
    t = type(x)
    if x is None:
        return 'NoneType', ''
    if t is bool:
        return 'bool', 'True' if x else 'False'
    if t is int:
        try:
            s = str(x)
        except ValueError:                      # beyond CPython's int->str digit limit
            s = 'hex:' + hex(x)
        return 'int', s if len(s) <= 40 else 'h:%s:%d' % (hashlib.sha1(s.encode()).hexdigest()[:20], len(s))
    if t is float:
        return 'float', 'nan' if x != x else x.hex()
    if t is str:
        return 'str', sdigest(x)
    if t is bytes:
        h = x.hex()
        return 'bytes', h if len(h) <= 40 else 'h:%s:%d' % (hashlib.sha1(x).hexdigest()[:20], len(x))
    if t is D.datetime:
        if x.utcoffset() is None:
            return 'datetime', x.isoformat()
        try:
            return 'datetime-aware', (x.replace(tzinfo=None) - x.utcoffset()).isoformat()     # the instant
        except OverflowError:
            return 'datetime-aware', 'ovf:' + x.isoformat()
    if t is D.date:
        return 'date', x.isoformat()
    return t.__module__ + '.' + t.__qualname__, repr(x)[:60]


def project(obj):
    """object graph -> (heap, root) of H_RoundTrip: identity-bearing objects (list, dict, set, date, datetime and
    anything unexpected) become cells numbered in order of first visit; other scalars are inline."""
    heap, ids, keep = [], {}, []

    def ref(x):
        t = type(x)
        if t in CONTAINER or t is D.date or t is D.datetime or t not in (type(None), bool, int, float, str, bytes):
            i = ids.get(id(x))
            if i is None:
                i = ids[id(x)] = len(heap) + 1
                keep.append(x)
                lt, ld = (CONTAINER[t], '') if t in CONTAINER else label(x)
                cell = {'t': lt, 'd': ld, 'c': []}
                heap.append(cell)
                if t is list:
                    cell['c'] = [ref(y) for y in x]
                elif t is dict:
                    c = []
                    for k, v in x.items():
                        c.append(ref(k))
                        c.append(ref(v))
                    cell['c'] = c
                elif t is set:
                    cell['c'] = [ref(y) for y in x]
                elif t is tuple:
                    cell['c'] = [ref(y) for y in x]
            return {'id': i, 't': '', 'd': ''}
        lt, ld = label(x)
        return {'id': 0, 't': lt, 'd': ld}
    import sys
    old = sys.getrecursionlimit()
    sys.setrecursionlimit(max(old, 10000))
    try:
        r = ref(obj)
    finally:
        sys.setrecursionlimit(old)
    return heap, r


def rename_digests(*heaps_roots):
    """Replace every distinct digest string by a short name, consistently over all the heaps of one observation
    (an injective renaming: equalities and differences of values are exactly preserved).  Makes observations of the
    same shape identical, so that TLC judges each shape once."""
    names = {}

    def nm(t, d):
        if t == 'float' and d == 'nan':
            return d                      # H_Determinism needs to see NaN keys (they are not ordered by <)
        k = (t, d)
        if k not in names:
            names[k] = 'd%d' % len(names)
        return names[k]
    out = []
    for heap, root in heaps_roots:
        h2 = []
        for cell in heap:
            h2.append({'t': cell['t'], 'd': nm(cell['t'], cell['d']) if cell['t'] not in ('list', 'dict', 'set') else '',
                       'c': [v if v['id'] else {'id': 0, 't': v['t'], 'd': nm(v['t'], v['d'])} for v in cell['c']]})
        r2 = root if root['id'] else {'id': 0, 't': root['t'], 'd': nm(root['t'], root['d'])}
        out.append((h2, r2))
    return out


# ------------------------------------------------------------------------------------------------ options
STYLES = [None, '"', "'", '|', '>']
FLOWS = [True, False, None]
INDENTS = [None, 1, 2, 3, 4, 5, 6, 7, 8, 9]
WIDTHS = [None, 5, 10, 20, 40, 200]
LINE_BREAKS = [None, '\n', '\r', '\r\n']
ENCODINGS = [None, 'utf-8', 'utf-16-le', 'utf-16-be']
VERSIONS = [None, (1, 1), (1, 2)]
TAGS = [None, {'!e!': 'tag:example.com,2000:app/'}, {'!!': 'tag:yaml.org,2002:'}, {'!': 'tag:yaml.org,2002:'},
        {'!y!': 'tag:yaml.org,2002:'}]
TRI = [None, True, False]


def random_options(rng, sort_keys=None, default_style='any', default_flow_style='any'):
    """one point of the option product (valid option values only)"""
    o = {}
    o['default_style'] = rng.choice(STYLES) if default_style == 'any' else default_style
    o['default_flow_style'] = rng.choice(FLOWS) if default_flow_style == 'any' else default_flow_style
    o['canonical'] = rng.choice([None, False, True, False])
    o['indent'] = rng.choice(INDENTS)
    o['width'] = rng.choice(WIDTHS)
    o['allow_unicode'] = rng.choice(TRI)
    o['line_break'] = rng.choice(LINE_BREAKS)
    o['encoding'] = rng.choice(ENCODINGS)
    o['explicit_start'] = rng.choice(TRI)
    o['explicit_end'] = rng.choice(TRI)
    o['version'] = rng.choice(VERSIONS)
    o['tags'] = rng.choice(TAGS)
    o['sort_keys'] = rng.choice([True, False]) if sort_keys is None else sort_keys
    return o


def default_options(sort_keys, default_style=None, default_flow_style=False):
    return {'default_style': default_style, 'default_flow_style': default_flow_style, 'sort_keys': sort_keys}


def opts_json(o):
    o = dict(o)
    if o.get('version'):
        o['version'] = list(o['version'])
    return o


def opts_from_json(o):
    o = dict(o)
    if o.get('version'):
        o['version'] = tuple(o['version'])
    return o


DUMPERS = ['SafeDumper', 'CSafeDumper']
LOADERS = ['SafeLoader', 'CSafeLoader']


# ------------------------------------------------------------------------------------------------ one observation
def dump_once(yaml, value, opts, dumper):
    """-> (text, None) or (None, error)"""
    try:
        return yaml.dump(value, Dumper=getattr(yaml, dumper), **opts), None
    except RecursionError as e:
        return None, 'RecursionError'
    except Exception as e:
        return None, '%s: %s' % (type(e).__name__, str(e)[:200])


def observe(yaml, value, opts, dumper, loaders=LOADERS, dumped=None):
    """dump once (or take the result of dump_once), load with every loader -> [(loader, outcome, text, loaded-or-exception)]"""
    text, err = dumped if dumped is not None else dump_once(yaml, value, opts, dumper)
    if err is not None:
        return [(l, 'dump-error', None, err) for l in loaders]
    res = []
    for l in loaders:
        try:
            back = yaml.load(text, Loader=getattr(yaml, l))
            res.append((l, 'ok', text, back))
        except Exception as e:
            res.append((l, 'load-error', text, '%s: %s' % (type(e).__name__, str(e)[:200])))
    return res


def rt_trace(in_proj, outcome, back, ordered):
    h1, r1 = in_proj
    if outcome == 'ok':
        h2, r2 = project(back)
    else:
        h2, r2 = [], {'id': 0, 't': 'NoneType', 'd': ''}
    (a, ra), (b, rb) = rename_digests((h1, r1), (h2, r2))
    return {'outcome': outcome, 'ord': bool(ordered), 'h1': a, 'r1': ra, 'h2': b, 'r2': rb}


# ------------------------------------------------------------------------------------------------ classifier
BREAKISH = '\x85\u2028\u2029'


def _closest(x, cands):
    """the candidate most similar to x (to pair a set member / dict key that has no equal partner)"""
    if not cands:
        return None
    if type(x) is str:
        import difflib
        strs = [y for y in cands if type(y) is str]
        if strs:
            return max(strs, key=lambda y: difflib.SequenceMatcher(None, x[:400], y[:400]).ratio())
    same = [y for y in cands if type(y) is type(x)]
    return (same or cands)[0]


def first_difference(a, b, ordered, seen=None):
    """parallel walk in the order of H_RoundTrip!MatchV -> (path, x, y) of the first differing pair, or None"""
    seen = seen if seen is not None else {}
    ta, tb = type(a), type(b)
    if ta is not tb:
        return ('', a, b)
    if ta in (list, dict, set):
        if id(a) in seen:
            return None if seen[id(a)] == id(b) else ('', a, b)
        seen[id(a)] = id(b)
        if len(a) != len(b):
            return ('', a, b)
        if ta is list:
            for i, (x, y) in enumerate(zip(a, b)):
                r = first_difference(x, y, ordered, seen)
                if r:
                    return ('[%d]' % i + r[0], r[1], r[2])
            return None
        if ta is set:
            la, lb = {label(x): x for x in a}, {label(y): y for y in b}
            for k in la:
                if k not in lb:
                    cand = [y for kk, y in lb.items() if kk not in la]
                    return ('{member}', la[k], _closest(la[k], cand))
            return None
        if ordered:
            for (k1, v1), (k2, v2) in zip(a.items(), b.items()):
                r = first_difference(k1, k2, ordered, seen)
                if r:
                    return ('{key}' + r[0], r[1], r[2])
                r = first_difference(v1, v2, ordered, seen)
                if r:
                    return ('[%r]' % (k1,) + r[0], r[1], r[2])
            return None
        lb = {label(k): (k, v) for k, v in b.items()}
        for k1, v1 in a.items():
            if label(k1) not in lb:
                cand = [k for kk, (k, v) in lb.items() if kk not in {label(z) for z in a}]
                return ('{key}', k1, _closest(k1, cand))
            r = first_difference(v1, lb[label(k1)][1], ordered, seen)
            if r:
                return ('[%r]' % (k1,) + r[0], r[1], r[2])
        return None
    if label(a) != label(b):
        return ('', a, b)
    return None


def leading_space_dropped(x, y):
    """y is x after at least one line lost its single leading space, the breaks next to such a line having become
    spaces (the line is then no longer a more-indented line of the folded scalar, so those breaks are folds)"""
    i = j = dropped = 0
    while i < len(x):
        if j < len(y) and x[i] == y[j]:
            i += 1
            j += 1
        elif x[i] == ' ' and (i == 0 or x[i - 1] == '\n') and i + 1 < len(x) and x[i + 1] not in ' \n':
            i += 1
            dropped += 1
        elif x[i] == '\n' and j < len(y) and y[j] == ' ':
            i += 1
            j += 1
        else:
            return False
    return j == len(y) and dropped > 0


def fold_in_more_indented(x, y):
    """y is x as a folded scalar reads it back when the writer folded at a space inside a more-indented line (a line that
    starts with white space): that space comes back as a break; the rest of the line is then an ordinary line, so the
    run of k breaks that ends it - written literally - is read as a fold: k - 1 breaks, a space for k = 1 (unless the
    next line is more-indented again, or the breaks end the scalar)."""
    BR = '\n\x85\u2028\u2029'

    def more_indented(i):
        ls = max(x.rfind(b, 0, i) for b in BR) + 1
        return ls != i and x[ls] in ' \t'
    i = j = hits = other = 0
    demoted = False
    while i < len(x):
        if x[i] == '\n' and demoted:
            k = 1
            while i + k < len(x) and x[i + k] == '\n':
                k += 1
            demoted = False
            if i + k < len(x) and x[i + k] not in ' \t':        # (trailing breaks are chomping, not folding)
                want = ' ' if k == 1 else '\n' * (k - 1)
                if y[j:j + len(want)] != want:
                    return None
                i += k
                j += len(want)
                continue
        if j < len(y) and x[i] == y[j]:
            i += 1
            j += 1
        elif x[i] == ' ' and y[j:j + 1] == '\n':
            if more_indented(i):
                hits += 1
                demoted = True
            else:
                other += 1
            i += 1
            j += 1
        else:
            return None
    if j != len(y) or hits + other == 0:
        return None
    return 'space-in-more-indented-line-became-break' if other == 0 else 'space-became-break'


def string_feature(x, y):
    """names the shape of the difference between the string dumped (x) and the string read back (y)"""
    f = fold_in_more_indented(x, y)
    if f:
        return f
    if leading_space_dropped(x, y):
        return 'line-leading-space-dropped'
    for ch in BREAKISH:
        if x.count(ch) > y.count(ch):
            z = y
            # the character is read as a line break: it comes back as LF, or folded into a space, or dropped with
            # the white space around it
            if ch not in y:
                return 'U+%04X-read-as-line-break' % ord(ch)
    if y.count('\\') > x.count('\\'):
        # remove inserted backslashes (each possibly followed by an inserted space) and compare
        if re.sub(r'\\ ?', '', y).replace(' ', '') == re.sub(r'\\ ?', '', x).replace(' ', ''):
            return 'backslash-inserted'
    if x.replace(' ', '') == y.replace(' ', ''):
        return 'spaces-changed'
    return 'other'


def written_style(yaml, text, back_string):
    """the style of the scalar event that carries the string read back (from re-parsing the dumped text)"""
    try:
        for ev in yaml.parse(text, Loader=yaml.SafeLoader):
            if isinstance(ev, yaml.ScalarEvent) and ev.value == back_string:
                return ev.style or 'plain'
    except Exception:
        pass
    return '?'


def has_sec_offset(value, seen=None):
    seen = seen if seen is not None else set()
    if type(value) is D.datetime:
        off = value.utcoffset()
        return off is not None and (off.seconds % 60 != 0 or off.microseconds != 0)
    if type(value) in (list, set, dict):
        if id(value) in seen:
            return False
        seen.add(id(value))
        if type(value) is dict:
            return any(has_sec_offset(k, seen) or has_sec_offset(v, seen) for k, v in value.items())
        return any(has_sec_offset(x, seen) for x in value)
    return False


def map_leaves(value, fn):
    """a copy of the object graph with the same sharing / cycles and fn applied to every scalar and date object"""
    memo = {}

    def go(x):
        t = type(x)
        if t in (list, dict, set) or t in (D.date, D.datetime):
            if id(x) in memo:
                return memo[id(x)]
        if t is list:
            y = memo[id(x)] = []
            y.extend(go(z) for z in x)
            return y
        if t is dict:
            y = memo[id(x)] = {}
            for k, v in x.items():
                y[go(k)] = go(v)
            return y
        if t is set:
            y = memo[id(x)] = set()
            for k in x:
                y.add(go(k))
            return y
        y = fn(x)
        if t in (D.date, D.datetime):
            memo[id(x)] = y
        return y
    return go(value)


def whole_minute_offset(x):
    if type(x) is D.datetime and has_sec_offset(x):
        try:
            return x.astimezone(TZ(TD(minutes=round(x.utcoffset().total_seconds() / 60))))
        except (OverflowError, ValueError):
            return x.replace(tzinfo=TZ.utc)
    return x


def loads(yaml, value, opts, dumper, loader):
    (l, outcome, text, back), = observe(yaml, value, opts, dumper, [loader])
    return outcome == 'ok'


def effective_width(opts):
    ind = opts.get('indent')
    ind = ind if ind and 1 < ind < 10 else 2
    w = opts.get('width')
    return w if w and w > ind * 2 else 80


ESC2 = set('\0\x07\x08\t\n\x0b\x0c\r\x1b"\\\x85\xa0\u2028\u2029')


def dq_written_len(s, allow_unicode=False):
    """the number of characters of s as a double-quoted scalar on one line (emitter.py write_double_quoted)"""
    n = 2
    for ch in s:
        if ch in '"\\\x85\u2028\u2029\ufeff' or not ('\x20' <= ch <= '\x7e' or (allow_unicode and ('\xa0' <= ch <= '\ud7ff' or '\ue000' <= ch <= '\ufffd'))):
            n += 2 if ch in ESC2 else 4 if ch <= '\xff' else 6 if ch <= '\uffff' else 10
        else:
            n += 1
    return n


def overlong_simple_key(x, allow_unicode=False):
    """a str that the emitter writes as a simple key (tag handle + raw text < 128 characters) although its written form
    is longer than the 1024 characters after which the scanner gives a simple key up (D12)"""
    return type(x) is str and 5 + len(x) < 128 and dq_written_len(x, allow_unicode) > 1024


def has_overlong_key(value, allow_unicode, seen=None):
    seen = seen if seen is not None else set()
    if type(value) in (list, set, dict):
        if id(value) in seen:
            return False
        seen.add(id(value))
        if type(value) is list:
            return any(has_overlong_key(x, allow_unicode, seen) for x in value)
        keys = list(value)
        if any(overlong_simple_key(k, allow_unicode) for k in keys):
            return True
        return type(value) is dict and any(has_overlong_key(v, allow_unicode, seen) for v in value.values())
    return False


def classify(yaml, value, opts, dumper, loader, outcome, text, back, why):
    """key dict of a TLC-rejected observation: the input class that failed (which feature of which scalar, written
    in which style by which emitter), so that a known finding suppresses exactly its own class"""
    key = {'dumper': dumper, 'loader': loader, 'why': why}
    if outcome != 'ok':
        key['error'] = str(back).split(':')[0]
        # the failure is attributed to a feature of the value when the value without that feature round-trips
        uni = bool(opts.get('allow_unicode'))
        if has_sec_offset(value) and loads(yaml, map_leaves(value, whole_minute_offset), opts, dumper, loader):
            key['feature'] = 'datetime-utcoffset-with-seconds'
        elif has_overlong_key(value, uni) and loads(yaml, map_leaves(value, lambda x: x[:60] if overlong_simple_key(x, uni) else x), opts, dumper, loader):
            key['feature'] = 'simple-key-over-1024-written-characters'
        else:
            key['feature'] = outcome
        return key
    d = first_difference(value, back, not opts.get('sort_keys', True))
    if d is None:
        key['feature'] = 'structure'
        return key
    path, x, y = d
    key['types'] = '%s->%s' % (type(x).__name__, type(y).__name__)
    if type(x) is str and type(y) is str:
        key['feature'] = string_feature(x, y)
        txt = text if isinstance(text, str) else _decode(text)
        key['style'] = written_style(yaml, txt, y)
        if key['feature'] == 'backslash-inserted':
            # the double fold: a continuation line that consists of an escaped backslash only, indented beyond the width
            w = effective_width(opts)
            if any(ln.strip(' ') == '\\\\' and len(ln) - 2 >= w for ln in re.split(r'\r\n|\r|\n', txt)):
                key['feature'] = 'backslash-inserted-by-fold-beyond-width'
        if any(ch in x for ch in BREAKISH) and key['feature'].endswith('read-as-line-break'):
            key['allow_unicode'] = bool(opts.get('allow_unicode'))
    elif type(x) in (list, dict, set):
        key['feature'] = 'container:%s len %d->%s' % (type(x).__name__, len(x), len(y) if hasattr(y, '__len__') else '?')
    else:
        key['feature'] = 'scalar:' + label(x)[0]
    return key


def _decode(b):
    if b[:2] in (b'\xff\xfe', b'\xfe\xff'):
        return b.decode('utf-16')
    return b.decode('utf-8', 'replace')


# ------------------------------------------------------------------------------------------------ random values
ATOMS = ['a', 'b', 'word', 'Zq', 'x1', '\xe9', '\u4e2d', '\U0001F600', ' ', ' ', ' ', '  ', '\n', '\n', '\n\n', '\t', ': ', ' #', '- ',
         '"', "'", '\\', '\x85', '\u2028', '\u2029', '\ufeff', '\x07', '\x00', '\x1b', '\x7f', '\x9f', '\r', '\r\n', ',', '[', ']', '{', '}',
         '&', '*', '!', '|', '>', '%', '@', '`', '?', '-', '~', '<<', '=', 'yes', '1', '1.5', '\ud7ff', '\ue000', '\ufffd', '.',
         'longerword', 'and', 'the', 'of', '\ufffe', '\uffff', '\U0010ffff', '\U00010000', '\xa0', '\xad', '\u200b', '\u2060', '\U000e0001']


def random_string(rng):
    k = rng.random()
    if k < 0.25:
        cls = rng.choice(['s_word', 's_bool', 's_int', 's_float', 's_ts', 's_merge', 's_value', 's_null', 's_empty', 's_multi'])
        return rng.choice(REPS[cls])
    if k < 0.55:          # prose: words and single spaces, sometimes breaks and leading spaces: lines that get folded
        n = rng.choice([3, 8, 20, 40])
        parts = []
        for i in range(n):
            parts.append(rng.choice(['a', 'bb', 'word', 'longerword', 'x', '\xe9t\xe9', 'q"q', 'b\\s', 'it\'s', 'k:', '#h', '\x07']))
            r = rng.random()
            parts.append('\n' if r < 0.08 else '\n ' if r < 0.14 else '\n\n' if r < 0.17 else '  ' if r < 0.22 else '\t' if r < 0.24 else ' ')
        s = ''.join(parts)
        return s if rng.random() < 0.5 else s.rstrip(' \n\t') if rng.random() < 0.7 else ' ' + s
    n = rng.choice([1, 2, 3, 5, 9, 16, 30])
    return ''.join(rng.choice(ATOMS) for _ in range(n))


def random_scalar(rng, key=False):
    k = rng.random()
    if k < 0.40:
        return random_string(rng)
    if k < 0.52:
        return rng.choice([0, 1, -1, 7, 10, 255, 2 ** 31, 2 ** 63, -2 ** 63 - 1, 10 ** 30, rng.randrange(-10 ** 6, 10 ** 6), rng.getrandbits(200),
                           10 ** 4000 + rng.randrange(100)])
    if k < 0.64:
        f = rng.choice([0.0, -0.0, 1.0, 0.5, 1e17, 1e-07, float('inf'), float('-inf'), float('nan'), 1.5e300, 5e-324, 2.0 ** 53,
                        rng.random(), rng.uniform(-1e9, 1e9), rng.random() * 10 ** rng.randrange(-30, 30)])
        return f
    if k < 0.70:
        return rng.choice([True, False])
    if k < 0.75:
        return None
    if k < 0.83:
        return bytes(rng.getrandbits(8) for _ in range(rng.choice([0, 1, 2, 3, 10, 57, 58, 100])))
    if k < 0.90:
        return D.date(rng.randrange(1, 10000), rng.randrange(1, 13), rng.randrange(1, 29))
    us = rng.choice([0, 0, 1, 100000, 999999, rng.randrange(10 ** 6)])
    dt = D.datetime(rng.randrange(2, 9999), rng.randrange(1, 13), rng.randrange(1, 29), rng.randrange(24), rng.randrange(60), rng.randrange(60), us)
    r = rng.random()
    if r < 0.5:
        return dt
    if r < 0.94:
        return dt.replace(tzinfo=tz_of_shape(rng, rng.choice(['utc'] + sorted(TZ_MINUTES)), free=True))
    return dt.replace(tzinfo=TZ(TD(seconds=rng.choice([1, -1, 19 * 60 + 32, rng.randrange(-86399, 86400)]), microseconds=rng.choice([0, 0, 500000]))))


def _keyable(pool, rng):
    """a hashable value: scalar, or one of the date objects already in the graph (shared)"""
    dates = [o for o in pool if type(o) in (D.date, D.datetime)]
    if dates and rng.random() < 0.15:
        return rng.choice(dates)
    return random_scalar(rng, key=True)


def _key_ok(container_keys, k):
    """keys of one dict / members of one set must be pairwise different, and different in the projection (at most
    one NaN, no 1 / True / 1.0 collisions which Python itself would merge)"""
    if k != k:
        if any(x != x for x in container_keys):
            return False
        return True
    try:
        return k not in container_keys
    except TypeError:
        return False


def random_value(rng, max_nodes=60, homog=0.0):
    """a random value of the safe universe with sharing and cycles; size (number of nodes) up to max_nodes;
    with probability homog a dict / set gets mutually comparable keys of one kind"""
    budget = [rng.choice([3, 6, 12, 25, 40, max_nodes])]
    pool = []          # identity-bearing objects created so far (containers, date objects)
    open_containers = []

    def make(depth):
        budget[0] -= 1
        r = rng.random()
        if pool and r < 0.12:
            return rng.choice(pool)                       # sharing (or a cycle, if the object is still open)
        if budget[0] <= 0 or depth > 7 or r < 0.45:
            x = random_scalar(rng)
            if type(x) in (D.date, D.datetime):
                pool.append(x)
            return x
        kind = rng.choice(['list', 'list', 'dict', 'dict', 'set'])
        n = rng.choice([0, 1, 2, 3, 5, 8])
        hk = None
        if kind != 'list' and rng.random() < homog:
            hk = homogeneous_keys(rng, rng.choice(['num', 'str', 'str', 'bytes', 'date', 'dtn', 'dta']), n)
        if kind == 'list':
            x = []
            pool.append(x)
            for _ in range(n):
                if budget[0] <= 0:
                    break
                x.append(make(depth + 1))
        elif kind == 'dict':
            x = {}
            pool.append(x)
            for j in range(n):
                if budget[0] <= 0:
                    break
                if hk is not None:
                    if j >= len(hk):
                        break
                    k = hk[j]
                else:
                    k = _keyable(pool, rng)
                if type(k) in (D.date, D.datetime) and not any(k is o for o in pool):
                    pool.append(k)
                if not _key_ok(x, k):
                    continue
                budget[0] -= 1
                x[k] = make(depth + 1)
        else:
            x = set()
            pool.append(x)
            for j in range(n):
                if hk is not None:
                    if j >= len(hk):
                        break
                    k = hk[j]
                else:
                    k = _keyable(pool, rng)
                if type(k) in (D.date, D.datetime) and not any(k is o for o in pool):
                    pool.append(k)
                if not _key_ok(x, k):
                    continue
                budget[0] -= 1
                x.add(k)
        return x
    v = make(0)
    return v


def prose(rng):
    """words separated by single spaces, with breaks, more-indented lines, and the characters the emitter must escape:
    the strings whose folding depends on width, indentation and style"""
    n = rng.choice([2, 5, 12, 30])
    parts = []
    for i in range(n):
        parts.append(rng.choice(['a', 'bb', 'word', 'longerword', 'x', '\xe9t\xe9', 'q"q', 'b\\s', "it's", '\x85', '\u2028', '\x07', 'tab\t', '"', '\\',
                                 '\U0001F600', 'z' * rng.choice([1, 7, 25])]))
        r = rng.random()
        parts.append('\n' if r < 0.10 else '\n ' if r < 0.20 else '\n\n' if r < 0.23 else '  ' if r < 0.27 else ' ')
    s = ''.join(parts)
    r = rng.random()
    return s.rstrip(' \n') if r < 0.6 else ' ' + s if r < 0.8 else s


def random_case(rng, homog=0.0):
    """(value, options) of the random driver: two thirds general values under a point of the full option product, one third
    string-focused: prose strings nested 0-4 levels deep (so that the indentation can exceed the width), small widths"""
    if rng.random() < 0.35:
        value = [prose(rng) for _ in range(rng.choice([1, 1, 2, 3]))]
        if len(value) == 1 and rng.random() < 0.5:
            value = value[0]
        for _ in range(rng.choice([0, 0, 1, 2, 3, 4])):
            value = [value] if rng.random() < 0.6 else {rng.choice(['k', 'key', prose(rng)[:12]]): value}
        opts = {'default_style': rng.choice(STYLES), 'width': rng.choice([None, 5, 10, 20, 40]), 'indent': rng.choice(INDENTS),
                'allow_unicode': rng.choice(TRI), 'default_flow_style': rng.choice(FLOWS), 'sort_keys': rng.choice([True, False]),
                'canonical': rng.choice([None, None, None, True]), 'line_break': rng.choice(LINE_BREAKS)}
        return value, opts
    value = random_value(rng, homog=homog)
    opts = random_options(rng)
    if rng.random() < 0.2:
        opts = {'sort_keys': opts['sort_keys'], 'default_style': opts['default_style'], 'width': opts['width'],
                'allow_unicode': opts['allow_unicode']}
    return value, opts


def homogeneous_keys(rng, kind, n):
    """n mutually comparable keys of one kind (for the sort_keys clauses)"""
    out = []
    tries = 0
    while len(out) < n and tries < 10 * n + 10:
        tries += 1
        if kind == 'num':
            k = rng.choice([rng.randrange(-1000, 1000), rng.uniform(-50, 50), True, False, 2 ** 70, float('inf'), float('-inf'), -0.0, 10, 9, 100])
        elif kind == 'str':
            k = random_string(rng)
        elif kind == 'bytes':
            k = bytes(rng.getrandbits(8) for _ in range(rng.choice([0, 1, 2, 5])))
        elif kind == 'date':
            k = D.date(rng.randrange(1, 10000), rng.randrange(1, 13), rng.randrange(1, 29))
        elif kind == 'dtn':
            k = D.datetime(rng.randrange(2, 9999), rng.randrange(1, 13), rng.randrange(1, 29), rng.randrange(24), rng.randrange(60), rng.randrange(60), rng.choice([0, 5]))
        else:
            k = D.datetime(rng.randrange(2, 9999), rng.randrange(1, 13), rng.randrange(1, 29), rng.randrange(24), 0, 0, tzinfo=TZ(TD(minutes=rng.choice([0, 60, -330, 840]))))
        if _key_ok(out, k) and k == k:
            out.append(k)
    return out


# ------------------------------------------------------------------------------------------------ systematic string grid
# strings whose first / last lines are what the block-scalar header (indentation indicator, chomping) and the quoted
# writers must get right: {leading break(s), leading space(s) / tab, both orders} x {plain, inner spaces, inner
# more-indented line, inner empty line, long line, long lines with space runs of length 1-3} x {trailing break(s), trailing space, both orders}
GRID_LEADS = ['', '\n', '\n\n', ' ', '  ', '\n ', '\n\n  ', ' \n', ' \n ', '\t', '\n\t']
GRID_BODIES = ['abc', 'a b', 'abc\n def', 'a\n  more indented line\nb', 'a\n\nb', 'a b c d e f g h i j k l m n o p',
               # long lines whose inner space runs have length 1, 2 and 3 (a fold must not change the run it falls on)
               'aaaa bbbb  cccc   dddd  eeee ffff', 'aa  bb   cc  dd   ee  ff   gg  hh']
GRID_TRAILS = ['', '\n', '\n\n', ' ', ' \n', '\n ']
GRID = [l + b + t for l in GRID_LEADS for b in GRID_BODIES for t in GRID_TRAILS]
# the contexts a scalar can be written in: root, block sequence entry, mapping value, mapping key (simple-key context),
# nested three levels (larger indentation), sequence entry inside a mapping
GRID_CONTEXTS = [lambda s: s, lambda s: [s], lambda s: {'k': s}, lambda s: {s: 1}, lambda s: [[[s]]], lambda s: {'k': [s, 'x']}]
GRID_OPTIONS = [{}, {'default_flow_style': True}, {'width': 10, 'indent': 4}]
# the grid strings are also representatives of the class s_multi of the model (as keys: those that sort below '.')
REPS['s_multi'] = REPS['s_multi'] + [g for g in GRID if g not in REPS['s_multi']]
KEYREPS['s_multi'] = KEYREPS['s_multi'] + [g for g in GRID if g[0] in ' \n\t' and g not in KEYREPS['s_multi']]


def grid_cases(i):
    """every (context, style, option set) for grid string i -> [(recipe, value, opts)]"""
    out = []
    for ci, ctx in enumerate(GRID_CONTEXTS):
        for st in STYLES:
            for oi, o in enumerate(GRID_OPTIONS):
                opts = dict(o, default_style=st, sort_keys=False)
                out.append(({'kind': 'grid', 'string': i, 'context': ci}, ctx(GRID[i]), opts))
    return out


# ------------------------------------------------------------------------------------------------ strings in contexts
# concretisation of the states of spec/StrContext.tla: text = code points; ctx = [path, sib]; opts = [flow, style]
STR_STYLE = {'': None, 'sq': "'", 'dq': '"', 'lit': '|', 'fold': '>'}
STR_FLOW = {'T': True, 'F': False, 'N': None}
STYLE_OF_CHAR = {"'": 'sq', '"': 'dq', '|': 'lit', '>': 'fold'}


def strctx_value(cps, path, sib):
    """the text at the end of the path (outermost step first); the innermost container has a second entry after /
    before the text's own when sib says so.  Neighbours are 'a', 'z', 'k', 'v' (not in the alphabet of the model)."""
    s = ''.join(map(chr, cps))
    if not path:
        return s
    last = path[-1]
    if last == 'item':
        x = {'none': [s], 'after': [s, 'z'], 'before': ['a', s]}[sib]
    elif last == 'key':
        x = {'none': {s: 'v'}, 'after': {s: 'v', 'z': 'v'}, 'before': {'a': 'v', s: 'v'}}[sib]
    else:
        x = {'none': {'k': s}, 'after': {'k': s, 'z': 'v'}, 'before': {'a': 'v', 'k': s}}[sib]
    for step in reversed(path[:-1]):
        x = [x] if step == 'item' else {'k': x}
    return x


def strctx_opts(o):
    return {'default_flow_style': STR_FLOW[o['flow']], 'default_style': STR_STYLE[o['style']], 'sort_keys': False}


def strctx_real_style(text, pre):
    """how the real emitter wrote the scalar that starts after `pre` (None when the layout is not the model's)"""
    if not isinstance(text, str) or not text.startswith(pre):
        return None
    return STYLE_OF_CHAR.get(text[len(pre):len(pre) + 1], 'plain')


def strctx_parsed_style(yaml, text, path, sib):
    """the style of the scalar event that carries the text of the state (located by its place), from re-parsing"""
    idx = sum(1 for step in path[:-1] if step == 'value')
    if path:
        idx += {'item': 0, 'key': 0, 'value': 1}[path[-1]]
        if sib == 'before':
            idx += 1 if path[-1] == 'item' else 2
    try:
        evs = [ev for ev in yaml.parse(text, Loader=yaml.SafeLoader) if isinstance(ev, yaml.ScalarEvent)]
    except Exception:
        return None
    if idx >= len(evs):
        return None
    return STYLE_OF_CHAR.get(evs[idx].style, 'plain')


# ------------------------------------------------------------------------------------------------ recipes, variants (C16)
def rebuild(rec):
    """recipe -> (value, opts): deterministic, also across interpreters with different hash seeds"""
    if rec['kind'] == 'state':
        value = build_value(rec['heap'], rec['root'], random.Random(rec['rseed']))
    elif rec['kind'] == 'strctx':
        value = strctx_value(rec['text'], rec['path'], rec['sib'])
    elif rec['kind'] == 'grid':
        value = GRID_CONTEXTS[rec['context']](GRID[rec['string']])
    else:
        rng = random.Random('%d/%d' % (rec['seed'], rec['index']))
        value, _ = random_case(rng, homog=rec.get('homog', 0.0))
    return value, opts_from_json(rec['opts'])


def permute(value, variant, seed):
    """the same contents with another insertion order: 0 as built, 1 every dict / set filled in reverse, 2 shuffled.
    Sharing and cycles are kept; keys (scalars, date objects) are the same objects."""
    if variant == 0:
        return value
    rng = random.Random(seed)
    memo = {}

    def reorder(items):
        if variant == 1:
            return items[::-1]
        rng.shuffle(items)
        return items

    def go(x):
        t = type(x)
        if t in (list, dict, set) and id(x) in memo:
            return memo[id(x)]
        if t is list:
            y = memo[id(x)] = []
            y.extend(go(z) for z in x)
            return y
        if t is dict:
            y = memo[id(x)] = {}
            for k, v in reorder(list(x.items())):
                y[k] = go(v)
            return y
        if t is set:
            y = memo[id(x)] = set()
            for k in reorder(list(x)):
                y.add(k)
            return y
        return x
    return go(value)


def tdigest(text):
    if isinstance(text, str):
        text = text.encode('utf-8', 'surrogatepass')
    return hashlib.sha1(text).hexdigest()[:16]


def anchor_names(yaml, text):
    """per document of the text: the anchor / alias names in event order"""
    docs = []
    for ev in yaml.parse(text, Loader=yaml.SafeLoader):
        n = type(ev).__name__
        if n == 'DocumentStartEvent':
            docs.append([])
        elif n in ('AliasEvent', 'ScalarEvent', 'SequenceStartEvent', 'MappingStartEvent') and ev.anchor is not None:
            docs[-1].append(('*' if n == 'AliasEvent' else '&') + ev.anchor)
    return docs


def key_orders(yaml, value, text, back):
    """for the dicts of the value in order of first visit: key digests in insertion order; for the mappings of the
    document (no !!set) in order of appearance: key digests as written; for the dicts of the loaded value: as loaded"""
    def walk(v):
        seen, out = set(), []

        def go(x):
            t = type(x)
            if t in (list, dict, set):
                if id(x) in seen:
                    return
                seen.add(id(x))
                if t is dict:
                    out.append(['%s:%s' % label(k) for k in x])
                    for k, y in x.items():
                        go(y)
                elif t is list:
                    for y in x:
                        go(y)
        go(v)
        return out
    doc = []
    try:
        node = yaml.compose(text, Loader=yaml.SafeLoader)
        seen = set()
        tmp = yaml.SafeLoader('')

        def gon(n):
            if id(n) in seen:
                return
            seen.add(id(n))
            if isinstance(n, yaml.MappingNode):
                if n.tag.endswith(':map'):
                    keys = []
                    for k, v in n.value:
                        try:
                            keys.append('%s:%s' % label(tmp.construct_object(k, deep=True)))
                        except Exception as e:
                            keys.append('error:' + type(e).__name__)
                    doc.append(keys)
                for k, v in n.value:
                    gon(v)
            elif isinstance(n, yaml.SequenceNode):
                for x in n.value:
                    gon(x)
        gon(node)
        tmp.dispose()
    except Exception as e:
        doc = [['error:' + type(e).__name__]]
    return {'ins': walk(value), 'doc': doc, 'load': walk(back)}


# ------------------------------------------------------------------------------------------------ TLC judging, in parallel
_v = re.compile(r'<<"VERDICT", (\d+), (TRUE|FALSE), "([^"]*)", (-?\d+)>>')


def judge_parallel(module, traces, tag, chunk=12000, concurrent=12, timeout=3000, prefix='[', suffix=']', render=None):
    """like harness.trace.judge, but the batch is cut into chunks that are judged by concurrently running TLC
    processes (evaluation of the initial states is single-threaded in TLC, and a very large JSON file is slow to
    deserialize).  traces: dicts or JSON texts of the records; render(part) may produce the file text instead.
    returns (verdicts, states): verdicts[i] = (ok, why, at)"""
    from concurrent.futures import ThreadPoolExecutor
    n = len(traces)
    verdicts = [None] * n
    if n == 0:
        return verdicts, 0
    nchunks = (n + chunk - 1) // chunk
    bounds = [(n * i // nchunks, n * (i + 1) // nchunks) for i in range(nchunks)]
    d = ensure_dir(os.path.join(BUILD, 'traces'))

    def run(i):
        a, b = bounds[i]
        path = os.path.join(d, '%s_%d.json' % (tag, i))
        with open(path, 'w') as f:
            if render:
                f.write(render(traces[a:b]))
            else:
                f.write('[' + ','.join(t if isinstance(t, str) else json.dumps(t) for t in traces[a:b]) + ']')
        r = tlc.run(module, tag='%s_%d' % (tag, i), env={'TRACE_FILE': path}, coverage=False, timeout=timeout, workers=2, heap='3g')
        os.remove(path)
        return r
    with ThreadPoolExecutor(concurrent) as ex:
        results = list(ex.map(run, range(nchunks)))
    states = 0
    for i, r in enumerate(results):
        if r is None or not r.ok:
            print((r.out if r else '')[-3000:])
            raise SystemExit('machinery failure: trace validation run of %s failed' % module)
        states += r.distinct
        a, b = bounds[i]
        for m in _v.finditer(r.out):
            verdicts[a + int(m.group(1)) - 1] = (m.group(2) == 'TRUE', m.group(3), int(m.group(4)))
    missing = [i for i, x in enumerate(verdicts) if x is None]
    if missing:
        raise SystemExit('machinery failure: no verdict for %d traces (first %s)' % (len(missing), missing[:3]))
    return verdicts, states
