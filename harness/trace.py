"""Batched trace validation: write traces as JSON arrays, let TLC judge every trace with a Trace_*.tla module,
collect one verdict per trace from the PrintT lines  <<"VERDICT", tid, ok, why, at>>.

A Trace_* module judges a trace in the (single) initial state that carries its id, and TLC enumerates initial states on one
thread; so a batch is split into up to `par` parts that are judged by as many TLC processes side by side (one worker each)."""
import json, os, re, threading
from concurrent.futures import ThreadPoolExecutor
from . import tlc
from .common import BUILD, ensure_dir

_v = re.compile(r'<<"VERDICT", (\d+), (TRUE|FALSE), "([^"]*)", (-?\d+)>>')
PAR = int(os.environ.get('VERIF_TRACE_PAR', '16'))
_slots = threading.BoundedSemaphore(PAR)          # callers may judge several batches from their own threads


def _weight(t):
    try:
        return 1 + sum(len(x) for x in t.values() if isinstance(x, (list, str)))
    except AttributeError:
        return 1


def judge(module, traces, tag, batch=20000, timeout=1800, par=None):
    """returns (verdicts, states): verdicts[i] = (ok, why, at) for traces[i]"""
    par = par or PAR
    verdicts = [None] * len(traces)
    d = ensure_dir(os.path.join(BUILD, 'traces'))
    # parts of roughly equal weight (longest first, greedy), at most `batch` traces each
    nparts = max(1, min(par, len(traces) // 40 + 1), -(-len(traces) // batch))
    order = sorted(range(len(traces)), key=lambda i: -_weight(traces[i]))
    parts, load = [[] for _ in range(nparts)], [0] * nparts
    for i in order:
        k = load.index(min(load))
        parts[k].append(i)
        load[k] += _weight(traces[i])
    parts = [sorted(p) for p in parts if p]

    def one(k):
        idx = parts[k]
        path = os.path.join(d, '%s_%d.json' % (tag, k))
        json.dump([traces[i] for i in idx], open(path, 'w'))
        with _slots:
            r = tlc.run(module, tag='%s_%d' % (tag, k), env={'TRACE_FILE': path}, coverage=False, timeout=timeout,
                        workers=1 if len(parts) > 1 else 16, heap='3g' if len(parts) > 1 else '8g')
        if not r.ok:
            print(r.out[-3000:])
            raise SystemExit('machinery failure: trace validation run of %s failed' % module)
        for m in _v.finditer(r.out):
            verdicts[idx[int(m.group(1)) - 1]] = (m.group(2) == 'TRUE', m.group(3), int(m.group(4)))
        os.remove(path)
        return r.distinct

    with ThreadPoolExecutor(max_workers=min(par, len(parts))) as ex:
        states = sum(ex.map(one, range(len(parts))))
    missing = [i for i, x in enumerate(verdicts) if x is None]
    if missing:
        raise SystemExit('machinery failure: no verdict for %d traces (first %s)' % (len(missing), missing[:3]))
    return verdicts, states
