"""Batched trace validation: write traces as one JSON array, let TLC judge every trace with a Trace_*.tla module,
collect one verdict per trace from the PrintT lines  <<"VERDICT", tid, ok, why, at>>."""
import json, os, re
from . import tlc
from .common import BUILD, ensure_dir

_v = re.compile(r'<<"VERDICT", (\d+), (TRUE|FALSE), "([^"]*)", (-?\d+)>>')


def judge(module, traces, tag, batch=20000, timeout=1800):
    """returns (verdicts, states): verdicts[i] = (ok, why, at) for traces[i]"""
    verdicts = [None] * len(traces)
    states = 0
    d = ensure_dir(os.path.join(BUILD, 'traces'))
    for b0 in range(0, len(traces), batch):
        part = traces[b0:b0 + batch]
        path = os.path.join(d, '%s_%d.json' % (tag, b0))
        json.dump(part, open(path, 'w'))
        r = tlc.run(module, tag='%s_%d' % (tag, b0), env={'TRACE_FILE': path}, coverage=False, timeout=timeout)
        if not r.ok:
            print(r.out[-3000:])
            raise SystemExit('machinery failure: trace validation run of %s failed' % module)
        states += r.distinct
        for m in _v.finditer(r.out):
            verdicts[b0 + int(m.group(1)) - 1] = (m.group(2) == 'TRUE', m.group(3), int(m.group(4)))
        os.remove(path)
    missing = [i for i, x in enumerate(verdicts) if x is None]
    if missing:
        raise SystemExit('machinery failure: no verdict for %d traces (first %s)' % (len(missing), missing[:3]))
    return verdicts, states
