"""C10, path resolvers: spec/PathResolver.tla enumerates (registered resolver, document prefix) pairs and says for the node
created last whether the resolver applies (htag: documented meaning, ltag: resolver.py's stacks); every such state is
replayed: the resolver is registered on a fresh subclass of a loader, the document is composed, the node's tag is compared."""
import os
from . import tlc, mbt
from .common import use_repo

NC = {'any': None, 'q': list, 'm': dict}
IC = {'None': None, 'True': True, 'False': False, 'a': 'a', 'b': 'b', '0': 0, '1': 1}
KIND = {'any': None, 's': str, 'q': list, 'm': dict}
DEFAULT = {'S': 'tag:yaml.org,2002:str', 'Q': 'tag:yaml.org,2002:seq', 'M': 'tag:yaml.org,2002:map'}


def print_doc(evs):
    """events -> flow-style text; open collections are closed, a pending key gets the value x"""
    pos = [0]

    def node():
        e = evs[pos[0]]
        pos[0] += 1
        if e['k'] == 'S':
            return e['v']
        items = []
        if e['k'] == 'Q':
            while pos[0] < len(evs) and evs[pos[0]]['k'] != 'E':
                items.append(node())
            pos[0] += 1
            return '[' + ', '.join(items) + ']'
        while pos[0] < len(evs) and evs[pos[0]]['k'] != 'E':
            k = node()
            v = node() if pos[0] < len(evs) and evs[pos[0]]['k'] != 'E' else 'x'
            items.append('? %s : %s' % (k, v))
        pos[0] += 1
        return '{' + ', '.join(items) + '}'
    return node() + '\n'


def nodes_in_order(yaml, root):
    out = []

    def go(n):
        out.append(n)
        if isinstance(n, yaml.SequenceNode):
            for c in n.value:
                go(c)
        elif isinstance(n, yaml.MappingNode):
            for k, v in n.value:
                go(k)
                go(v)
    go(root)
    return out


def work(states, extra):
    yaml = use_repo()
    bases = [getattr(yaml, n) for n in extra['loaders']]
    cache = {}
    res = {'n': 0, 'tested': 0, 'bad': [], 'drift': 0, 'applies': 0, 'samples': []}
    for st in states:
        res['n'] += 1
        evs = st['evs']
        if not evs or evs[-1]['k'] == 'E':
            continue
        reg = st['reg']
        key = (tuple((e['nc'], e['ic']) for e in reg['path']), reg['kind'])
        text = print_doc(evs)
        idx = sum(1 for e in evs if e['k'] != 'E') - 1          # the last node event, in document order
        res['tested'] += 1
        res['applies'] += bool(st['htag'])
        for B in bases:
            L = cache.get((B, key))
            if L is None:
                L = cache[(B, key)] = type('P', (B,), {})
                L.add_path_resolver('!t', [(NC[a], IC[b]) for a, b in key[0]], KIND[key[1]])
            try:
                n = nodes_in_order(yaml, yaml.compose(text, Loader=L))[idx]
                got = n.tag
            except Exception as e:
                got = 'exception:' + type(e).__name__
            exp = '!t' if st['htag'] else DEFAULT[evs[-1]['k']]
            if got != exp:
                res['bad'].append({'doc': text, 'path': [list(x) for x in key[0]], 'kind': key[1], 'loader': B.__name__,
                                   'node': idx, 'expected': exp, 'observed': got})
            elif st['ltag'] != st['htag']:
                res['drift'] += 1
            # and the base class itself is untouched by the registration on its subclass
        if len(res['samples']) < 1 and st['htag'] and len(evs) >= 3:
            res['samples'].append({'doc': text.strip(), 'path': [list(x) for x in key[0]], 'kind': key[1], 'node': idx})
    return res


def loaders_of(tier):
    return ['SafeLoader', 'CSafeLoader'] if tier == 'quick' else ['SafeLoader', 'CSafeLoader', 'Loader', 'CLoader', 'BaseLoader']


def run_tlc(tier, workers=16):
    consts = {'MaxEvents': 5 if tier == 'quick' else 6, 'MaxDepth': 2, 'MaxPath': 2,
              'NodeChecks': '{"any", "q", "m"}', 'IndexChecks': '{"None", "True", "a", "0"}' if tier == 'quick' else '{"None", "True", "False", "a", "b", "0", "1"}',
              'KindsReg': '{"any", "s", "m"}' if tier == 'quick' else '{"any", "s", "q", "m"}'}
    r = tlc.run('PathResolver', cfg='MC_PathResolver.cfg', dump=True, tag='C10_path', timeout=3000, coverage=False,
                constants=consts, workers=workers, heap='2g' if tier == 'quick' else '4g')
    if r.violated:
        print(r.out[-3000:])
        raise SystemExit('machinery failure: PathResolver.tla violates %s (L does not refine H in the model)' % r.violated)
    tlc.require_ok(r, 'PathResolver')
    return r


def submit(pool, r, tier, chunks=48):
    """replay tasks for every part of the dump, on the caller's pool"""
    extra = {'loaders': loaders_of(tier)}
    return [pool.apply_async(mbt._run, ((work, r.dump, a, b, extra),)) for a, b in mbt.split_dump(r.dump, chunks)]


def collect(v, tier, r, out):
    loaders = loaders_of(tier)
    os.remove(r.dump)
    if sum(o['n'] for o in out) != r.distinct:
        raise SystemExit('machinery failure: path resolver dump/state count mismatch')
    tested = sum(o['tested'] for o in out)
    if not sum(o['applies'] for o in out):
        raise SystemExit('machinery failure: no state in which the path resolver applies (vacuous)')
    for o in out:
        for b in o['bad']:
            v.violation({'config': 'path-resolver', 'what': 'path semantics', 'loader': b['loader'],
                         'index_checks': sorted({str(x[1]) for x in b['path']})}, b)
    return {'states': r.distinct, 'transitions': r.generated, 'traces': tested * len(loaders),
            'samples': [s for o in out for s in o['samples']][:2], 'applies': sum(o['applies'] for o in out)}


def run(v, tier):
    import multiprocessing as mp
    r = run_tlc(tier)
    with mp.Pool(16) as pool:
        out = [a.get() for a in submit(pool, r, tier, 64)]
    return collect(v, tier, r, out)
