"""C06 - the LibYAML back-end is a drop-in replacement for the pure-Python one.

H is spec/Trace_Backends.tla (H_BackendEq): for every text of the domain, every projection (events, node graphs, objects of
load_all, single-document load) x loader pair (Base / Safe / Full / Unsafe / default) has the same outcome with both
back-ends, equal projections when both succeed and the same error class when both fail.  TLC judges every trace.

The domain is defined by the specification, not by either implementation: spec/LoadPipe.tla (Scanner.tla composed with
Parser.tla) classifies every text - "accept" and Portable - and all dumper outputs belong to it by the statement.

Corpora:  (a) every string TLC enumerates with LoadPipe over portable focus alphabets that the specification accepts,
              concretised (VERIF_SEED);
          (b) dumper outputs: seeded values x option product x Dumper / CDumper / SafeDumper / CSafeDumper, and event streams
              through emit with both emitters;
          (c) grammar-directed documents: the event streams of the accepted token sequences of Parser.tla (TLC dump), printed
              back to text by harness/drivers/docprint.py with seeded choices of styles, indicators, comments, properties,
              directives and break characters; classified by LoadPipe (FromFile);
          (d) the repository's data files, classified by LoadPipe (FromFile).
Delivery dimension (spec/StreamPlace.tla, enumerated by TLC): every text of (a)-(d) is also delivered in other forms (bytes
in UTF-8 / UTF-16, text and byte streams under read limits 1, 2, 3, ... - a seeded choice per text, limit 1 always), and
          (e) placements: every construct of StreamPlace.tla at every character / unit offset around every planned refill
              boundary of the two readers (Python 4096-unit reads, first buffer after two; LibYAML 16384), behind a padding
              that is a run of lines or one long token; the short-padded version is classified by LoadPipe.
"""
import glob, hashlib, json, os, random, zlib
from .. import tlc, trace, mbt
from ..common import Verdict, use_repo, REPO, SEED, BUILD, ensure_dir
from ..drivers import scanmodel as sm, backends as be, watchdog, streamplace as sp

# rows of FocusTable in spec/Scanner.tla used for corpus (a): portable alphabets (no TAB, no non-printables, no surrogate escapes)
FOCUSES = ['pstruct', 'pstruct8', 'pblock', 'pflow', 'pbreaks', 'pdocs', 'pdquote', 'psquote', 'pescape', 'pyamldir', 'ptagdoc', 'ptag', 'pliteral',
           'pfolded', 'pseqlit', 'pmapblock', 'panchors', 'pindic', 'pcont', 'ptagdflt', 'pindentless', 'pbom', 'pnested']
LIMIT = 240.0
PAR = max(1, int(os.environ.get('VERIF_TRACE_PAR', '16') or 16))     # cap on TLC workers and worker processes (shared box)


def tla_set(xs):
    return '{' + ', '.join('"%s"' % x for x in xs) + '}'


def digest(v):
    return hashlib.sha1(json.dumps(v, sort_keys=True, default=str).encode()).hexdigest()[:20]


def make_trace(yaml, text, dom, dumper, pairs=be.PAIRS, allow_unsafe=True, dels=()):
    """-> (trace for TLC, drift) ; projections enter the trace as digests of their canonical JSON form"""
    cs = be.cases(yaml, text, pairs, allow_unsafe) if pairs else []
    plan = ['str'] if pairs else []
    if dels:
        dc, _na = be.delivery_cases(yaml, text, dels)
        cs += dc
        for c in dc:
            if c['del'] not in plan:
                plan.append(c['del'])
    groups = {}
    for c in cs:
        py = {'o': c['py']['o'], 'cls': c['py']['cls'], 'v': digest(c['py']['v'])}
        cc = {'o': c['c']['o'], 'cls': c['c']['cls'], 'v': digest(c['c']['v'])}
        k = json.dumps([py, cc])
        if k in groups:
            groups[k]['name'] += ' ' + c['name']
            if c['del'] not in groups[k]['dels']:
                groups[k]['dels'].append(c['del'])
        else:
            groups[k] = {'name': c['name'], 'dels': [c['del']], 'py': py, 'c': cc}
    ev = next((c for c in cs if c['name'].startswith('events/')), None)
    drift = None
    if dom and ev is not None and ev['py']['o'] != 'ok':
        drift = 'specification accepts, pure-Python parser raises %s' % ev['py']['cls']
    return {'dom': bool(dom), 'dumper': bool(dumper), 'plan': plan, 'cases': list(groups.values())}, drift


def pick_dels(text, dels, extra):
    """the deliveries of one text: read limit 1 for every stream form that has it (every position of the text is a refill
    boundary), and a seeded choice of `extra` others (all of them when extra < 0)"""
    fixed = [d for d in dels if d[1] == 1 and d[0] in ('text', 's8')]
    rest = [d for d in dels if d not in fixed and d != ('str', sp.FULL)]
    if extra < 0 or extra >= len(rest):
        return fixed + rest
    rnd = random.Random(zlib.crc32(('%d|dels|%s' % (SEED, text)).encode('utf-8', 'surrogatepass')))
    return fixed + rnd.sample(rest, extra)


class Bag:
    def __init__(self):
        self.d = {}

    def add(self, tr, meta):
        k = json.dumps(tr, sort_keys=True)
        e = self.d.get(k)
        if e is None:
            self.d[k] = [1, tr, meta]
        else:
            e[0] += 1

    def merge(self, other):
        for k, e in other.items():
            x = self.d.get(k)
            if x is None:
                self.d[k] = e
            else:
                x[0] += e[0]


def _init():
    return use_repo()


# ------------------------------------------------------------------ (a) enumerated strings accepted by the specification
def replay_states(yaml, item):
    path, a, b, nrep, dels, extra = item
    bag = Bag()
    res = {'states': 0, 'classes': {}, 'texts': 0, 'drift': {}, 'ndrift': 0, 'deliveries': 0}
    for st in mbt.chunk_states(path, a, b):
        res['states'] += 1
        if not st['cls']:
            continue
        key = '%s:%s/%s' % (st['focus'], st['cls'][0], st['cls'][1])
        res['classes'][key] = res['classes'].get(key, 0) + 1
        if st['cls'] != ['accept', True]:
            continue
        syms = st['inp']
        rnd = random.Random(zlib.crc32(('%d|%s' % (SEED, ' '.join(syms))).encode()))
        for k in range(nrep):
            text, _parts = sm.concretise(syms, rnd)
            mine = pick_dels(text, dels, extra) if k == 0 else ()
            tr, drift = make_trace(yaml, text, True, False, pairs=be.PAIRS if k == 0 else be.PAIRS[1:2], dels=mine)
            res['texts'] += 1
            res['deliveries'] += len(tr['plan']) - 1
            if drift:
                res['ndrift'] += 1
                res['drift'].setdefault(drift, {'symbols': syms, 'text': text})
            bag.add(tr, {'source': 'enum/' + st['focus'], 'text': text, 'symbols': syms, 'dels': mine})
    res['bag'] = bag.d
    return res


# ------------------------------------------------------------------ (b) dumper outputs
STRS = ['', ' ', 'a', 'a b', 'multi\nline', 'trailing\n', 'two\n\n', ' lead', 'trail ', 'tab\tx', '\xe9', '\x85x', 'a\u2028b', 'a: b', '- x', '#c',
        'null', '123', '1.5', 'true', "it's", '"q"', '\U0001f600', '\x07', '\\', '---', '...', '? x', '<<', '=', '!t', '&a', '*a', '%d', '@', '`',
        'word ' * 12, ' a a a a a a a a a a', 'l1\n l2\nl3', 'a\n\n b\n', '\xe9' * 30,
        '中文', 'a\rb', 'a\r\nb', 'x\x85', '\u2029', 'k: [1, 2]', '{a}', '[', ']', ',', 'a,b', '\ufeff', 'a\ufeffb', '0x1F', '1e3',
        '.inf', '2001-01-01', '~', 'Yes', 'off', '1_000', '0o7', '+1', '\x00', 'a\x1bb', '\U0010ffff', '\xa0', 'a  b', '\t', 'x\ty']


WORDS = ['a', 'bb', 'ccc', 'dddd', '...', '---', '-', '?', ':', '#', '!x', '&a', '*a', '|', '>', '%', '@', '`', '[', ']', '{', '}', ',', "'", '"',
         'k:', '-x', '?y', '1', 'true', '~', '<<', '=', '\\']


def gen_value(rnd, safe, depth=0, pool=None):
    import datetime
    pool = [] if pool is None else pool
    x = rnd.random()
    if depth > 2 or x < 0.5:
        c = rnd.randrange(11)
        if c == 0:
            return None
        if c == 1:
            return rnd.random() < 0.5
        if c == 2:
            return rnd.choice([0, 1, -1, 255, 10 ** 20, -12345])
        if c == 3:
            return rnd.choice([1.5, -0.0, float('inf'), float('-inf'), float('nan'), 1e-7, 1e300, 3.0])
        if c == 4:
            return rnd.choice([b'', b'bin\x00\xff', b'x' * 40])
        if c == 5:
            return rnd.choice([datetime.date(2001, 1, 1), datetime.datetime(2001, 12, 14, 21, 59, 43, 100000),
                               datetime.datetime(2001, 1, 1, 0, 0, 0, tzinfo=datetime.timezone(datetime.timedelta(hours=5, minutes=30)))])
        if c >= 9:
            # a sentence of words, some of which look like indicators: every place where the emitter may fold a line
            return ' '.join(rnd.choice(WORDS) for _ in range(rnd.randrange(2, 9)))
        return rnd.choice(STRS)
    if pool and x < 0.58:
        return rnd.choice(pool)                                       # shared reference -> anchor / alias
    c = rnd.randrange(5 if safe else 7)
    n = rnd.randrange(4)
    if c in (0, 1):
        v = []
        pool.append(v)
        v.extend(gen_value(rnd, safe, depth + 1, pool) for _ in range(n))
        if rnd.random() < 0.04:
            v.append(v)                                                # recursive
        return v
    if c in (2, 3):
        v = {}
        pool.append(v)
        for _ in range(n):
            k = gen_value(rnd, safe, 3, pool)
            if not safe and rnd.random() < 0.15:
                k = (1, 'a')
            try:
                v[k] = gen_value(rnd, safe, depth + 1, pool)
            except TypeError:
                pass
        return v
    if c == 4:
        return set(rnd.choice(['a', 'b', 1, 2.5, None]) for _ in range(n))
    if c == 5:
        return tuple(gen_value(rnd, safe, depth + 1, pool) for _ in range(n))
    return rnd.choice([complex(1, 2), range(3), frozenset([1]), bytearray(b'ab')])


def gen_options(rnd):
    o = {}
    def opt(name, vals, p=0.4):
        if rnd.random() < p:
            o[name] = rnd.choice(vals)
    opt('default_flow_style', [True, False, None])
    opt('canonical', [True], 0.12)
    opt('indent', [1, 2, 3, 4, 7, 9])
    opt('width', [2, 10, 16, 20, 40, 1000])
    opt('allow_unicode', [True])
    opt('line_break', ['\r', '\r\n', '\n'], 0.3)
    opt('explicit_start', [True], 0.3)
    opt('explicit_end', [True], 0.3)
    opt('version', [(1, 1)], 0.15)
    opt('tags', [{'!e!': 'tag:example.com,2000:'}, {'!': '!local/'}], 0.15)
    opt('default_style', ['"', "'", '|', '>'], 0.35)
    opt('sort_keys', [False], 0.3)
    return o


ENC_FORM = {'utf-8': 'b8', 'utf-16-le': 'b16le', 'utf-16-be': 'b16be'}


def dumper_texts(yaml, rnd, n):
    """-> [(text, source)] written by the four dumpers; values that a dumper refuses are skipped.  With the encoding option a
    dumper writes bytes (UTF-16 with a byte order mark): the text is their decoding, and the source names the byte form in
    which the loaders must (also) be given it - exactly the bytes the dumper wrote."""
    out = []
    for j in range(n):
        safe = j % 2 == 0
        vals = [gen_value(rnd, safe) for _ in range(rnd.choice([1, 1, 1, 2, 3]))]
        opts = gen_options(rnd)
        enc = rnd.choice([None, None, None, 'utf-8', 'utf-16-le', 'utf-16-be'])
        for D in (('SafeDumper', 'CSafeDumper') if safe else ('Dumper', 'CDumper')):
            try:
                t = yaml.dump_all(vals, Dumper=getattr(yaml, D), encoding=enc, **opts)
                if enc:
                    raw, t = t, t.decode(enc)
                    if sp.encode(t, ENC_FORM[enc]) != raw:
                        raise SystemExit('machinery failure: the %s form of a decoded dumper output is not what the dumper wrote' % ENC_FORM[enc])
            except Exception:             # noqa  (what the dumpers refuse is the business of C02 / C15)
                continue
            out.append((t, 'dump/' + D + ('/' + ENC_FORM[enc] if enc else '')))
    return out


def docprint_structure(rnd):
    from ..drivers import docprint
    return docprint.random_structure(rnd)


def event_texts(yaml, rnd, kindseqs, n):
    """event streams with the structures Parser.tla generates, through both emitters"""
    from yaml import events as E
    out = []
    for j in range(n):
        kinds = rnd.choice(kindseqs) if j % 2 else docprint_structure(rnd)
        evs, anchors = [], []
        for k in kinds:
            anchor = None
            if k in ('Scalar', 'SequenceStart', 'MappingStart') and rnd.random() < 0.15:
                anchor = rnd.choice(['a', 'b', 'c'])
                anchors.append(anchor)
            tag = rnd.choice([None, None, None, 'tag:yaml.org,2002:str', '!local', 'tag:yaml.org,2002:int', '!'])
            if k == 'StreamStart':
                evs.append(E.StreamStartEvent())
            elif k == 'StreamEnd':
                evs.append(E.StreamEndEvent())
            elif k == 'DocumentStart':
                anchors = []
                evs.append(E.DocumentStartEvent(explicit=rnd.random() < 0.4, version=rnd.choice([None, None, (1, 1)]),
                                                tags=rnd.choice([None, None, {'!e!': 'tag:e,2000:'}])))
            elif k == 'DocumentEnd':
                evs.append(E.DocumentEndEvent(explicit=rnd.random() < 0.3))
            elif k == 'Alias':
                if anchors:
                    evs.append(E.AliasEvent(rnd.choice(anchors)))
                else:
                    evs.append(E.ScalarEvent(None, None, (True, True), 'noalias'))
            elif k == 'Scalar':
                val = rnd.choice(STRS)
                evs.append(E.ScalarEvent(anchor, tag, rnd.choice([(True, True), (True, False), (False, True), (False, False)]) if tag else (True, True),
                                         val, style=rnd.choice([None, '', "'", '"', '|', '>'])))
            elif k == 'SequenceStart':
                evs.append(E.SequenceStartEvent(anchor, tag, tag is None or rnd.random() < 0.5, flow_style=rnd.choice([None, True, False])))
            elif k == 'MappingStart':
                evs.append(E.MappingStartEvent(anchor, tag, tag is None or rnd.random() < 0.5, flow_style=rnd.choice([None, True, False])))
            elif k == 'SequenceEnd':
                evs.append(E.SequenceEndEvent())
            elif k == 'MappingEnd':
                evs.append(E.MappingEndEvent())
        opts = {kk: vv for kk, vv in gen_options(rnd).items() if kk in ('canonical', 'indent', 'width', 'allow_unicode', 'line_break')}
        for D in ('Dumper', 'CDumper'):
            try:
                t = yaml.emit(evs, Dumper=getattr(yaml, D), **opts)
            except Exception:             # noqa
                continue
            if isinstance(t, str):
                out.append((t, 'emit/' + D))
    return out


# ------------------------------------------------------------------ (c) structures generated by TLC from Parser.tla
def kinds_work(states, extra):
    seqs = set()
    for st in states:
        if st['st'] == 'done':
            seqs.add(tuple(e[0] for e in st['out']))
    return seqs


STRUCT_TOK = ["DS", "DE", "BSS", "BMS", "BEND", "FSS", "FMS", "FSE", "FME", "BENTRY", "FENTRY", "KEY", "VALUE", "ALIAS", "SCALAR"]


def parser_structures(tier):
    """document structures = event streams of all token sequences (<= 5 / 7 structural tokens) that Parser.tla accepts"""
    r = tlc.run('Parser', workers=PAR, cfg='MC_Parser.cfg', tag='C06_struct', dump=True, timeout=3000, coverage=False,
                constants={'MaxTokens': 5 if tier == 'quick' else 7, 'Tok': tla_set(STRUCT_TOK), 'History': 'TRUE'})
    tlc.require_ok(r, 'Parser.tla structures')
    seqs = set()
    for s in mbt.pmap(kinds_work, r.dump, procs=PAR):
        seqs |= s
    os.remove(r.dump)
    return sorted(seqs), r


# ------------------------------------------------------------------ domain classification of given texts by LoadPipe (FromFile)
def classify(texts, tag):
    """-> [(verdict, portable)] decided by TLC on the abstracted texts (a list of symbols is taken as it is)"""
    import re
    out = [None] * len(texts)
    states = 0
    d = ensure_dir(os.path.join(BUILD, 'traces'))
    B = 4000
    for b0 in range(0, len(texts), B):
        part = [sm.abstract(t) if isinstance(t, str) else list(t) for t in texts[b0:b0 + B]]
        path = os.path.join(d, '%s_%d.json' % (tag, b0))
        json.dump(part, open(path, 'w'))
        r = tlc.run('LoadPipe', workers=PAR, cfg='MC_LoadPipe_file.cfg', tag='%s_%d' % (tag, b0), env={'TRACE_FILE': path}, coverage=False, timeout=3000)
        if not r.ok:
            print(r.out[-3000:])
            raise SystemExit('machinery failure: LoadPipe classification run failed')
        states += r.distinct
        for m in re.finditer(r'<<"DOMAIN", (\d+), "(\w+)", (TRUE|FALSE)>>', r.out):
            out[b0 + int(m.group(1)) - 1] = (m.group(2), m.group(3) == 'TRUE')
        os.remove(path)
    if any(x is None for x in out):
        raise SystemExit('machinery failure: %d texts without a classification' % sum(x is None for x in out))
    return out, states


def trace_work(yaml, chunk):
    bag = Bag()
    drift = {}
    nd = 0
    for text, dom, dumper, source, dels in chunk:
        unsafe_ok = 'python' not in text
        tr, dr = make_trace(yaml, text, dom, dumper, allow_unsafe=unsafe_ok, dels=dels)
        nd += len(tr['plan']) - 1
        if dr:
            drift.setdefault(dr, {'text': text[:200], 'source': source})
        bag.add(tr, {'source': source, 'text': text, 'dels': dels})
    return {'bag': bag.d, 'drift': drift, 'n': len(chunk), 'deliveries': nd}


# ------------------------------------------------------------------ (e) the delivery dimension: spec/StreamPlace.tla
PLACE_CONST = {
    'quick': {'SmallSteps': '{1, 2, 3, 5, 7}', 'PlaceSteps': '{64, 1000}', 'PyRefills': 1, 'CRefills': 1, 'MaxUnits': 17000,
              'FullForms': '{"text", "s8"}'},
    'thorough': {'SmallSteps': '{1, 2, 3, 4, 5, 7, 8, 13}', 'PlaceSteps': '{64, 1000, 4095}', 'PyRefills': 3, 'CRefills': 2, 'MaxUnits': 33000,
                 'FullForms': '{"text", "s8", "s16le"}'},
}


def stream_plan(tier):
    """TLC enumerates StreamPlace.tla -> (deliveries [(form, step)], refill model {(be, form, step): [positions]}, placements, r)"""
    for s_, w in sp.WD.items():
        if sm.WIDTH.get(s_) != w:
            raise SystemExit('machinery failure: Wd(%s) of StreamPlace.tla differs from the concretisation table' % s_)
    r = tlc.run('StreamPlace', workers=PAR, cfg='MC_StreamPlace.cfg', tag='C06_place', dump=True, coverage=True, timeout=3000, constants=PLACE_CONST[tier])
    if r.violated or not r.ok:
        print(r.out[-3000:])
        raise SystemExit('machinery failure: StreamPlace.tla: %s' % (r.violated or r.rc))
    for a in ('Init', 'Read', 'Place'):
        if not r.actions.get(a, [0])[0]:
            raise SystemExit('machinery failure: StreamPlace.tla: action %s never fires' % a)
    dels, model, places = [], {}, {}
    n = 0
    for a, b in mbt.split_dump(r.dump, 1):
        for st in mbt.chunk_states(r.dump, a, b):
            n += 1
            if st['ph'] == 'deliver':
                if (st['form'], st['step']) not in dels:
                    dels.append((st['form'], st['step']))
            elif st['ph'] == 'refill':
                model.setdefault((st['be'], st['form'], st['step']), {})[st['reads']] = st['pos']
            else:
                # the same document for both readers when a position is a boundary of both
                k = (st['ctx'], tuple(st['con']), st['form'], st['step'], st['pos'], st['off'], st['mid'])
                places.setdefault(k, st)
    if n != r.distinct:
        raise SystemExit('machinery failure: StreamPlace dump/state count mismatch')
    os.remove(r.dump)
    return sorted(dels), model, [places[k] for k in sorted(places)], r


NVARIANT = {'quick': 2, 'thorough': 5}            # seeded concretisations per construct


def realise_all(places, nvar):
    """-> (docs [(realised placement)], skipped {reason: n})"""
    docs, skipped = [], {}
    for st in places:
        variant = zlib.crc32(('%d|%s' % (SEED, json.dumps([st[k] for k in ('ctx', 'con', 'form', 'step', 'pos', 'off', 'mid')]))).encode()) % nvar
        d = sp.realise(st, variant, SEED)
        if 'skip' in d:
            skipped[d['skip']] = skipped.get(d['skip'], 0) + 1
        else:
            d['off'], d['mid'] = st['off'], st['mid']
            docs.append(d)
    return docs, skipped


def place_work(yaml, chunk):
    bag = Bag()
    logs = []
    for d, dom in chunk:
        tr, _ = make_trace(yaml, d['text'], dom, False, pairs=(), dels=[(d['form'], d['step'])])
        bag.add(tr, {'source': 'place/%s@%s+%d.%d' % (d['ctx'], d['pos'], d['off'], d['mid']), 'text': d['text'],
                     'dels': [(d['form'], d['step'])], 'short': d['short']})
        if d.get('log'):
            for b_, loader in (('py', 'BaseLoader'), ('c', 'CBaseLoader')):
                logs.append((b_, d['form'], d['step'], len(sp.encode(d['text'], d['form'])), be.read_log(yaml, d['text'], d['form'], d['step'], loader)))
    return {'bag': bag.d, 'n': len(chunk), 'logs': logs}


def refill_drift(model, logs):
    """the read positions StreamPlace.tla predicts against the read() calls the real readers made -> [drift descriptions]"""
    out = []
    req = {b_: min(p[1] for (bb, _f, s_), p in model.items() if bb == b_ and s_ >= sp.FULL and 1 in p) for b_ in ('py', 'c')
           if any(bb == b_ and s_ >= sp.FULL for (bb, _f, s_) in model)}
    nchecked = 0
    for b_, form, step, total, log in logs:
        pred = model.get((b_, form, step))
        if not pred:
            continue
        nchecked += 1
        for k, pos in sorted(pred.items()):
            if pos <= total and (len(log) < k or log[k - 1][2] != pos):
                out.append('%s reader, %s, read limit %s: read %d ends at %s, the model says %d'
                           % (b_, form, step, k, log[k - 1][2] if len(log) >= k else 'nothing', pos))
                break
        if b_ in req and log and log[0][0] != req[b_]:
            out.append('%s reader asks for %s units, the model says %d' % (b_, log[0][0], req[b_]))
    return sorted(set(out)), nchecked


_T = {}


def _lap(name, t0):
    import time
    _T[name] = round(_T.get(name, 0) + time.time() - t0, 1)
    return time.time()


def judge_backends(traces, tag, batch=20000):
    """TLC judges every trace with Trace_Backends.tla -> (bad, states): bad = [(trace index, case index, why)]"""
    import re
    bad, seen, states = [], set(), 0
    d = ensure_dir(os.path.join(BUILD, 'traces'))
    for b0 in range(0, len(traces), batch):
        path = os.path.join(d, '%s_%d.json' % (tag, b0))
        json.dump(traces[b0:b0 + batch], open(path, 'w'))
        r = tlc.run('Trace_Backends', workers=PAR, tag='%s_%d' % (tag, b0), env={'TRACE_FILE': path}, coverage=False, timeout=3000)
        if not r.ok:
            print(r.out[-3000:])
            raise SystemExit('machinery failure: trace validation run of Trace_Backends failed')
        states += r.distinct
        for m in re.finditer(r'<<"VERDICT", (\d+), (TRUE|FALSE), "-", 0>>', r.out):
            seen.add(b0 + int(m.group(1)) - 1)
        for m in re.finditer(r'<<"BAD", (\d+), (\d+), "([^"]*)">>', r.out):
            bad.append((b0 + int(m.group(1)) - 1, int(m.group(2)), m.group(3)))
        if '"UNMET"' in r.out:
            raise SystemExit('machinery failure: a planned delivery of a trace was not observed (PlanMet of Trace_Backends.tla)')
        os.remove(path)
    if len(seen) != len(traces):
        raise SystemExit('machinery failure: no verdict for %d traces' % (len(traces) - len(seen)))
    return sorted(set(bad)), states


def main(tier, replay=None):
    import time
    t0 = time.time()
    v = Verdict('C06', tier)
    yaml = use_repo()
    states = trans = 0
    cov = {}
    bag = Bag()
    tot = {'texts': 0, 'ndrift': 0, 'deliveries': 0}
    classes, drift = {}, {}
    nrep = 1 if tier == 'quick' else 2
    # the delivery dimension: deliveries, the refill model and the placements, enumerated by TLC from StreamPlace.tla
    dels, model, places, rs = stream_plan(tier)
    states += rs.distinct
    trans += rs.generated
    extra = 2                   # seeded deliveries per text besides str, text:1 and s8:1 (thorough draws from a larger set)
    t0 = _lap('place_tlc', t0)
    parts = set((os.environ.get('VERIF_C06_PARTS') or 'enum,given,place').split(','))      # development aid: corpora to run
    if 'enum' in parts:
        only = os.environ.get('VERIF_C06_ONLY')           # development aid: comma-separated focus names
        focuses = [f for f in FOCUSES if not only or f in only.split(',')]
        r = tlc.run('LoadPipe', workers=PAR, cfg='MC_LoadPipe.cfg', tag='C06_enum', dump=True, coverage=False, timeout=3000,
                    constants={'Focuses': tla_set(focuses), 'Thorough': 'FALSE' if tier == 'quick' else 'TRUE'})
        if r.violated or not r.ok:
            print(r.out[-3000:])
            raise SystemExit('machinery failure: LoadPipe.tla: %s' % (r.violated or r.rc))
        states += r.distinct
        trans += r.generated
        t0 = _lap('enum_tlc', t0)
        items = [(r.dump, a, b, nrep, dels, extra) for a, b in mbt.split_dump(r.dump, max(128, r.distinct // 600))]
        out = watchdog.run(replay_states, items, procs=PAR, limit=LIMIT, init=_init)
        os.remove(r.dump)
        n = 0
        for it, o in zip(items, out):
            if isinstance(o, dict) and o.get('__watchdog__'):
                raise SystemExit('machinery failure: no result for a chunk of enumerated texts (%s); hangs are judged by C03' % o)
            n += o['states']
            for k in tot:
                tot[k] += o[k]
            for k, c in o['classes'].items():
                classes[k] = classes.get(k, 0) + c
            for k, ex in o['drift'].items():
                drift.setdefault(k, ex)
            bag.merge(o['bag'])
        if n != r.distinct:
            raise SystemExit('machinery failure: dump/state count mismatch')
        cov['enumeration'] = {'focuses': focuses, 'states': r.distinct, 'tlc_s': round(r.wall, 1), 'bounds': 'n (quick) / m (thorough) of FocusTable'}
        t0 = _lap('enum_replay', t0)
    rnd = random.Random(SEED)
    quick = tier == 'quick'
    if 'given' in parts:
        # (b) dumper outputs (always in the domain)
        kindseqs, rp = parser_structures(tier)
        states += rp.distinct
        trans += rp.generated
        t0 = _lap('structures_tlc', t0)
        items = [(t, False, True, src) for t, src in dumper_texts(yaml, rnd, 400 if quick else 12000)]
        items += [(t, False, True, src) for t, src in event_texts(yaml, rnd, kindseqs, 300 if quick else 8000)]
        ndump = len(items)
        # (c) grammar-directed documents, (d) the repository's data files: the specification decides which are in the domain
        from ..drivers import docprint
        gtexts = []
        per = 2 if quick else 16
        picks = kindseqs
        for ks in picks:
            for _ in range(per):
                gtexts.append((docprint.render(list(ks), rnd), 'grammar'))
        # the same printer over seeded random structures that are deeper than the ones TLC enumerates (depth <= 3)
        for _ in range(700 if quick else 12000):
            gtexts.append((docprint.render(docprint.random_structure(rnd), rnd), 'grammar-deep'))
        for f in sorted(glob.glob(os.path.join(REPO, 'tests/legacy_tests/data/*'))):
            try:
                t = open(f, 'rb').read().decode('utf-8')
            except (UnicodeDecodeError, OSError):
                continue
            if 0 < len(t) <= (1500 if quick else 6000) and not f.endswith(('.py', '.pyc', '.code')):
                gtexts.append((t, 'data/' + os.path.basename(f)))
        gtexts = [(t, s_) for t, s_ in gtexts if len(t) <= 4000]
        t0 = _lap('generate', t0)
        cls, s3 = classify([t for t, _ in gtexts], 'C06_dom')
        states += s3
        for (t, src), (verdict, portable) in zip(gtexts, cls):
            key = 'given:%s/%s' % (verdict, portable)
            classes[key] = classes.get(key, 0) + 1
            items.append((t, verdict == 'accept' and portable, False, src))
        t0 = _lap('classify_tlc', t0)
        # deliveries of every given text; bytes written by a dumper are also delivered as those bytes
        items = [it + (list(dict.fromkeys(pick_dels(it[0], dels, extra)
                                          + ([(it[3].split('/')[2], sp.FULL)] if it[3].count('/') == 2 and it[3].startswith('dump/') else []))),)
                 for it in items]
        nch = max(128, len(items) // 40)
        chunks = [items[i::nch] for i in range(nch)]
        for ch, o in zip(chunks, watchdog.run(trace_work, chunks, procs=PAR, limit=LIMIT, init=_init)):
            if isinstance(o, dict) and o.get('__watchdog__'):
                raise SystemExit('machinery failure: no result for a chunk of given texts (%s); hangs are judged by C03' % o)
            bag.merge(o['bag'])
            tot['deliveries'] += o['deliveries']
            for k, ex in o['drift'].items():
                drift.setdefault(k, ex)
                tot['ndrift'] += 1
        cov['dumper_texts'] = ndump
        cov['given_texts'] = len(gtexts)
        cov['parser_structures'] = len(kindseqs)
        if tot['ndrift']:
            v.note('spec-drift C06/domain: %d texts the specification accepts but the pure-Python parser rejects, e.g. %s'
                   % (tot['ndrift'], json.dumps(list(drift.items())[:3], default=str)[:600]))
        t0 = _lap('given_replay', t0)
    if 'place' in parts:
        # (e) placements around the refill boundaries; the short-padded version of each is classified by LoadPipe
        docs, skipped = realise_all(places, NVARIANT[tier])
        # the short version in symbols: the padding abstracted, the construct as the specification wrote it
        shorts = sorted({(d['ctx'], d['con']) for d in docs})
        scls, s4 = classify([sm.abstract(sp.pad(x, sp.SHORT)) + list(c) for x, c in shorts], 'C06_placedom')
        states += s4
        sdom = {k: (c[0] == 'accept' and c[1]) for k, c in zip(shorts, scls)}
        for d in docs:
            d['dom'] = sdom[(d['ctx'], d['con'])]
        outside = sorted({d['key'] for d in docs if not d['dom']})
        logged = set()
        for d in docs:
            if d['ascii'] and (d['form'], d['step'], d['pos']) not in logged and d['form'] not in sp.MEM:
                logged.add((d['form'], d['step'], d['pos']))
                d['log'] = True
        t0 = _lap('place_classify_tlc', t0)
        pitems = [(d, d['dom']) for d in docs]
        nch = max(64, len(pitems) // 60)
        chunks = [pitems[i::nch] for i in range(nch)]
        logs = []
        for ch, o in zip(chunks, watchdog.run(place_work, chunks, procs=PAR, limit=LIMIT, init=_init)):
            if isinstance(o, dict) and o.get('__watchdog__'):
                raise SystemExit('machinery failure: no result for a chunk of placements (%s); hangs are judged by C03' % o)
            bag.merge(o['bag'])
            logs += o['logs']
        rdrift, nlogs = refill_drift(model, logs)
        if rdrift:
            v.note('spec-drift C06/refills: the read schedule of StreamPlace.tla differs from the calls the readers make: %s' % '; '.join(rdrift[:4]))
        if outside:
            v.note('spec-drift C06/placements: %d constructs of StreamPlace.tla are outside the domain of LoadPipe.tla: %s' % (len(outside), outside[:3]))
        cov['delivery_dimension'] = {'deliveries': [sp.delname(*d) for d in dels], 'per_text': 'text:1 and s8:1 always + %d seeded others' % extra,
                                     'delivered_texts_x_deliveries': tot['deliveries'],
                                     'constants': PLACE_CONST[tier], 'states': rs.distinct, 'placement_states': len(places), 'placements_replayed': len(docs),
                                     'constructs': len(shorts), 'placements_not_realisable': skipped, 'placements_in_domain': sum(1 for d in docs if d['dom']),
                                     'boundaries': sorted({(d['form'], d['step'], d['pos']) for d in docs}),
                                     'refill_model_checked_against_read_logs': nlogs, 'refill_model_drift': rdrift,
                                     'actions': rs.actions}
        t0 = _lap('place_replay', t0)
    # judgement
    keys = list(bag.d)
    bad, s2 = judge_backends([bag.d[k][1] for k in keys], 'C06_backends')
    states += s2
    t0 = _lap('judge_tlc', t0)
    nbad = 0
    grouped = {}
    for ti, at, why in bad:
        k = keys[ti]
        nbad += 1
        cnt, tr, meta = bag.d[k]
        case = tr['cases'][at - 1]
        first = case['name'].split(' ')[0]
        # diagnostics: recompute the full projections of the failing case (the verdict is TLC's)
        full = [c for c in be.cases(yaml, meta['text'], allow_unsafe='python' not in meta['text'], dels=meta.get('dels') or ()) if c['name'] == first]
        where = be.diff_summary(full[0]['py']['v'], full[0]['c']['v']) if full and why == 'projection differs' else ''
        key = {'why': why, 'case': first.split('/')[0], 'where': where, 'del': case['dels'][0].split(':')[0],
               'py': case['py']['o'] + ':' + case['py']['cls'] + ':' + (full[0]['py'].get('msg', '') if full else ''),
               'c': case['c']['o'] + ':' + case['c']['cls'] + ':' + (full[0]['c'].get('msg', '') if full else '')}
        g = grouped.setdefault(json.dumps(key, sort_keys=True), {'key': key, 'traces': 0, 'texts': 0, 'samples': []})
        g['traces'] += 1
        g['texts'] += cnt
        if len(g['samples']) < 4:
            tx = meta['text']
            g['samples'].append({'text': tx if len(tx) <= 600 else tx[:60] + ' ...[%d characters]... ' % (len(tx) - 360) + tx[-300:],
                                 'short_padded_version': meta.get('short'), 'deliveries': case['dels'],
                                 'source': meta['source'], 'symbols': meta.get('symbols'), 'cases': case['name'][:300],
                                 'py': full[0]['py'] if full else None, 'c': full[0]['c'] if full else None})
    for g in grouped.values():
        v.violation(g['key'], {'distinct_traces': g['traces'], 'texts': g['texts'], 'samples': g['samples']})
    cov['traces_rejected_by_tlc'] = nbad
    v.cov = dict(cov, phase_seconds=dict(_T), states=states, transitions=trans, exhaustive=True, traces_validated_against_impl=sum(e[0] for e in bag.d.values()),
                 distinct_traces_judged_by_tlc=len(keys), enumerated_classes=classes, texts=tot['texts'], distinct_nontrivial=len(keys),
                 rule='domain decided by LoadPipe.tla; every accepted portable text x projections x loader pairs judged by TLC '
                      '(Trace_Backends.tla)',
                 samples=[{'text': bag.d[k][2]['text'][:80], 'source': bag.d[k][2]['source']} for k in keys[:4]])
    v.assumptions = ['projections are compared through digests of their canonical JSON form',
                     'styles and marks are not part of "the same events / nodes" (DESIGN 5/C06)']
    return v.finish()
