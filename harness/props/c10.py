"""C10 - customising one loader or dumper class never changes another.

TLC explores spec/Registry.tla (all registration histories up to a bound, L refines H, frame conditions);
every reachable state of the MBT configurations is one history which is replayed against the live classes in a
forked child; the effective tables (abstracted by alpha) and the behaviour probes of every class are compared
with the H prediction carried in the state (eff, beh).  L-only facts (own flags) are drift notes."""
import json, os, re, sys, random, multiprocessing as mp
from .. import tlc, tlaval
from ..common import Verdict, use_repo, SEED, BUILD, ensure_dir

USERS_QUICK = ['U1']
CONFIGS = {
    # name: (Targets, OpKinds, MaxHist quick, MaxHist thorough)
    'ctor': (['SafeLoader', 'Loader'], ['ctor', 'mctor'], 3, 4),
    'repr': (['SafeDumper', 'Dumper'], ['repr', 'mrepr'], 3, 4),
    'res': (['SafeLoader', 'SafeDumper'], ['impl', 'path'], 3, 4),
    'cross': (['SafeLoader', 'Loader', 'SafeDumper', 'Dumper'],
              ['ctor', 'mctor', 'repr', 'impl', 'yobj', 'module'], 2, 3),
    'wide': (['BaseLoader', 'SafeLoader', 'FullLoader', 'Loader', 'UnsafeLoader', 'CBaseLoader', 'CSafeLoader',
              'CFullLoader', 'CUnsafeLoader', 'CLoader', 'BaseDumper', 'SafeDumper', 'Dumper', 'CBaseDumper',
              'CSafeDumper', 'CDumper'], ['ctor', 'mctor', 'repr', 'mrepr', 'impl', 'path'], 2, 2),
}
ATTR = {'ctor': 'yaml_constructors', 'mctor': 'yaml_multi_constructors', 'repr': 'yaml_representers',
        'mrepr': 'yaml_multi_representers', 'impl': 'yaml_implicit_resolvers', 'path': 'yaml_path_resolvers'}


# ------------------------------------------------------------------ concretisation
class World:
    """The live classes plus the concrete objects the abstract symbols stand for."""

    def __init__(self):
        self.yaml = y = use_repo()
        from yaml import constructor, representer, resolver, nodes
        self.nodes = nodes
        self.cls = {}
        for n in ['BaseConstructor', 'SafeConstructor', 'FullConstructor', 'UnsafeConstructor', 'Constructor']:
            self.cls[n] = getattr(constructor, n)
        for n in ['BaseRepresenter', 'SafeRepresenter', 'Representer']:
            self.cls[n] = getattr(representer, n)
        for n in ['BaseResolver', 'Resolver']:
            self.cls[n] = getattr(resolver, n)
        for n in ['BaseLoader', 'SafeLoader', 'FullLoader', 'Loader', 'UnsafeLoader', 'CBaseLoader', 'CSafeLoader',
                  'CFullLoader', 'CUnsafeLoader', 'CLoader', 'BaseDumper', 'SafeDumper', 'Dumper', 'CBaseDumper',
                  'CSafeDumper', 'CDumper']:
            self.cls[n] = getattr(y, n)
        self.root = {n: n for n in self.cls}          # nearest shipped ancestor

        def f1(loader, *a): return 'F1'
        def f2(loader, *a): return 'F2'
        def r1(dumper, data): return dumper.represent_scalar('!F1', 'x')
        def r2(dumper, data): return dumper.represent_scalar('!F2', 'x')
        self.fn = {'ctor': {'F1': f1, 'F2': f2}, 'mctor': {'F1': f1, 'F2': f2},
                   'repr': {'F1': r1, 'F2': r2}, 'mrepr': {'F1': r1, 'F2': r2},
                   'impl': {'G1': '!g1', 'G2': '!g2'}, 'path': {'G1': '!g1', 'G2': '!g2'}}
        K1 = type('K1', (), {})
        K2 = type('K2', (K1,), {})
        self.K = {'T1': K1, 'T2': K2}
        self.Y = {}
        self.key = {
            'ctor': {'T1': '!t1', 'T2': '!t2', 'E': 'tag:yaml.org,2002:int', 'Y1': '!y1', 'Y2': '!y2'},
            'mctor': {'T1': '!t1', 'P': '!t', 'E': 'tag:yaml.org,2002:python/name:'},
            'repr': {'T1': K1, 'T2': K2, 'E': int},
            'mrepr': {'T1': K1, 'T2': K2, 'E': object},
            'impl': {'a': 'a', 'E': '0', 'NONE': None},
            'path': {'Q1': ((((None, 'key1'),), None)), 'Q2': (((None, 'key2'), (None, 0)), nodes.ScalarNode)},
        }
        self.pathargs = {'Q1': (['key1'], None), 'Q2': (['key2', 0], str)}
        self.regex = re.compile(r'^[a0]x*$')
        # import-time effective tables (the frame)
        self.init = {n: {k: self.snapshot(c, k) for k in ATTR if hasattr(c, ATTR[k])} for n, c in self.cls.items()}
        self.base_beh = {}
        self.shipped = dict(self.cls)
        self.own0 = {(n, k): c.__dict__.get(ATTR[k]) for n, c in self.cls.items() for k in ATTR}

    def reset(self):
        """Undo a history: restore every class attribute (object identity and contents) to the import-time state,
        forget user classes; then verify that the effective tables equal the import-time snapshot."""
        for n, c in self.shipped.items():
            for k, attr in ATTR.items():
                o = self.own0[(n, k)]
                if o is None:
                    if attr in c.__dict__:
                        delattr(c, attr)
                else:
                    if c.__dict__.get(attr) is not o:
                        setattr(c, attr, o)
                    init = self.init[n][k]
                    o.clear()
                    for kk, v in init:
                        o[kk] = list(v) if k == 'impl' else v
        self.cls = dict(self.shipped)
        self.root = {n: n for n in self.cls}
        self.Y = {}
        for n, c in self.shipped.items():
            for k in self.init[n]:
                if self.snapshot(c, k) != self.init[n][k]:
                    raise RuntimeError('reset failed for %s.%s' % (n, ATTR[k]))

    def snapshot(self, c, k):
        t = getattr(c, ATTR[k])
        if k == 'impl':
            return [(ch, list(l)) for ch, l in t.items()]
        return list(t.items())

    # abstraction of a real effective table relative to the import-time table of the class's shipped root
    def alpha(self, name, k):
        c = self.cls[name]
        real = self.snapshot(c, k)
        init = self.init[self.root[name]][k]
        inv = {}
        for a, ck in self.key[k].items():
            inv[ck] = a
        if k == 'repr':
            for a, yc in self.Y.items():
                inv[yc] = a
        out, frame = [], []
        initd = dict((kk, v) for kk, v in init)
        for kk, v in real:
            try:
                a = inv.get(kk)
            except TypeError:
                a = None
            if k == 'impl':
                if a is None:
                    frame.append((kk, v))
                    continue
                i0 = initd.get(kk, [])
                if v[:len(i0)] == i0:
                    rest, av = v[len(i0):], (['ORIG'] if i0 else [])
                else:
                    rest, av = v, ['?changed-prefix']
                for tag, rx in rest:
                    av.append({'!g1': 'G1', '!g2': 'G2'}.get(tag, '?' + str(tag)))
                out.append([a, av])
            else:
                if a is None:
                    frame.append((kk, v))
                    continue
                out.append([a, self.aval(k, kk, v, initd)])
        iframe = [(kk, v) for kk, v in init if self._notmodel(k, kk, inv)]
        if frame != iframe:
            out.append(['?FRAME', 'changed'])
        return out

    def _notmodel(self, k, kk, inv):
        try:
            return kk not in inv
        except TypeError:
            return True

    def aval(self, k, kk, v, initd):
        for a, f in self.fn[k].items():
            if v is f or v == f:
                return a
        if kk in initd and (initd[kk] is v or initd[kk] == v):
            return 'ORIG'
        s = getattr(v, '__self__', None)
        if s is not None and s in self.Y.values():
            return 'FY'
        return '?' + getattr(v, '__qualname__', repr(v))

    # ------------------------------------------------------------- operations of the spec on the live classes
    def apply(self, op):
        y = self.yaml
        kind = op[0]
        if kind == 'sub':
            _, u, b = op
            self.cls[u] = type(u, (self.cls[b],), {})
            self.root[u] = self.root[b]
        elif kind == 'add':
            _, k, c, key, val = op
            self.call(self.cls[c], k, key, val)
        elif kind == 'module':
            _, k, key, val = op
            if k == 'ctor':
                y.add_constructor(self.key[k][key], self.fn[k][val])
            elif k == 'mctor':
                y.add_multi_constructor(self.key[k][key], self.fn[k][val])
            elif k == 'repr':
                y.add_representer(self.key[k][key], self.fn[k][val])
            elif k == 'mrepr':
                y.add_multi_representer(self.key[k][key], self.fn[k][val])
            elif k == 'impl':
                y.add_implicit_resolver(self.fn[k][val], self.regex, self.firsts(key))
            elif k == 'path':
                p, kd = self.pathargs[key]
                y.add_path_resolver(self.fn[k][val], p, kd)
        elif kind == 'yobj':
            _, tag, lds, d = op
            ld = [self.cls[x] for x in lds]
            if len(ld) == 1:
                ld = ld[0]
            self.Y[tag] = type(tag, (y.YAMLObject,), {'yaml_tag': self.key['ctor'][tag], 'yaml_loader': ld,
                                                     'yaml_dumper': self.cls[d]})
        elif kind == 'ysub':
            _, tag, lds, d = op
            ld = [self.cls[x] for x in lds]
            if len(ld) == 1:
                ld = ld[0]
            self.Y['sub' + tag] = type('Sub' + tag, (self.Y[tag],), {'yaml_loader': ld, 'yaml_dumper': self.cls[d]})
        else:
            raise ValueError(op)

    def firsts(self, key):
        f = [self.key['impl'][x] for x in key]
        return None if f == [None] else f

    def call(self, c, k, key, val):
        if k == 'ctor':
            c.add_constructor(self.key[k][key], self.fn[k][val])
        elif k == 'mctor':
            c.add_multi_constructor(self.key[k][key], self.fn[k][val])
        elif k == 'repr':
            c.add_representer(self.key[k][key], self.fn[k][val])
        elif k == 'mrepr':
            c.add_multi_representer(self.key[k][key], self.fn[k][val])
        elif k == 'impl':
            c.add_implicit_resolver(self.fn[k][val], self.regex, self.firsts(key))
        elif k == 'path':
            p, kd = self.pathargs[key]
            c.add_path_resolver(self.fn[k][val], p, kd)

    # ------------------------------------------------------------- behaviour probes
    def probe(self, name, p):
        c = self.cls[name]
        y, N = self.yaml, self.nodes
        try:
            if p[0] == 'c':
                tag = {'cT1': '!t1', 'cT2': '!t2', 'cY1': '!y1'}[p]
                ld = c('')
                try:
                    if p == 'cY1':
                        node = N.MappingNode(tag, [])
                    else:
                        node = N.ScalarNode(tag, 'v')
                    r = ld.construct_document(node)
                finally:
                    ld.dispose()
                if r in ('F1', 'F2'):
                    return r
                if type(r) in self.Y.values():
                    return 'FY'
                return 'val:' + type(r).__name__
            if p[0] == 'r':
                if p == 'rY1':
                    if 'Y1' not in self.Y:
                        # no YAMLObject class exists: represent an instance of an unrelated fresh class
                        obj = type('Z', (), {})()
                    else:
                        obj = self.Y['Y1'].__new__(self.Y['Y1'])
                    obj.attr = 1
                else:
                    obj = self.K[p[1:]]()
                import io
                d = c(io.StringIO())
                try:
                    node = d.represent_data(obj)
                finally:
                    d.dispose()
                if node.tag in ('!F1', '!F2'):
                    return node.tag[1:]
                if node.tag == '!y1':
                    return 'FY'
                return 'tag:' + re.sub(r'(python/object:).*', r'\1*', node.tag)
            if p[0] == 'i':
                val = {'ia': 'axx', 'iE': '0xx'}[p]
                import io
                inst = c('') if hasattr(c, 'construct_document') else c(io.StringIO())
                try:
                    inst.descend_resolver(None, None)      # what compose_document / serialize do first
                    t = inst.resolve(N.ScalarNode, val, (True, False))
                finally:
                    inst.dispose()
                return {'!g1': 'G1', '!g2': 'G2'}.get(t, 'tag:' + t)
            if p[0] == 'p':
                node = y.compose('key1: v\nkey2: [w]\n', Loader=c)
                d = {k.value: v for k, v in node.value}
                t = d['key1'].tag if p == 'pQ1' else d['key2'].value[0].tag
                return {'!g1': 'G1', '!g2': 'G2'}.get(t, 'tag:' + t)
        except y.YAMLError as e:
            return 'err:' + type(e).__name__
        except Exception as e:  # behaviour of interest, not a harness failure
            return 'exc:' + type(e).__name__
        return '?'


# ------------------------------------------------------------------ replay of one history (in a forked child)
def run_history(w, st, kinds, use_between=False):
    """Returns list of mismatches (dicts).  use_between: every class is USED (all behaviour probes, results discarded)
    after every step but the last, so that anything an implementation remembers from a use - a memo table, a cache of a
    split registry - meets the next registration."""
    hist = st['hist']
    for j, op in enumerate(hist):
        w.apply([tuple(x) if isinstance(x, list) and False else x for x in op])
        if use_between and j + 1 < len(hist):
            for name in reversed(list(w.cls)):      # subclasses before their bases: a use must not be served by the base's state
                if name.endswith(('Constructor', 'Representer', 'Resolver')) or name not in st['beh'] or not isinstance(st['beh'][name], dict):
                    continue
                for p in st['beh'][name]:
                    w.probe(name, p)
    defined = tlaval.setval(st['defined'])
    bad = []
    for name in defined:
        c = w.cls[name]
        for k in kinds:
            if not hasattr(c, ATTR[k]):
                continue
            exp = st['eff'][name][k]
            got = w.alpha(name, k)
            if got != exp:
                bad.append({'what': 'table', 'cls': name, 'kind': k, 'expected': exp, 'observed': got})
        if name in st['beh'] and isinstance(st['beh'][name], dict):
            for p, exp in st['beh'][name].items():
                if name.endswith(('Constructor', 'Representer', 'Resolver')):
                    continue
                got = w.probe(name, p)
                if exp == 'BASE':
                    exp = w.base_beh[(w.root[name], p)]
                if got != exp:
                    bad.append({'what': 'behaviour', 'cls': name, 'probe': p, 'expected': exp, 'observed': got})
    # L-only observation: which classes own a table (drift, never a verdict)
    drift = []
    for name in defined:
        for k in kinds:
            c = w.cls[name]
            if hasattr(c, ATTR[k]) and name in st['own']:
                if (ATTR[k] in c.__dict__) != st['own'][name][k]:
                    drift.append([name, k])
    return bad, drift


def worker(args):
    path, start, end, kinds = args
    w = World()
    # import-time behaviour of every shipped loader/dumper for every probe
    for name, c in list(w.cls.items()):
        if name.endswith(('Constructor', 'Representer', 'Resolver')):
            continue
        for p in ['cT1', 'cT2', 'cY1', 'rT1', 'rT2', 'rY1', 'ia', 'iE', 'pQ1', 'pQ2']:
            if p[0] == 'c' and not hasattr(c, 'construct_document'):
                continue
            if p[0] == 'p' and not hasattr(c, 'construct_document'):
                continue
            if p[0] == 'r' and not hasattr(c, 'represent_data'):
                continue
            w.base_beh[(name, p)] = w.probe(name, p)
    res = {'n': 0, 'bad': [], 'drift': 0, 'samples': []}
    with open(path) as f:
        f.seek(start)
        buf = f.read(end - start)
    for chunk in re.split(r'(?m)^State \d+:\n', buf):
        if not chunk.strip():
            continue
        st = tlaval._state([chunk])
        res['n'] += 1
        try:
            bad, drift = run_history(w, st, kinds)
            if not bad and len(st['hist']) >= 2:
                w.reset()
                bad, drift2 = run_history(w, st, kinds, use_between=True)
                for b in bad:
                    b['variant'] = 'every class used between the steps'
            d = {'bad': bad, 'drift': drift}
        except Exception:
            import traceback
            d = {'crash': traceback.format_exc()}
        w.reset()
        if 'crash' in d:
            res['bad'].append({'hist': st['hist'], 'mismatch': [{'what': 'harness-crash', 'detail': d['crash']}]})
            continue
        if d['bad']:
            res['bad'].append({'hist': st['hist'], 'mismatch': d['bad'][:6]})
        res['drift'] += len(d['drift'])
        if len(res['samples']) < 2 and len(st['hist']) >= 2:
            res['samples'].append(st['hist'])
    return res


def split_dump(path, n):
    size = os.path.getsize(path)
    cuts = [0]
    with open(path, 'rb') as f:
        for i in range(1, n):
            f.seek(size * i // n)
            f.readline()
            while True:
                pos = f.tell()
                line = f.readline()
                if not line or line.startswith(b'State '):
                    break
            if line and pos > cuts[-1]:
                cuts.append(pos)
    cuts.append(size)
    return [(cuts[i], cuts[i + 1]) for i in range(len(cuts) - 1)]


def tla_set(xs):
    return '{' + ', '.join('"%s"' % x for x in xs) + '}'


def main(tier, replay=None):
    v = Verdict('C10', tier)
    states = transitions = traces = 0
    samples, actions = [], {}
    configs = ['ctor', 'repr', 'res', 'cross'] + (['wide'] if tier == 'thorough' else [])
    for name in configs:
        targets, kinds, q, t = CONFIGS[name]
        mh = q if tier == 'quick' else t
        r = tlc.run('Registry', cfg='MC_Registry.cfg', dump=True, tag='C10_' + name, timeout=3000,
                    constants={'Targets': tla_set(targets), 'OpKinds': tla_set(kinds), 'MaxHist': mh,
                               'Users': tla_set(['U1'] if tier == 'quick' and name != 'cross' else ['U1', 'U2'])})
        if r.violated:
            # L does not refine H in the model: only a VIOLATION if it reproduces on the code, which the
            # replay below decides; report as machinery failure otherwise
            print(r.out[-3000:])
            raise SystemExit('machinery failure: Registry.tla violates %s in configuration %s' % (r.violated, name))
        tlc.require_ok(r, 'Registry/' + name)
        states += r.distinct
        transitions += r.generated
        for a, c in r.actions.items():
            actions[a] = actions.get(a, 0) + c[0]
        skinds = [k for k in kinds if k in ATTR]
        if 'yobj' in kinds:
            skinds = sorted(set(skinds) | {'ctor', 'repr'})
        parts = split_dump(r.dump, 64)
        with mp.Pool(16) as pool:
            out = pool.map(worker, [(r.dump, a, b, skinds) for a, b in parts], chunksize=1)
        n = sum(o['n'] for o in out)
        if n != r.distinct:
            raise SystemExit('machinery failure: replayed %d histories, TLC found %d states' % (n, r.distinct))
        traces += n
        drift = sum(o['drift'] for o in out)
        if drift:
            v.note('spec-drift C10/%s: %d own-table flags differ from the L model (allowed by H)' % (name, drift))
        for o in out:
            samples += o['samples'][:1]
            for b in o['bad']:
                m = b['mismatch'][0]
                key = {'config': name, 'what': m['what'], 'ops': [op[0] + ':' + str(op[1]) for op in b['hist']]}
                v.violation(key, b)
        os.remove(r.dump)
    # what a registered path resolver does: spec/PathResolver.tla, replayed on fresh subclasses
    from .. import pathres
    pr = pathres.run(v, tier)
    states += pr['states']
    transitions += pr['transitions']
    traces += pr['traces']
    samples += pr['samples']
    for a in ['Add', 'DefineSub', 'ModuleAdd', 'YObj', 'YSub']:
        if actions.get(a, 0) == 0:
            raise SystemExit('machinery failure: action %s never fired (vacuous run)' % a)
    v.cov = {'states': states, 'transitions': transitions, 'traces_validated_against_impl': traces,
             'samples': samples[:6], 'exhaustive': True, 'actions_fired': actions,
             'rule': 'every reachable state of Registry.tla = one registration history (bounded length, see configs); '
                     'each is replayed on the live classes in a forked child and all effective tables + behaviour probes '
                     'are compared with the H prediction',
             'configs': {n: {'targets': CONFIGS[n][0], 'kinds': CONFIGS[n][1],
                             'max_hist': CONFIGS[n][2 if tier == 'quick' else 3]} for n in configs}}
    v.cov['path_resolver_states'] = pr['states']
    v.cov['path_resolver_nodes_compared'] = pr['traces']
    v.assumptions = ['single inheritance for user classes (C3 linearisation of multiple user bases not modelled)',
                     'tables abstracted to 3 keys per kind; all other entries are checked as an unchanged frame']
    return v.finish()
