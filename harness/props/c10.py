"""C10 - customising one loader or dumper class never changes another.

TLC explores spec/Registry.tla (all registration histories up to a bound, L refines H, frame conditions); every
reachable state of a configuration is one history and carries the H prediction (eff: effective tables, beh: results of
the behaviour probes).  The histories of a configuration form a tree (a history extends its prefix by one operation);
the replay walks that tree over the live classes, one forked process per node, so that every node starts from exactly
the class state its prefix left behind (the histories that END below a node share one process and put the registries back
after each of them):

  plain lineage   no class is used before the node is checked: the node's children are forked off BEFORE its check;
  used lineage    every class was used (all behaviour probes, subclasses before their bases) after every step: the
                  children are forked off AFTER the check of their parent, starting below the one-step histories.

A check compares, for every class of the lattice, the effective tables (abstracted by alpha) and the behaviour by real
dispatch (construct a node / represent an instance / resolve a scalar / compose and serialize a document through an
instance of the class) with the H prediction.  L-only facts (own flags) are drift notes."""
import io, json, os, re, mmap, tempfile, traceback, multiprocessing as mp
from concurrent.futures import ThreadPoolExecutor, as_completed
from .. import tlc, tlaval, mbt
from ..common import Verdict, use_repo, BUILD, ensure_dir

LOADERS = ['BaseLoader', 'SafeLoader', 'FullLoader', 'Loader', 'UnsafeLoader', 'CBaseLoader', 'CSafeLoader',
           'CFullLoader', 'CUnsafeLoader', 'CLoader']
DUMPERS = ['BaseDumper', 'SafeDumper', 'Dumper', 'CBaseDumper', 'CSafeDumper', 'CDumper']
CTOR_MIXINS = ['BaseConstructor', 'SafeConstructor', 'FullConstructor', 'UnsafeConstructor', 'Constructor']
REPR_MIXINS = ['BaseRepresenter', 'SafeRepresenter', 'Representer']
RES_MIXINS = ['BaseResolver', 'Resolver']
MIXINS = CTOR_MIXINS + REPR_MIXINS + RES_MIXINS
ALLK = ['ctor', 'mctor', 'repr', 'mrepr', 'impl', 'path']
CONFIGS = {
    # name: (Targets, OpKinds, Users, FreshVals, MaxHist quick (0: thorough only), MaxHist thorough)
    # the two leaf classes of a kind pair and the mixins that own their tables at import
    'ctor': (['SafeLoader', 'Loader', 'SafeConstructor', 'FullConstructor'], ['ctor', 'mctor'], ['U1'], True, 3, 3),
    'repr': (['SafeDumper', 'Dumper', 'SafeRepresenter', 'Representer'], ['repr', 'mrepr'], ['U1'], True, 3, 3),
    'res': (['SafeLoader', 'SafeDumper', 'Resolver'], ['impl', 'path'], ['U1'], True, 3, 3),
    # every class of the two chains is a target; values chosen freely (a value can be registered twice)
    'ctorchain': (['SafeLoader', 'Loader'] + CTOR_MIXINS, ['ctor', 'mctor'], ['U1'], False, 2, 2),
    'reprchain': (['SafeDumper', 'Dumper'] + REPR_MIXINS, ['repr', 'mrepr'], ['U1'], False, 2, 2),
    'reschain': (['SafeLoader', 'SafeDumper'] + RES_MIXINS, ['impl', 'path'], ['U1'], False, 2, 2),
    # all kinds together, the module-level helpers and YAMLObject classes
    'cross': (['SafeLoader', 'Loader', 'SafeDumper', 'Dumper'], ['ctor', 'mctor', 'repr', 'impl', 'yobj', 'module'],
              ['U1', 'U2'], True, 2, 2),
    # every shipped loader and dumper is a target
    'wide': (LOADERS + DUMPERS, ALLK, ['U1'], True, 1, 2),
    # deep and two user classes (thorough)
    'ctor4': (['SafeLoader', 'Loader'], ['ctor', 'mctor'], ['U1', 'U2'], True, 0, 4),
    'repr4': (['SafeDumper', 'Dumper'], ['repr', 'mrepr'], ['U1', 'U2'], True, 0, 4),
    'res4': (['SafeLoader', 'SafeDumper'], ['impl', 'path'], ['U1', 'U2'], True, 0, 4),
}
ATTR = {'ctor': 'yaml_constructors', 'mctor': 'yaml_multi_constructors', 'repr': 'yaml_representers',
        'mrepr': 'yaml_multi_representers', 'impl': 'yaml_implicit_resolvers', 'path': 'yaml_path_resolvers'}
NVALS = 5
DOC = 'key1: v\nkey2: [w]\n'
OP_ACTION = {'add': 'Add', 'module': 'ModuleAdd', 'yobj': 'YObj', 'ysub': 'YSub', 'sub': 'DefineSub'}
BUCKET_LIMIT = 1000         # histories per replay task; larger subtrees are split below their root


class Feeder:
    """Stands in for the scanner/parser of a pure-Python loader instance: hands the events of DOC to the real Composer."""

    def __init__(self, evs):
        self.evs, self.i = evs, 0

    def check_event(self, *choices):
        if self.i < len(self.evs):
            return not choices or isinstance(self.evs[self.i], choices)
        return False

    def peek_event(self):
        return self.evs[self.i] if self.i < len(self.evs) else None

    def get_event(self):
        e = self.evs[self.i]
        self.i += 1
        return e


# ------------------------------------------------------------------ concretisation
class World:
    """The live classes plus the concrete objects the abstract symbols stand for."""

    def __init__(self):
        self.yaml = y = use_repo()
        from yaml import constructor, representer, resolver, nodes, events, parser
        self.nodes = N = nodes
        self.pure_parser = parser.Parser
        self.cls = {}
        for n in CTOR_MIXINS:
            self.cls[n] = getattr(constructor, n)
        for n in REPR_MIXINS:
            self.cls[n] = getattr(representer, n)
        for n in RES_MIXINS:
            self.cls[n] = getattr(resolver, n)
        for n in LOADERS + DUMPERS:
            self.cls[n] = getattr(y, n)
        self.root = {n: n for n in self.cls}          # nearest shipped ancestor

        def mk_ctor(i):
            def f(loader, *a): return 'F%d' % i
            return f

        def mk_repr(i):
            def r(dumper, data): return dumper.represent_scalar('!F%d' % i, 'x')
            return r
        F = ['F%d' % i for i in range(1, NVALS + 1)]
        G = ['G%d' % i for i in range(1, NVALS + 1)]
        cf = {a: mk_ctor(i + 1) for i, a in enumerate(F)}
        rf = {a: mk_repr(i + 1) for i, a in enumerate(F)}
        gt = {a: '!' + a.lower() for a in G}
        self.fn = {'ctor': cf, 'mctor': cf, 'repr': rf, 'mrepr': rf, 'impl': gt, 'path': gt}
        self.gname = {t: a for a, t in gt.items()}
        self.fnames = set(F)
        K1 = type('K1', (), {})
        K2 = type('K2', (K1,), {})
        self.K = {'T1': K1, 'T2': K2}
        self.Y = {}
        self.key = {
            'ctor': {'T1': '!t1', 'T2': '!t2', 'E': 'tag:yaml.org,2002:int', 'Y1': '!y1', 'Y2': '!y2'},
            'mctor': {'T1': '!t1', 'P': '!t', 'E': 'tag:yaml.org,2002:python/name:'},
            'repr': {'T1': K1, 'T2': K2, 'E': int},
            'mrepr': {'T1': K1, 'T2': K2, 'E': object},
            'impl': {'a': 'a', 'E': '0', 'NONE': None},
            'path': {'Q1': ((((None, 'key1'),), None)), 'Q2': (((None, 'key2'), (None, 0)), nodes.ScalarNode)},
        }
        self.pathargs = {'Q1': (['key1'], None), 'Q2': (['key2', 0], str)}
        self.regex = re.compile(r'^[a0]x*$')
        # the events of DOC (what scanner + parser deliver) and its representation graph (what a representer delivers)
        E = events
        self.doc_events = [E.StreamStartEvent(), E.DocumentStartEvent(explicit=False), E.MappingStartEvent(None, None, True),
                           E.ScalarEvent(None, None, (True, False), 'key1'), E.ScalarEvent(None, None, (True, False), 'v'),
                           E.ScalarEvent(None, None, (True, False), 'key2'),
                           E.SequenceStartEvent(None, None, True, flow_style=True),
                           E.ScalarEvent(None, None, (True, False), 'w'), E.SequenceEndEvent(), E.MappingEndEvent(),
                           E.DocumentEndEvent(explicit=False), E.StreamEndEvent()]
        S = 'tag:yaml.org,2002:str'
        self.doc_node = N.MappingNode('tag:yaml.org,2002:map', [
            (N.ScalarNode(S, 'key1'), N.ScalarNode(S, 'v')),
            (N.ScalarNode(S, 'key2'), N.SequenceNode('tag:yaml.org,2002:seq', [N.ScalarNode(S, 'w')]))])
        # import-time effective tables (the frame)
        self.init = {n: {k: self.snapshot(c, k) for k in ATTR if hasattr(c, ATTR[k])} for n, c in self.cls.items()}
        self.base_beh = {}
        self._alpha0 = {}

    def snapshot(self, c, k):
        t = getattr(c, ATTR[k])
        if k == 'impl':
            return [(ch, list(l)) for ch, l in t.items()]
        return list(t.items())

    # the state of the registries, to return to it after a leaf of the history tree (see Walk.leaves)
    def save(self):
        tabs = []
        for c in self.cls.values():
            for k, attr in ATTR.items():
                if hasattr(c, attr):
                    o = c.__dict__.get(attr)
                    tabs.append((c, k, attr, o, None if o is None else self.snapshot(c, k)))
        return tabs, dict(self.cls), dict(self.root), dict(self.Y)

    def restore(self, saved):
        tabs, self.cls, self.root, self.Y = saved[0], dict(saved[1]), dict(saved[2]), dict(saved[3])
        for c, k, attr, o, items in tabs:
            if o is None:
                if attr in c.__dict__:
                    delattr(c, attr)
                continue
            if c.__dict__.get(attr) is not o:
                setattr(c, attr, o)
            if self.snapshot(c, k) != items:
                o.clear()
                for kk, v in items:
                    o[kk] = list(v) if k == 'impl' else v

    # abstraction of a real effective table relative to the import-time table of the class's shipped root
    def alpha(self, name, k):
        c = self.cls[name]
        real = self.snapshot(c, k)
        root = self.root[name]
        if (root, k) not in self._alpha0:
            inv = {ck: a for a, ck in self.key[k].items()}
            init = self.init[root][k]
            self._alpha0[(root, k)] = (inv, dict(init), [(kk, v) for kk, v in init if self._notmodel(k, kk, inv)])
        inv, initd, iframe = self._alpha0[(root, k)]
        if k == 'repr' and self.Y:
            inv = dict(inv)
            for a, yc in self.Y.items():
                inv[yc] = a
        out, frame = [], []
        for kk, v in real:
            try:
                a = inv.get(kk)
            except TypeError:
                a = None
            if a is None:
                frame.append((kk, v))
            elif k == 'impl':
                i0 = initd.get(kk, [])
                if v[:len(i0)] == i0:
                    rest, av = v[len(i0):], (['ORIG'] if i0 else [])
                else:
                    rest, av = v, ['?changed-prefix']
                for tag, rx in rest:
                    av.append(self.gname.get(tag, '?' + str(tag)))
                out.append([a, av])
            else:
                out.append([a, self.aval(k, kk, v, initd)])
        if frame != iframe:
            out.append(['?FRAME', 'changed'])
        return out

    def _notmodel(self, k, kk, inv):
        try:
            return kk not in inv
        except TypeError:
            return True

    def aval(self, k, kk, v, initd):
        for a, f in self.fn[k].items():
            if v is f or v == f:
                return a
        if kk in initd and (initd[kk] is v or initd[kk] == v):
            return 'ORIG'
        s = getattr(v, '__self__', None)
        if s is not None and s in self.Y.values():
            return 'FY'
        return '?' + getattr(v, '__qualname__', repr(v))

    # ------------------------------------------------------------- operations of the spec on the live classes
    def apply(self, op):
        y = self.yaml
        kind = op[0]
        if kind == 'sub':
            _, u, b = op
            self.cls[u] = type(u, (self.cls[b],), {})
            self.root[u] = self.root[b]
        elif kind == 'add':
            _, k, c, key, val = op
            self.call(self.cls[c], k, key, val)
        elif kind == 'module':
            _, k, key, val, L, D = op
            kw = {}
            if L != '-':
                kw['Loader'] = self.cls[L]
            if D != '-':
                kw['Dumper'] = self.cls[D]
            if k == 'ctor':
                y.add_constructor(self.key[k][key], self.fn[k][val], **kw)
            elif k == 'mctor':
                y.add_multi_constructor(self.key[k][key], self.fn[k][val], **kw)
            elif k == 'repr':
                y.add_representer(self.key[k][key], self.fn[k][val], **kw)
            elif k == 'mrepr':
                y.add_multi_representer(self.key[k][key], self.fn[k][val], **kw)
            elif k == 'impl':
                y.add_implicit_resolver(self.fn[k][val], self.regex, self.firsts(key), **kw)
            elif k == 'path':
                p, kd = self.pathargs[key]
                y.add_path_resolver(self.fn[k][val], p, kd, **kw)
        elif kind == 'yobj':
            _, tag, lds, d = op
            ld = [self.cls[x] for x in lds]
            if len(ld) == 1:
                ld = ld[0]
            self.Y[tag] = type(tag, (y.YAMLObject,), {'yaml_tag': self.key['ctor'][tag], 'yaml_loader': ld,
                                                     'yaml_dumper': self.cls[d]})
        elif kind == 'ysub':
            _, tag, lds, d = op
            ld = [self.cls[x] for x in lds]
            if len(ld) == 1:
                ld = ld[0]
            self.Y['sub' + tag] = type('Sub' + tag, (self.Y[tag],), {'yaml_loader': ld, 'yaml_dumper': self.cls[d]})
        else:
            raise ValueError(op)

    def firsts(self, key):
        f = [self.key['impl'][x] for x in key]
        return None if f == [None] else f

    def call(self, c, k, key, val):
        if k == 'ctor':
            c.add_constructor(self.key[k][key], self.fn[k][val])
        elif k == 'mctor':
            c.add_multi_constructor(self.key[k][key], self.fn[k][val])
        elif k == 'repr':
            c.add_representer(self.key[k][key], self.fn[k][val])
        elif k == 'mrepr':
            c.add_multi_representer(self.key[k][key], self.fn[k][val])
        elif k == 'impl':
            c.add_implicit_resolver(self.fn[k][val], self.regex, self.firsts(key))
        elif k == 'path':
            p, kd = self.pathargs[key]
            c.add_path_resolver(self.fn[k][val], p, kd)

    # ------------------------------------------------------------- behaviour probes (real dispatch through an instance)
    def guard(self, fn, *a):
        try:
            return fn(*a)
        except self.yaml.YAMLError as e:
            return 'err:' + type(e).__name__
        except Exception as e:  # behaviour of interest, not a harness failure
            return 'exc:' + type(e).__name__

    def p_construct(self, ld, p):
        N = self.nodes
        tag = {'cT1': '!t1', 'cT2': '!t2', 'cY1': '!y1'}[p]
        node = N.MappingNode(tag, []) if p == 'cY1' else N.ScalarNode(tag, 'v')
        r = ld.construct_document(node)
        if isinstance(r, str) and r in self.fnames:
            return r
        if type(r) in self.Y.values():
            return 'FY'
        return 'val:' + type(r).__name__

    def p_represent(self, d, p):
        if p == 'rY1':
            if 'Y1' not in self.Y:
                obj = type('Z', (), {})()     # no YAMLObject class exists: an instance of an unrelated fresh class
            else:
                obj = self.Y['Y1'].__new__(self.Y['Y1'])
            obj.attr = 1
        else:
            obj = self.K[p[1:]]()
        node = d.represent_data(obj)
        if node.tag[:2] == '!F' and node.tag[1:] in self.fnames:
            return node.tag[1:]
        if node.tag == '!y1':
            return 'FY'
        return 'tag:' + re.sub(r'(python/object:).*', r'\1*', node.tag)

    def p_resolve(self, inst, p):
        t = inst.resolve(self.nodes.ScalarNode, {'ia': 'axx', 'iE': '0xx'}[p], (True, False))
        return self.gname.get(t, 'tag:' + t)

    def compose(self, c):
        """DOC through the Composer and Resolver of class c (pure-Python loaders: the events are fed in directly)."""
        if issubclass(c, self.pure_parser):
            ld = c('')
            f = Feeder(self.doc_events)
            ld.check_event, ld.peek_event, ld.get_event = f.check_event, f.peek_event, f.get_event
            try:
                return ld.get_single_node()
            finally:
                ld.dispose()
        return self.yaml.compose(DOC, Loader=c)

    def p_paths_loader(self, c, ps):
        node = self.compose(c)
        d = {k.value: v for k, v in node.value}
        out = {}
        for p in ps:
            t = d['key1'].tag if p == 'pQ1' else d['key2'].value[0].tag
            out[p] = self.gname.get(t, 'tag:' + t)
        return out

    def p_paths_dumper(self, c, ps):
        """Serialize the representation graph of DOC: a str node on a path for which a path resolver applies does not
        resolve to !!str any more, so its tag has to be written."""
        text = self.yaml.serialize(self.doc_node, Dumper=c)
        out = {}
        for p in ps:
            rx = r'key1: *!' if p == 'dQ1' else r'key2: *(?:\n *- *|\[ *)!'
            out[p] = 'EXPL' if re.search(rx, text) else 'plain'
        return out

    def probes(self, name, plist):
        c = self.cls[name]
        is_loader = hasattr(c, 'construct_document')
        out = {}
        g = {}
        for p in plist:
            g.setdefault(p[0], []).append(p)
        if 'c' in g or 'r' in g or 'i' in g:
            try:
                inst = c('') if is_loader else c(io.StringIO())
            except Exception as e:
                inst = None
                for p in g.get('c', []) + g.get('r', []) + g.get('i', []):
                    out[p] = 'exc:' + type(e).__name__
            if inst is not None:
                try:
                    for p in g.get('c', ()):
                        out[p] = self.guard(self.p_construct, inst, p)
                    for p in g.get('r', ()):
                        out[p] = self.guard(self.p_represent, inst, p)
                    if 'i' in g:
                        r = self.guard(inst.descend_resolver, None, None)   # what compose_document / serialize do first
                        for p in g['i']:
                            out[p] = r if isinstance(r, str) else self.guard(self.p_resolve, inst, p)
                        self.guard(inst.ascend_resolver)
                finally:
                    inst.dispose()
        for kind, fn in (('p', self.p_paths_loader), ('d', self.p_paths_dumper)):
            if kind in g:
                r = self.guard(fn, c, g[kind])
                for p in g[kind]:
                    out[p] = r if isinstance(r, str) else r[p]
        return out


def die_with_parent():
    """a forked child must not outlive the process that waits for it (a killed run leaves nothing behind)"""
    try:
        import ctypes
        ctypes.CDLL(None).prctl(1, 9)        # PR_SET_PDEATHSIG, SIGKILL
    except Exception:
        pass


def probe_list(name, c):
    ps = []
    if hasattr(c, 'construct_document'):
        ps += ['cT1', 'cT2', 'cY1', 'pQ1', 'pQ2']
    if hasattr(c, 'represent_data'):
        ps += ['rT1', 'rT2', 'rY1', 'dQ1', 'dQ2']
    return ps + ['ia', 'iE']


def import_time_behaviour():
    """Behaviour of every shipped loader/dumper before any registration, observed in a forked child so that the
    replaying processes start from classes nobody has used yet."""
    r, wfd = os.pipe()
    pid = os.fork()
    if pid == 0:
        rc = 0
        try:
            os.close(r)
            w = World()
            out = {}
            for name in LOADERS + DUMPERS:
                for p, got in w.probes(name, probe_list(name, w.cls[name])).items():
                    out[name + ' ' + p] = got
            with os.fdopen(wfd, 'w') as f:
                json.dump(out, f)
        except BaseException:
            traceback.print_exc()
            rc = 3
        os._exit(rc)
    os.close(wfd)
    with os.fdopen(r) as f:
        txt = f.read()
    _, status = os.waitpid(pid, 0)
    if status != 0 or not txt:
        raise SystemExit('machinery failure: could not observe the import-time behaviour')
    return {tuple(k.split(' ')): v for k, v in json.loads(txt).items()}


# ------------------------------------------------------------------ comparison of one node with the H prediction
def order(w, st):
    """classes in checking order: subclasses before their bases (a use must not be served by the base's state)"""
    defined = set(st['defined'])
    return [n for n in reversed(list(w.cls)) if n in defined]


def use_all(w, st):
    for name in order(w, st):
        b = st['beh'].get(name)
        if name in MIXINS or not isinstance(b, dict):
            continue
        w.probes(name, list(b))


def compare(w, st, kinds):
    bad, drift = [], 0
    for name in order(w, st):
        c = w.cls[name]
        for k in kinds:
            if not hasattr(c, ATTR[k]):
                continue
            exp = st['eff'][name][k]
            got = w.alpha(name, k)
            if got != exp:
                bad.append({'what': 'table', 'cls': name, 'kind': k, 'expected': exp, 'observed': got})
            # L-only observation: which classes own a table (drift, never a verdict)
            if (ATTR[k] in c.__dict__) != st['own'][name][k]:
                drift += 1
        b = st['beh'].get(name)
        if name in MIXINS or not isinstance(b, dict):
            continue
        got = w.probes(name, list(b))
        for p, exp in b.items():
            if exp == 'BASE':
                exp = w.base_beh[(w.root[name], p)]
            if got[p] != exp:
                bad.append({'what': 'behaviour', 'cls': name, 'probe': p, 'expected': exp, 'observed': got[p]})
    return bad, drift


# ------------------------------------------------------------------ the tree walk (one forked process per node)
NEED = ('hist', 'defined', 'eff', 'beh', 'own')
_KEY = re.compile(r'([{,]\s*)([A-Za-z_]\w*)\s*:')
_STR = re.compile(r'"([^"]*)"')


def to_py(val):
    """a TLC-printed value made of strings, booleans, sequences and records with identifier keys -> Python (via JSON)"""
    t = val.replace('[', '{').replace(']', '}').replace('<<', '[').replace('>>', ']').replace('|->', ':')
    t = _KEY.sub(r'\1"\2":', t).replace('TRUE', 'true').replace('FALSE', 'false')
    try:
        return json.loads(t)
    except ValueError:
        return tlaval.parse(val)


def parse_state(chunk, need=NEED):
    d = {}
    for part in re.split(r'(?m)^/\\ ', chunk):
        name, _, val = part.partition('=')
        name = name.strip()
        if name in need:
            d[name] = _STR.findall(val) if name == 'defined' else to_py(val)
    return d


class Node:
    """one state of the dump: its history, and the rest of it parsed on demand (in the process that checks it)"""
    __slots__ = ('hist', 'raw')

    def __init__(self, raw):
        self.raw = raw
        self.hist = parse_state(raw, ('hist',))['hist']

    def state(self):
        return parse_state(self.raw)


class Walk:
    def __init__(self, w, nodes, kinds, fd):
        self.w, self.nodes, self.kinds, self.fd = w, nodes, kinds, fd
        self.children = {}
        for key, n in nodes.items():
            if n.hist:
                self.children.setdefault(json.dumps(n.hist[:-1]), []).append(key)
        for v in self.children.values():
            v.sort()

    def emit(self, rec):
        os.write(self.fd, (json.dumps(rec, default=str) + '\n').encode())

    def child(self, hist, fn):
        """run fn in a forked copy of this process; whatever it does to the classes stays there"""
        pid = os.fork()
        if pid == 0:
            rc = 0
            try:
                die_with_parent()
                fn()
            except BaseException:
                rc = 3
                try:
                    self.emit({'crash': traceback.format_exc(), 'hist': hist})
                except BaseException:
                    pass
            os._exit(rc)
        _, status = os.waitpid(pid, 0)
        if status != 0 and status != 3 << 8:
            self.emit({'crash': 'child ended with status %d' % status, 'hist': hist})

    def check(self, key, variant):
        st = self.nodes[key].state()
        bad, drift = compare(self.w, st, self.kinds)
        if bad or drift:
            rec = {'v': variant, 'drift': drift}
            if bad:
                rec['hist'], rec['bad'] = st['hist'], bad[:6]
            self.emit(rec)
        else:
            os.write(self.fd, b'p\n' if variant == 'plain' else b'u\n')

    def step(self, key, visit):
        hist = self.nodes[key].hist

        def run():
            self.w.apply(hist[-1])
            visit(key)
        self.child(hist, run)

    def split(self, key):
        kids = self.children.get(key, ())
        inner = [k for k in kids if k in self.children]
        return inner, [k for k in kids if k not in self.children]

    def leaves(self, keys, variant):
        """the histories that end below this node, one after the other in this process: apply the last operation,
        check, put the registries back"""
        saved = self.w.save()
        for k in keys:
            self.w.apply(self.nodes[k].hist[-1])
            self.check(k, variant)
            self.w.restore(saved)

    def below(self, key, visit, variant):
        inner, leaf = self.split(key)
        for k in inner:
            self.step(k, visit)
        if leaf:
            self.child(self.nodes[key].hist, lambda: self.leaves(leaf, variant))

    def visit_plain(self, key):
        self.below(key, self.visit_plain, 'plain')          # before anything is used here
        self.check(key, 'plain')
        if len(self.nodes[key].hist) == 1:                  # the used lineage starts below the one-step histories
            self.below(key, self.visit_used, 'used')

    def visit_used(self, key):
        self.check(key, 'used')
        self.below(key, self.visit_used, 'used')

    def root(self, key):
        """a subtree root is reached from the import-time state by its whole history"""
        hist = self.nodes[key].hist

        def plain():
            for op in hist:
                self.w.apply(op)
            self.visit_plain(key)

        def used():
            st = self.nodes[key].state()
            for j, op in enumerate(hist):
                self.w.apply(op)
                if j + 1 < len(hist):
                    use_all(self.w, st)
            self.visit_used(key)
        self.child(hist, plain)
        if len(hist) >= 2:
            self.child(hist, used)


_W = None


def init_worker(base_beh):
    global _W
    die_with_parent()
    _W = World()
    _W.base_beh = base_beh


def replay_bucket(args):
    path, offsets, kinds = args
    nodes = {}
    with open(path, 'rb') as f:
        for a, b in offsets:
            f.seek(a)
            n = Node(f.read(b - a).decode())
            nodes[json.dumps(n.hist)] = n
    fd, tmp = tempfile.mkstemp(prefix='c10_', dir=ensure_dir(os.path.join(BUILD, 'c10tmp')))
    try:
        wk = Walk(_W, nodes, kinds, fd)
        for key in sorted(nodes):
            h = nodes[key].hist
            if not h or json.dumps(h[:-1]) not in nodes:
                wk.root(key)
        os.close(fd)
        res = {'plain': 0, 'used': 0, 'drift': 0, 'bad': [], 'crash': [], 'samples': []}
        with open(tmp) as f:
            for line in f:
                if line == 'p\n':
                    res['plain'] += 1
                elif line == 'u\n':
                    res['used'] += 1
                else:
                    rec = json.loads(line)
                    if 'crash' in rec:
                        res['crash'].append(rec)
                        continue
                    res[rec['v']] += 1
                    res['drift'] += rec['drift']
                    if 'bad' in rec:
                        for b in rec['bad']:
                            if rec['v'] == 'used':
                                b['variant'] = 'every class used between the steps'
                        res['bad'].append({'hist': rec['hist'], 'mismatch': rec['bad']})
    finally:
        os.unlink(tmp)
    res['samples'] = [n.hist for n in list(nodes.values())[:40] if len(n.hist) >= 2][:1]
    return res


# ------------------------------------------------------------------ the dump of one configuration as a tree of tasks
_HIST = re.compile(rb'(?s)/\\ hist = (.*?)(?=\n/\\ |\Z)')
_OP = re.compile(rb'<<(?:[^<>]|<<[^<>]*>>)*>>')
_STATE = re.compile(rb'(?m)^State \d+:\n')


def index_dump(path):
    """[(start, end, ops)] for every state of the dump; ops = the operations of its history as normalised text"""
    out = []
    if os.path.getsize(path) == 0:
        return out
    with open(path, 'rb') as f:
        mm = mmap.mmap(f.fileno(), 0, access=mmap.ACCESS_READ)
        heads = [(m.start(), m.end()) for m in _STATE.finditer(mm)]
        for i, (hs, he) in enumerate(heads):
            end = heads[i + 1][0] if i + 1 < len(heads) else len(mm)
            m = _HIST.search(mm, he, end)
            txt = b''.join(m.group(1).split())
            ops = _OP.findall(txt[2:-2]) if txt != b'<<>>' else []
            out.append((he, end, ops))
        mm.close()
    return out


def buckets(index, limit=BUCKET_LIMIT):
    """Group the states into subtrees: by the first operation; a group above the limit is split by the next one (its
    root then stands alone)."""
    def split(items, depth):
        groups = {}
        for it in items:
            groups.setdefault(tuple(it[2][:depth]), []).append(it)
        for key, g in sorted(groups.items()):
            if len(g) <= limit or depth >= 3 or all(len(it[2]) <= depth for it in g):
                yield g
            else:
                yield [it for it in g if len(it[2]) <= depth]
                yield from split([it for it in g if len(it[2]) > depth], depth + 1)
    return [g for g in split(index, 1) if g]


def tla_set(xs):
    return '{' + ', '.join('"%s"' % x for x in xs) + '}'


def state_kinds(kinds):
    sk = [k for k in kinds if k in ATTR]
    if 'yobj' in kinds:
        sk = sorted(set(sk) | {'ctor', 'repr'})
    return sk


def main(tier, replay=None):
    from .. import pathres
    v = Verdict('C10', tier)
    quick = tier == 'quick'
    configs = [n for n, c in CONFIGS.items() if (c[4] if quick else c[5])]
    if os.environ.get('VERIF_C10_CONFIGS'):          # development aid: a subset of the configurations
        configs = [n for n in configs if n in os.environ['VERIF_C10_CONFIGS'].split(',')]
    base_beh = import_time_behaviour()
    pool = mp.Pool(16, initializer=init_worker, initargs=(base_beh,))      # before any thread exists in this process
    tworkers = 4 if quick else 6

    def run_config(name):
        targets, kinds, users, fresh, q, t = CONFIGS[name]
        return tlc.run('Registry', cfg='MC_Registry.cfg', dump=True, tag='C10_' + name, timeout=3000, workers=tworkers,
                       coverage=not quick, heap='1g' if quick else '4g',
                       constants={'Targets': tla_set(targets), 'OpKinds': tla_set(kinds), 'Users': tla_set(users),
                                  'MaxHist': q if quick else t, 'FreshVals': 'TRUE' if fresh else 'FALSE'})

    states = transitions = 0
    actions, tlc_actions, per_config, pending = {}, {}, {}, []
    pr_tlc = None
    with ThreadPoolExecutor(5) as ex:                 # at most five TLC runs at a time, the large ones first
        futs = {ex.submit(pathres.run_tlc, tier, tworkers): '#path'}
        futs.update({ex.submit(run_config, n): n for n in configs})
        for fut in as_completed(futs):
            name = futs[fut]
            r = fut.result()
            if name == '#path':
                pr_tlc = r
                pending.append(('#path', None, pathres.submit(pool, r, tier)))
                continue
            if r.violated:
                print(r.out[-3000:])
                raise SystemExit('machinery failure: Registry.tla violates %s in configuration %s' % (r.violated, name))
            tlc.require_ok(r, 'Registry/' + name)
            states += r.distinct
            transitions += r.generated
            for a, c in r.actions.items():
                tlc_actions[a] = tlc_actions.get(a, 0) + c[0]
            index = index_dump(r.dump)
            if len(index) != r.distinct:
                raise SystemExit('machinery failure: %d states in the dump of %s, TLC found %d' % (len(index), name, r.distinct))
            for s, e, ops in index:
                if ops:
                    a = OP_ACTION[ops[-1].split(b'"')[1].decode()]
                    actions[a] = actions.get(a, 0) + 1
            per_config[name] = {'states': r.distinct, 'depth2plus': sum(1 for it in index if len(it[2]) >= 2), 'dump': r.dump,
                                'tlc_wall_s': round(r.wall, 1)}
            sk = state_kinds(CONFIGS[name][1])
            bs = sorted(buckets(index), key=len, reverse=True)
            pending.append((name, None, [pool.apply_async(replay_bucket, ((r.dump, [(s, e) for s, e, _ in b], sk),))
                                         for b in bs]))
    pool.close()
    traces, samples, bad_all = 0, [], []
    pr_out = None
    for name, _, asyncs in pending:
        out = [a.get() for a in asyncs]
        if name == '#path':
            pr_out = out
            continue
        pc = per_config[name]
        plain, used = sum(o['plain'] for o in out), sum(o['used'] for o in out)
        crashes = [c for o in out for c in o['crash']]
        for c in crashes:
            bad_all.append((name, {'hist': c['hist'], 'mismatch': [{'what': 'harness-crash', 'detail': c['crash']}]}))
        if not crashes and (plain != pc['states'] or used != pc['depth2plus']):
            raise SystemExit('machinery failure: %s replayed %d+%d histories, expected %d+%d'
                             % (name, plain, used, pc['states'], pc['depth2plus']))
        pc['replayed_plain'], pc['replayed_used'] = plain, used
        traces += plain + used
        drift = sum(o['drift'] for o in out)
        if drift:
            v.note('spec-drift C10/%s: %d own-table flags differ from the L model (allowed by H)' % (name, drift))
        for o in out:
            samples += o['samples'][:1]
            bad_all += [(name, b) for b in o['bad']]
        os.remove(pc.pop('dump'))
    pool.join()
    for name, b in sorted(bad_all, key=lambda x: (len(x[1]['hist']), x[0], json.dumps(x[1]['hist']), x[1]['mismatch'][0].get('variant', ''))):
        m = b['mismatch'][0]
        key = {'config': name, 'what': m['what'], 'ops': [op[0] + ':' + str(op[1]) for op in b['hist']]}
        v.violation(key, b)
    # what a registered path resolver does: spec/PathResolver.tla, replayed on fresh subclasses
    pr = pathres.collect(v, tier, pr_tlc, pr_out)
    states += pr['states']
    transitions += pr['transitions']
    traces += pr['traces']
    for a in OP_ACTION.values():
        if os.environ.get('VERIF_C10_CONFIGS'):
            break
        if actions.get(a, 0) == 0:
            raise SystemExit('machinery failure: action %s never fired (vacuous run)' % a)
        if not quick and tlc_actions.get(a, 0) == 0:
            raise SystemExit('machinery failure: TLC coverage reports that action %s never fired' % a)
    v.cov = {'states': states, 'transitions': transitions, 'traces_validated_against_impl': traces,
             'samples': samples[:4] + pr['samples'], 'exhaustive': True, 'actions_fired': actions,
             'distinct_nontrivial': sum(pc['depth2plus'] for pc in per_config.values()),
             'rule': 'every reachable state of Registry.tla = one registration history (bounded length, see configs); each '
                     'is replayed on the live classes (one forked process per node of the history tree), once with no '
                     'class used before the end and, from length 2, once with every class used after every step; all '
                     'effective tables + behaviour probes (real dispatch) are compared with the H prediction; '
                     'nontrivial = histories of length >= 2',
             'configs': {n: dict(per_config[n], targets=CONFIGS[n][0], kinds=CONFIGS[n][1], users=CONFIGS[n][2],
                                 fresh_values=CONFIGS[n][3], max_hist=CONFIGS[n][4 if quick else 5]) for n in configs}}
    v.cov['path_resolver_states'] = pr['states']
    v.cov['path_resolver_nodes_compared'] = pr['traces']
    v.assumptions = ['single inheritance for user classes (C3 linearisation of multiple user bases not modelled); user '
                     'classes derive from loaders/dumpers, not from bare mixins',
                     'tables abstracted to 3 keys per kind; all other entries are checked as an unchanged frame',
                     'FreshVals configurations: registered callables/tags are opaque to the registries (step i registers '
                     'value i); the chain configurations choose values freely',
                     'quick tier: action coverage is counted from the last operation of every replayed history, the '
                     'thorough tier also runs TLC with -coverage 1']
    return v.finish()
