"""C15 - dump output honours the formatting options it was given.

spec/H_Format.tla   H: the clauses of the statement over (options as passed, projected output)
spec/Canonical.tla  H: recogniser of the canonical form (push-down monitor over token classes) that yields the denoted events
spec/Format.tla     L: option normalisation, indent stack, write_indent / write_indicator / write_line_break, the five scalar
                    writers over character classes, document marker logic, stream / encoding rule; one action per expect_*
spec/Trace_Format.tla  batch judgement of observations of the real dumpers by H_Format + Canonical

(1) TLC checks L => H on every configuration (all grammatical event streams up to the bound x the configuration's option
    product) and dumps the states;
(2) spec -> code: every finished state (event stream, options) is concretised (seed-dependent representatives per scalar
    class) and written through yaml.emit / serialize_all / dump_all with the Python and the LibYAML dumpers; the real output
    is projected (result type, BOM, line records, block-entry positions from a re-scan, document markers, what both
    readers say, canonical tokens) and JUDGED BY TLC (Trace_Format); L's exact prediction is compared for drift notes only;
(3) code -> spec: seeded random values / event streams and the events of the corpus files, under random option sets from
    the full product, judged the same way.
"""
import glob, hashlib, io, json, os, random, re
import multiprocessing as mp
from .. import tlc, mbt, trace, tlaval
from ..common import Verdict, use_repo, REPO, SEED

# ------------------------------------------------------------------------------------------------ configurations
ALLK = ['w', 'e', 'p', 'm', 'u', 'n', 'l', 'c', 's', 'i', 'k', 'b', 'f', 'g', 'h']


def S(*xs):
    return '{' + ', '.join(('"%s"' % x) if isinstance(x, str) else ('TRUE' if x is True else 'FALSE' if x is False else str(x)) for x in xs) + '}'


NONE = 100            # how a configuration file writes None for indent / width
TAGIDS = S('1e', '1q', '2e', '2q', '2p', 'Xe', 'Xq', 'Xp', 'Ye', 'Yq', 'Yp', 'Ue', 'Uq', 'Up', '-u')
BASE = dict(Indents=S(NONE), Widths=S(NONE), LineBreaks=S('N'), Encodings=S('N'), Streams=S('none'), ExplStart=S(False),
            ExplEnd=S(False), Versions=S('N'), TagSets=S('N'), TagSets2=S('same'), Canon=S(False), Unicode=S(False), Apis=S('dump'),
            ScalarKinds=S('w'), CollKinds=S('BS', 'FS', 'BM', 'FM'), Anchors='FALSE', ExplicitTags='FALSE',
            LongClasses=S(), LongLens=S(), LongStyles=S('P'), FixD12='FALSE', TagIds=S(), InnerAnchors='FALSE', Share='FALSE', NodeBudget='FALSE',
            MaxEvents=6, MaxDepth=3, MaxDocs=1)
ALLIND = S(NONE, 0, 1, 2, 3, 4, 5, 6, 7, 8, 9, 10)
ALLWID = S(NONE, 0, 1, 5, 20, 80)
CONFIGS = {
    # nesting: every block / flow nesting x every indent value
    'nest':    dict(BASE, Indents=ALLIND, MaxEvents=5, MaxDepth=3),
    'nest+':   dict(BASE, Indents=ALLIND, MaxEvents=7, MaxDepth=4),
    # width: folding of plain scalars and flow collections x every width x canonical
    'width':   dict(BASE, Indents=S(NONE, 4), Widths=ALLWID, Canon=S(False, True), ScalarKinds=S('w', 'p'),
                    CollKinds=S('BS', 'FS', 'BM', 'FM'), MaxEvents=4, MaxDepth=2),
    'width+':  dict(BASE, Indents=S(NONE, 3, 9), Widths=ALLWID, Canon=S(False, True), ScalarKinds=S('w', 'p', 'f'),
                    CollKinds=S('BS', 'FS', 'BM', 'FM'), MaxEvents=5, MaxDepth=3),
    # keys: simple / complex keys, aliases, empty collections as keys
    'keys':    dict(BASE, Indents=S(NONE, 3), ScalarKinds=S('w', 'e', 'm', 'k'), CollKinds=S('BM', 'BS', 'FS'), Anchors='TRUE',
                    MaxEvents=5, MaxDepth=2),
    'keys+':   dict(BASE, Indents=S(NONE, 3), ScalarKinds=S('w', 'e', 'm', 'k', 'z'), CollKinds=S('BM', 'BS', 'FS'),
                    Anchors='TRUE', MaxEvents=6, MaxDepth=2),
    # scalars: every scalar class in every context x allow_unicode x explicit tags
    'scalars': dict(BASE, Indents=S(NONE, 4), Widths=S(NONE, 5), Unicode=S(False, True), ScalarKinds=S(*ALLK),
                    CollKinds=S('BS', 'BM', 'FS'), MaxEvents=4, MaxDepth=2),
    'scalars+': dict(BASE, Indents=S(NONE, 4), Widths=S(NONE, 5), Unicode=S(False, True), ScalarKinds=S(*ALLK),
                     CollKinds=S('BS', 'BM', 'FS'), ExplicitTags='TRUE', MaxEvents=4, MaxDepth=2),
    # docs: document markers and directives for every document
    'docs':    dict(BASE, ExplStart=S(False, True), ExplEnd=S(False, True), Versions=S('N', '1.1', '1.2'),
                    TagSets=S('N', 'T1', 'TU'), Canon=S(False, True), ScalarKinds=S('w', 'g'), CollKinds=S('BS'),
                    MaxEvents=6, MaxDepth=1, MaxDocs=2),
    'docs+':   dict(BASE, ExplStart=S(False, True), ExplEnd=S(False, True), Versions=S('N', '1.1', '1.2'),
                    TagSets=S('N', 'T1', 'T2', 'TU'), Canon=S(False, True), ScalarKinds=S('w', 'g', 'm'), CollKinds=S('BS'),
                    MaxEvents=7, MaxDepth=1, MaxDocs=3),
    # enc: line break x encoding x stream x api x allow_unicode
    'enc':     dict(BASE, LineBreaks=S('N', 'CR', 'LF', 'CRLF', 'J'), Encodings=S('N', 'utf-8', 'utf-16-le', 'utf-16-be'),
                    Streams=S('none', 'text', 'binary'), Apis=S('dump', 'serialize', 'emit'), Unicode=S(False, True),
                    ScalarKinds=S('w', 'u', 'n', 'm', 'b', 'h', 'g', 'f'), CollKinds=S('BS'), MaxEvents=3, MaxDepth=1),
    'enc+':    dict(BASE, LineBreaks=S('N', 'CR', 'LF', 'CRLF', 'J'), Encodings=S('N', 'utf-8', 'utf-16-le', 'utf-16-be'),
                    Streams=S('none', 'text', 'binary'), Apis=S('dump', 'serialize', 'emit'), Unicode=S(False, True),
                    Canon=S(False, True), ScalarKinds=S('w', 'u', 'n', 'm', 'b', 'h', 'g', 'f', 'c'), CollKinds=S('BS'), MaxEvents=4,
                    MaxDepth=1),
    # canon: the canonical form of every structure
    'canon':   dict(BASE, Indents=S(NONE, 4), Widths=S(NONE, 5), Canon=S(True), Unicode=S(False, True),
                    ScalarKinds=S('w', 'e', 'm', 'u'), Anchors='TRUE', ExplicitTags='TRUE', MaxEvents=3, MaxDepth=2),
    'canon+':  dict(BASE, Indents=S(NONE, 4), Widths=S(NONE, 5), Canon=S(True), Unicode=S(False, True),
                    ScalarKinds=S('w', 'e', 'm', 'u', 'n'), Anchors='TRUE', ExplicitTags='TRUE', MaxEvents=4, MaxDepth=2),
    # tags: the explicit tag of a node related to every tag prefix that can be in force (the defaults '!' and 'tag:yaml.org,2002:',
    # and those the tags option declares) as proper extension / EQUAL / proper prefix / unrelated, on scalars and collections,
    # x tags option (incl. one that REDEFINES '!' / '!!': the default prefix of that handle is retired) x canonical: which of
    # handle + suffix, '!', or !<verbatim> is written, and can it be read back
    'tags':    dict(BASE, TagSets=S('N', 'T2', 'R1', 'R2'), Canon=S(False, True), TagIds=TAGIDS, ScalarKinds=S('w'), CollKinds=S('BS', 'BM', 'FS'),
                    MaxEvents=3, MaxDepth=1),
    'tags+':   dict(BASE, Indents=S(NONE, 4), TagSets=S('N', 'T1', 'T2', 'TU', 'R1', 'R2'), Canon=S(False, True), TagIds=TAGIDS, ScalarKinds=S('w', 'm'),
                    CollKinds=S('BS', 'BM', 'FS', 'FM'), MaxEvents=3, MaxDepth=1),
    # longkeys: long lexemes (macro-symbols) around the two length constants that decide whether a key may be a simple key -
    # the emitter's 128 (anchor + tag + raw scalar) and the reader's 1024 (characters as written) - x character class
    # (ASCII, BMP non-ASCII, astral, escaped control, quote) x requested style x allow_unicode, as root / item / block key / flow key
    'longkeys':  dict(BASE, Unicode=S(False, True), LongClasses=S('a', 'v', 'U', 'x', 'q'), LongStyles=S('P', 'S', 'D'),
                      LongLens=S(102, 103, 122, 123, 128, 1018, 1019, 1023, 1024),
                      ScalarKinds=S(), CollKinds=S('BM', 'FM'), MaxEvents=3, MaxDepth=1),
    'longkeys+': dict(BASE, Unicode=S(False, True), LongClasses=S('a', 'v', 'U', 'x', 'q'), LongStyles=S('P', 'S', 'D'),
                      LongLens=S(*(list(range(100, 105)) + list(range(120, 131)) + list(range(168, 173)) + list(range(253, 258)) + list(range(1000, 1031)))),
                      ScalarKinds=S(), CollKinds=S('BS', 'BM', 'FS', 'FM'), ExplicitTags='TRUE', MaxEvents=3, MaxDepth=1),
    # share: the documents of ONE dump_all / serialize_all call share objects - a collection written in an earlier document
    # occurs (same object) in a later one, at the root or inside, once or twice - x the per-document options (markers, canonical);
    # sharefmt: the same x the layout / encoding / directive options.  MaxEvents bounds the NODES here (NodeBudget).
    # Only the streams with a shared object are replayed (the others are the docs configuration's).
    'share':     dict(BASE, ExplStart=S(False, True), ExplEnd=S(False, True), Canon=S(False, True), CollKinds=S('BS', 'BM'),
                      Share='TRUE', NodeBudget='TRUE', MaxEvents=4, MaxDepth=2, MaxDocs=3),
    'sharefmt':  dict(BASE, Indents=S(NONE, 4), LineBreaks=S('N', 'CRLF'), Encodings=S('N', 'utf-16-le'),
                      Versions=S('N', '1.1'), TagSets=S('N', 'T1'), CollKinds=S('BS', 'BM'),
                      Share='TRUE', NodeBudget='TRUE', MaxEvents=3, MaxDepth=2, MaxDocs=2),
    'share+':    dict(BASE, ExplStart=S(False, True), ExplEnd=S(False, True), Canon=S(False, True), Versions=S('N', '1.1'),
                      CollKinds=S('BS', 'BM'), Share='TRUE', NodeBudget='TRUE', MaxEvents=5, MaxDepth=2, MaxDocs=3),
    'sharefmt+': dict(BASE, Indents=S(NONE, 4), Widths=S(NONE, 5), LineBreaks=S('N', 'CRLF'), Encodings=S('N', 'utf-16-le'),
                      TagSets=S('N', 'T1'), CollKinds=S('BS', 'BM'), Anchors='TRUE',
                      Share='TRUE', NodeBudget='TRUE', MaxEvents=4, MaxDepth=2, MaxDocs=2),
    # doctags: a caller of emit() gives every DocumentStartEvent its own tags: the second document declares other handles than the
    # first (none / fewer / more / a redefined default) x a root node whose tag every one of these prefixes may or may not abbreviate
    'doctags':   dict(BASE, Apis=S('emit'), TagSets=S('N', 'T1', 'T2', 'R2'), TagSets2=S('same', 'N', 'T1', 'T2', 'R2'), Canon=S(False, True),
                      TagIds=S('1e', '2e', 'Xe', 'Xq', 'Ye', '-u'), CollKinds=S(), NodeBudget='TRUE', MaxEvents=2, MaxDepth=0, MaxDocs=2),
    # anchors: EVERY collection may carry an anchor and be aliased later in its document (also from inside itself) - the
    # in-document sharing the Serializer expresses with &id001 / *id001, x canonical x indent (an anchored block collection
    # starts on the next line); all streams through emit(), those the Serializer can produce also through serialize_all / dump_all
    'anchors':   dict(BASE, Indents=S(NONE, 3), Canon=S(False, True), CollKinds=S('BS', 'BM'), Anchors='TRUE', InnerAnchors='TRUE',
                      NodeBudget='TRUE', MaxEvents=4, MaxDepth=2),
    'anchors+':  dict(BASE, Indents=S(NONE, 3), Canon=S(False, True), CollKinds=S('BS', 'BM'), Anchors='TRUE', InnerAnchors='TRUE',
                      NodeBudget='TRUE', MaxEvents=5, MaxDepth=2),
    # full: a tiny structure space x the FULL option product (design check + replay)
    'full':    dict(BASE, Indents=ALLIND, Widths=ALLWID, LineBreaks=S('N', 'CR', 'LF', 'CRLF', 'J'),
                    Encodings=S('N', 'utf-8', 'utf-16-le', 'utf-16-be'), Streams=S('none', 'text', 'binary'),
                    ExplStart=S(False, True), ExplEnd=S(False, True), Versions=S('N', '1.1', '1.2'), TagSets=S('N', 'T1'),
                    Canon=S(False, True), Unicode=S(False, True), Apis=S('dump'), ScalarKinds=S('w'), CollKinds=S('BS', 'BM'),
                    MaxEvents=1, MaxDepth=0),
}
# 'full' is a design check only (no replay): the full option product over the smallest structure
TIERS = {'quick': ['nest', 'scalars', 'keys', 'tags', 'longkeys', 'share', 'anchors', 'width', 'docs', 'enc', 'canon', 'sharefmt', 'doctags'],
         'thorough': ['nest+', 'scalars+', 'keys+', 'tags+', 'longkeys+', 'share+', 'sharefmt+', 'anchors+', 'doctags', 'width+', 'docs+', 'enc+', 'canon+', 'full']}

# ------------------------------------------------------------------------------------------------ concretisation tables
WORDS = 'aaaa bbbb cccc dddd eeee ffff'
REPS = {   # first entry = the text the model's class stands for (exact L prediction); the others: same class, other members
    'w': ['a', 'Z', 'x9', 'foo-bar', 'q_r'],
    'e': [''],
    'z': [''],
    'p': [WORDS, 'lorem ipsum dolor sit amet consectetur adipiscing', 'x y z', 'one two three four five six seven eight nine ten ' * 3 + 'end'],
    'm': ['a\na', 'first line\nsecond line', 'a\n\nb', 'x\ny\nz'],
    'u': ['\u00e9', '\u65e5\u672c\u8a9e', '\U0001F600', 'na\u00efve caf\u00e9', '\u00a0', '\ud7ff\ue000\ufffd'],
    'n': ['a\x85a', 'x\x85y', 'a\x85b\x85c'],
    'l': ['a\u2028a', 'a\u2029a', 'a\u2028\u2029b'],
    'c': ['\x07', '\x00', 'a\tb', '\x1b[0m', 'a\rb', 'a\r\nb', '\ufeff', '\x7f', '\x9f', 'a\r'],
    's': [' a', '  lead', ' x y'],
    'i': ['!a', '&a', '*a', '#a', '%a', '@a', '`a', '|a', '>a', '{a', '[a'],
    'k': ['a' * 130, 'k' * 200, 'w' * 128],
    'b': ['a\na\n', 'x\ny\n', 'line\nline\n'],
    'f': [WORDS + '\n', 'lorem ipsum dolor sit amet consectetur adipiscing\n'],
    'g': ['a\n\n', 'z\n\n\n'],
    'h': ['a\na', 'x\ny\nz', 'no final\nbreak'],
}
STYLE = {'b': '|', 'g': '|', 'h': '|', 'f': '>'}
# long lexemes: one character repeated n times; the first representative is the one L's escape lengths are exact for
LONG = {'a': ['k', 'Z', '7'], 'v': ['\u0436', '\u65e5', '\u0100', '\ud7ff'], 'U': ['\U0001F600', '\U00010000', '\U0010fffe'],
        'x': ['\x07', '\x01', '\x7f', '\x1b'], 'q': ['"']}
TAGS = {'N': None, 'T1': {'!x!': 'tag:x.org,2002:'}, 'T2': {'!x!': 'tag:x.org,2002:', '!y!': '!local-'},
        'TU': {'!u!': 'tag:\u00fc.org,2002:'},
        'R1': {'!': 'tag:x.org,2002:'}, 'R2': {'!!': 'tag:x.org,2002:'}}       # the tags option REDEFINES a default handle
LB = {'N': None, 'CR': '\r', 'LF': '\n', 'CRLF': '\r\n'}
JUNK = ['x', '\n\r', '', ' ', '\x85', 'LF']
YSTR, YSEQ, YMAP = 'tag:yaml.org,2002:str', 'tag:yaml.org,2002:seq', 'tag:yaml.org,2002:map'
PREFIX = {'1': '!', '2': 'tag:yaml.org,2002:', 'X': 'tag:x.org,2002:', 'Y': '!local-', 'U': 'tag:\u00fc.org,2002:'}


def tag_of(e, default):
    """the tag a model event stands for: <<p, rel>> = related to the prefix p as proper extension / equal / proper prefix"""
    p, rel = e['g']
    if rel == '-':
        return default
    if rel == 'u':
        return 'x-private:tag'
    return PREFIX[p] + 'foo' if rel == 'e' else PREFIX[p] if rel == 'q' else PREFIX[p][:-1]



class NotExpressible(Exception):
    pass


def serializer_anchors(doc):
    """could the Serializer have produced the anchors of this document?  it anchors exactly the nodes that occur again (as
    aliases) in the same document"""
    anchored = {e.get('o', 0) for e in doc if e['a']}
    aliased = {e.get('o', 0) for e in doc if e['k'] == 'Alias'}
    if anchored == aliased:
        return True
    return anchored == {doc[0].get('o', 0)} and aliased == {0}          # streams recorded before objects had identities


def skip_subtree(doc, pos):
    """pos[0] is just behind a collection start: move it behind the matching end"""
    level = 1
    while level:
        k = doc[pos[0]]['k']
        level += 1 if k in ('SequenceStart', 'MappingStart') else -1 if k in ('SequenceEnd', 'MappingEnd') else 0
        pos[0] += 1


def shares_objects(evs):
    """does some collection of the stream occur a second time (written again in a later document)?"""
    return any(e['k'] in ('SequenceStart', 'MappingStart') and e.get('o', 0) not in (0, i + 1) for i, e in enumerate(evs))


def hopt(o, api):
    """option record in the vocabulary of H_Format (what the caller passed)"""
    tags = o['tags']
    return {'indent': o['indent'], 'width': o['width'], 'lb': o['lb'], 'enc': o['enc'], 'stream': o['stream'],
            'es': bool(o['es']), 'ee': bool(o['ee']), 'ver': o['ver'],
            'tags': [[h, tags[h]] for h in sorted(tags)] if isinstance(tags, dict) and o.get('tags2', 'same') == 'same' else [], 'canon': bool(o['canon']), 'au': bool(o['au'])}


def kwargs(o, rnd, emit):
    """keyword arguments for the real call"""
    def tri(b):
        return True if b else rnd.choice([None, False])
    kw = dict(canonical=tri(o['canon']), indent=None if o['indent'] == -1 else o['indent'],
              width=None if o['width'] == -1 else o['width'], allow_unicode=tri(o['au']),
              line_break=rnd.choice(JUNK) if o['lb'] == 'J' else LB[o['lb']])
    if not emit:
        kw.update(encoding=None if o['enc'] == 'N' else o['enc'], explicit_start=tri(o['es']), explicit_end=tri(o['ee']),
                  version=None if o['ver'] == 'N' else tuple(int(x) for x in o['ver'].split('.')),
                  tags=dict(o['tags']) if isinstance(o['tags'], dict) else None)
    return kw


# ------------------------------------------------------------------------------------------------ projection (trusted, total)
BREAKS = {'\n': 'LF', '\r': 'CR', '\x85': 'NEL', '\u2028': 'LS', '\u2029': 'PS'}


def split_lines(text):
    out, i, n, start = [], 0, len(text), 0
    while i < n:
        ch = text[i]
        if ch == '\r' and i + 1 < n and text[i + 1] == '\n':
            out.append((text[start:i], 'CRLF'))
            i += 2
            start = i
            continue
        if ch in BREAKS:
            out.append((text[start:i], BREAKS[ch]))
            i += 1
            start = i
            continue
        i += 1
    if start < n:
        out.append((text[start:], 'EOF'))
    return out


def char_class(ch):
    c = ord(ch)
    if 0x20 <= c <= 0x7e:
        return 'ascii'
    if c == 9:
        return 'tab'
    if c < 0x20 or 0x7f <= c < 0xa0:
        return 'ctrl'
    if c == 0xfeff:
        return 'bom'
    if 0xd800 <= c <= 0xdfff:
        return 'surrogate'
    if c in (0xfffe, 0xffff):
        return 'nonchar'
    return 'uni'


def line_records(text):
    recs = []
    for s, brk in split_lines(text):
        body = s.lstrip(' ')
        recs.append({'ind': len(s) - len(body), 'brk': brk, 'cls': sorted({char_class(c) for c in body})})
    return recs


def scan_structure(yaml, text, lines):
    """BLOCK-ENTRY / block-context KEY tokens and the top-level markers of the re-scanned text (Python scanner; C09 vouches
    for its marks). -> entries [[kind, line, col, first, ind]], marks [[k, a, b]], scan outcome"""
    T = yaml.tokens
    entries, marks, flow, outcome = [], [], 0, 'ok'
    try:
        for tk in yaml.scan(text, Loader=yaml.Loader):
            if isinstance(tk, (T.StreamStartToken, T.StreamEndToken)):
                continue
            if isinstance(tk, T.DirectiveToken):
                if tk.name == 'YAML':
                    marks.append(['YAML', '%d.%d' % tuple(tk.value), ''])
                elif tk.name == 'TAG':
                    marks.append(['TAG', tk.value[0], tk.value[1]])
                continue
            if isinstance(tk, T.DocumentStartToken):
                marks.append(['DS', '', ''])
                continue
            if isinstance(tk, T.DocumentEndToken):
                marks.append(['DE', '', ''])
                continue
            if not marks or marks[-1][0] != 'X':
                marks.append(['X', '', ''])
            if isinstance(tk, (T.FlowSequenceStartToken, T.FlowMappingStartToken)):
                flow += 1
            elif isinstance(tk, (T.FlowSequenceEndToken, T.FlowMappingEndToken)):
                flow -= 1
            elif isinstance(tk, T.BlockEntryToken) or (isinstance(tk, T.KeyToken) and flow == 0):
                m = tk.start_mark
                ln = lines[m.line] if m.line < len(lines) else None
                first = ln is not None and m.column == ln['ind']
                kind = '-' if isinstance(tk, T.BlockEntryToken) else ('?' if text[m.index:m.index + 1] == '?' and
                                                                      text[m.index + 1:m.index + 2] in ' \r\n\x85\u2028\u2029' else 'key')
                entries.append([kind, m.line + 1, m.column, first, ln['ind'] if ln else -1])
    except yaml.YAMLError:
        outcome = 'yamlerror'
    except Exception as e:          # the verdict on this is clause (a), taken from the readers below
        outcome = 'exception:' + type(e).__name__
    return entries, marks, outcome


_QKEY = re.compile(r'''("(?:\\.|[^"\\])*"|'(?:[^']|'')*')[ ]*:(?=[ ]|$)''')
_PKEY = re.compile(r'''(?:^|[ ])([^\s"'&!*\[\]{},:][^\s]{1000,}?):(?=[ ]|$)''')
_PROPS = re.compile(r'''((?:[&!][^\s]*[ ]+)*)$''')


def reject_class(text, e):
    """why does the library's reader reject the text?  key item of clause-a violations only.  Looks in the TEXT (not at the
    reader's message, which varies with what follows) for a mapping key written as a simple key - scalar directly followed by
    ':' - whose written form, anchor and tag included, is longer than the 1024 characters after which the scanner no longer
    takes it for a simple key; raw = length of the key scalar itself (the emitter's own rule admits simple keys below 128)."""
    for line, _ in split_lines(text):
        if len(line) <= 1024:
            continue
        for m in _QKEY.finditer(line):
            props = _PROPS.search(line[:m.start()]).group(1)
            if len(props) + len(m.group(1)) > 1024:
                k = m.group(1)
                if k[0] == '"':
                    toks = canon_lex(k)
                    raw = len(unhex(toks[0][1])) if toks and toks[0][0] == 'SCALAR' else len(k)
                else:
                    raw = len(k[1:-1].replace("''", "'"))
                return 'simple key of %s raw characters is longer than 1024 written characters' % ('< 128' if raw < 128 else '>= 128')
        for m in _PKEY.finditer(line):
            props = _PROPS.search(line[:m.start(1)]).group(1)
            if len(props) + len(m.group(1)) > 1024:
                return 'simple key of >= 128 raw characters is longer than 1024 written characters'
    return 'other: ' + str(getattr(e, 'problem', '') or '')[:60]


def hexs(s):
    return '.'.join('%X' % ord(c) for c in s)


def unhex(s):
    return ''.join(chr(int(x, 16)) for x in s.split('.')) if s else ''


# -- lexer of the canonical form (written from the form, see Canonical.tla; independent of scanner.py and emitter.py)
_ESC = {'0': '\0', 'a': '\x07', 'b': '\x08', 't': '\t', '\t': '\t', 'n': '\n', 'v': '\x0b', 'f': '\x0c', 'r': '\r', 'e': '\x1b',
        ' ': ' ', '"': '"', '/': '/', '\\': '\\', 'N': '\x85', '_': '\xa0', 'L': '\u2028', 'P': '\u2029'}
_WS = ' \t\r\n'


def _unpercent(s):
    if '%' not in s:
        return s
    out, i, raw = [], 0, bytearray()
    while i < len(s):
        if s[i] == '%' and re.fullmatch(r'[0-9A-Fa-f]{2}', s[i + 1:i + 3] or ''):
            raw.append(int(s[i + 1:i + 3], 16))
            i += 3
            continue
        if raw:
            out.append(raw.decode('utf-8'))
            raw = bytearray()
        out.append(s[i])
        i += 1
    if raw:
        out.append(raw.decode('utf-8'))
    return ''.join(out)


def canon_lex(text):
    toks, i, n = [], 0, len(text)
    try:
        while True:
            while i < n and text[i] in _WS:
                i += 1
            if i >= n:
                break
            ch = text[i]
            bol = i == 0 or text[i - 1] in '\r\n'
            if ch == '%' and bol:
                j = i
                while j < n and text[j] not in '\r\n':
                    j += 1
                parts = text[i:j].split()
                if parts[0] == '%YAML' and len(parts) == 2:
                    toks.append(['YAML', parts[1], ''])
                elif parts[0] == '%TAG' and len(parts) == 3:
                    toks.append(['TAGDIR', parts[1], _unpercent(parts[2])])
                else:
                    raise ValueError
                i = j
            elif text.startswith('---', i) and bol and (i + 3 >= n or text[i + 3] in _WS):
                toks.append(['DS', '', ''])
                i += 3
            elif text.startswith('...', i) and bol and (i + 3 >= n or text[i + 3] in _WS):
                toks.append(['DE', '', ''])
                i += 3
            elif ch in '[]{},':
                toks.append([{'[': 'LSQ', ']': 'RSQ', '{': 'LBR', '}': 'RBR', ',': 'COMMA'}[ch], '', ''])
                i += 1
            elif ch in '?:' and (i + 1 >= n or text[i + 1] in _WS):
                toks.append(['QM' if ch == '?' else 'COLON', '', ''])
                i += 1
            elif ch in '&*':
                j = i + 1
                while j < n and (text[j].isalnum() and ord(text[j]) < 128 or text[j] in '-_'):
                    j += 1
                toks.append(['ANCHOR' if ch == '&' else 'ALIAS', text[i + 1:j], ''])
                i = j
            elif ch == '!':
                j = i
                while j < n and text[j] not in _WS:
                    j += 1
                t = text[i:j]
                if t.startswith('!<') and t.endswith('>'):
                    toks.append(['TAG', '', _unpercent(t[2:-1])])
                elif t == '!':
                    toks.append(['TAG', '', '!'])                 # the non-specific tag, not the primary handle
                else:
                    k = t.find('!', 1)
                    if k > 0:
                        toks.append(['TAG', t[:k + 1], _unpercent(t[k + 1:])])
                    else:
                        toks.append(['TAG', '!', _unpercent(t[1:])])
                i = j
            elif ch == '"':
                i += 1
                out = []          # list of (char, literal?)  - trailing literal blanks before a line fold are dropped
                while True:
                    if i >= n:
                        raise ValueError
                    c = text[i]
                    if c == '"':
                        i += 1
                        break
                    if c == '\\':
                        d = text[i + 1]
                        if d in '\r\n':                      # escaped line break: joins the lines
                            i += 3 if text[i + 1:i + 3] == '\r\n' else 2
                            while i < n and text[i] in ' \t':
                                i += 1
                        elif d in 'xuU':
                            k = {'x': 2, 'u': 4, 'U': 8}[d]
                            out.append((chr(int(text[i + 2:i + 2 + k], 16)), False))
                            i += 2 + k
                        elif d in _ESC:
                            out.append((_ESC[d], False))
                            i += 2
                        else:
                            raise ValueError
                    elif c in '\r\n':                        # line folding
                        while out and out[-1][1] and out[-1][0] in ' \t':
                            out.pop()
                        nb = 0
                        while i < n and text[i] in ' \t\r\n':
                            if text[i] == '\r' and text[i + 1:i + 2] == '\n':
                                i += 1
                            if text[i] in '\r\n':
                                nb += 1
                            i += 1
                        out.extend([(' ', False)] if nb == 1 else [('\n', False)] * (nb - 1))
                    else:
                        out.append((c, True))
                        i += 1
                toks.append(['SCALAR', hexs(''.join(c for c, _ in out)), ''])
            else:
                raise ValueError
    except (ValueError, IndexError, UnicodeDecodeError):
        toks.append(['ERR', str(i), ''])
    return toks


def cevents_of(events):
    """events that were dumped -> [[kind, anchor, tag, value]] (document level only)"""
    out = []
    for e in events:
        k = type(e).__name__[:-5]
        if k in ('StreamStart', 'StreamEnd'):
            continue
        out.append([k, getattr(e, 'anchor', None) or '', getattr(e, 'tag', None) or '' if k != 'Alias' else '',
                    hexs(e.value) if k == 'Scalar' else ''])
    return out


def refs_of(events):
    """the anchors and aliases a caller of emit() supplies, per document (H_Format: obs.refs)"""
    out = []
    for e in events:
        k = type(e).__name__
        if k == 'DocumentStartEvent':
            out.append(['doc', ''])
        elif k == 'AliasEvent':
            out.append(['alias', e.anchor or ''])
        elif getattr(e, 'anchor', None):
            out.append(['anchor', e.anchor])
    return out


def observe(yaml, call, o, ndocs, sink, refs=()):
    """run one dump call and project it. call(stream) -> result; sink: 'none' | 'text' | 'binary'; refs: refs_of(events) for emit().
    -> (obs, text, aux) ; aux carries the un-compressed per-line / per-entry lists for the L comparison"""
    stream = None if sink == 'none' else io.StringIO() if sink == 'text' else io.BytesIO()
    obs = {'outcome': 'ok', 'rtype': '-', 'decodes': True, 'bom': 'none', 'lines': [], 'entries': [], 'marks': [], 'ndocs': ndocs,
           'reread': [], 'recompose': [], 'refs': [list(x) for x in refs]}
    aux = {'exc': '', 'lines': [], 'entries': [], 'marks': [], 'scan': 'ok', 'reread': []}
    try:
        res = call(stream)
        if stream is not None:
            res = stream.getvalue()
    except yaml.YAMLError as e:
        obs['outcome'] = 'yamlerror'
        aux['exc'] = '%s: %s' % (type(e).__name__, str(e)[:200])
        return obs, None, aux
    except Exception as e:
        obs['outcome'] = 'exception'
        aux['exc'] = '%s: %s' % (type(e).__name__, str(e)[:200])
        return obs, None, aux
    if isinstance(res, bytes):
        obs['rtype'] = 'bytes'
        obs['bom'] = 'le' if res[:2] == b'\xff\xfe' else 'be' if res[:2] == b'\xfe\xff' else 'utf8' if res[:3] == b'\xef\xbb\xbf' else 'none'
        try:
            text = res.decode(o['enc'] if o['enc'] != 'N' else 'utf-8')
        except Exception:
            obs['decodes'] = False
            text = res.decode('latin-1')
        if text[:1] == '\ufeff':                 # the encoding signature is not part of the text
            text = text[1:]
    elif isinstance(res, str):
        obs['rtype'] = 'str'
        text = res
    else:
        obs['rtype'] = type(res).__name__
        text = ''
    lines = line_records(text)
    entries, marks, scan = scan_structure(yaml, text, lines)
    for L in (yaml.Loader, yaml.CLoader):
        try:
            for _ in yaml.parse(res, Loader=L):
                pass
            obs['reread'].append('ok')
        except yaml.YAMLError as e:
            obs['reread'].append('yamlerror')
            aux['reread'].append('%s: %s' % (L.__name__, str(e)[:300]))
            if L is yaml.Loader and 'reject' not in aux:
                aux['reject'] = reject_class(text, e)
        except Exception as e:
            obs['reread'].append('exception')
            aux['reread'].append('%s: %s: %s' % (L.__name__, type(e).__name__, str(e)[:300]))
    for L in (yaml.Loader, yaml.CLoader):               # ... and the composition of the events into documents
        if obs['reread'] != ['ok', 'ok']:
            break                                        # the earlier stage already rejects the text
        try:
            for _ in yaml.compose_all(res, Loader=L):
                pass
            obs['recompose'].append('ok')
        except yaml.YAMLError as e:
            obs['recompose'].append('yamlerror')
            aux['reread'].append('compose_all, %s: %s' % (L.__name__, ' / '.join(x.strip() for x in str(e).splitlines()[:2])[:300]))
            aux.setdefault('reject', 'composition: ' + str(getattr(e, 'problem', '') or '')[:60].split("'")[0].strip())
        except Exception as e:
            obs['recompose'].append('exception')
            aux['reread'].append('compose_all, %s: %s: %s' % (L.__name__, type(e).__name__, str(e)[:300]))
    aux.update(lines=lines, entries=entries, marks=marks, scan=scan)
    # compression that preserves every quantifier of H: distinct line kinds, distinct (indentation, first) pairs
    seen, out = set(), []
    for r in lines:
        key = (r['brk'], tuple(r['cls']))
        if key not in seen:
            seen.add(key)
            out.append({'ind': r['ind'], 'brk': r['brk'], 'cls': r['cls']})
    obs['lines'] = out
    obs['entries'] = [{'ind': i, 'first': f} for i, f in sorted({(e[4], e[3]) for e in entries})]
    obs['marks'] = [{'k': m[0], 'a': m[1], 'b': m[2]} for m in marks]
    return obs, text, aux


def mktrace(o, api, obs, text, events):
    t = {'o': hopt(o, api), 'obs': obs, 'canon': False, 'ctoks': [], 'cevents': []}
    if o['canon'] and obs['outcome'] == 'ok' and text is not None:
        t['canon'] = True
        t['ctoks'] = canon_lex(text)
        t['cevents'] = cevents_of(events)
        if api != 'emit':
            # dump_all / serialize_all: the anchor NAMES are the library's choice (the reference events come from the pure-Python
            # serializer, the text possibly from LibYAML's): both sides are compared up to a renaming of the anchors of each
            # document, in order of first appearance.  emit(): the caller's names must be written as given.
            names = {}
            for x in t['ctoks']:
                if x[0] == 'DS':
                    names = {}
                elif x[0] in ('ANCHOR', 'ALIAS'):
                    x[1] = names.setdefault(x[1], 'n%d' % (len(names) + 1))
            names = {}
            for x in t['cevents']:
                if x[0] == 'DocumentStart':
                    names = {}
                elif x[1]:
                    x[1] = names.setdefault(x[1], 'n%d' % (len(names) + 1))
    return t


# ------------------------------------------------------------------------------------------------ spec -> code
def make_builders(yaml):
    E, N = yaml.events, yaml.nodes

    def pick(kind, base, rnd, e=None):
        if e is not None and e['n'] > 0:
            return (LONG[kind][0] if base else rnd.choice(LONG[kind])) * e['n']
        reps = REPS[kind]
        return reps[0] if base else rnd.choice(reps)

    def style_of(e):
        return {'P': None, 'S': "'", 'D': '"'}[e['y']] if e['n'] > 0 else STYLE.get(e['s'])

    def events(evs, o, base, rnd, enc):
        out = [E.StreamStartEvent(encoding=enc)]
        tags = o['tags'] if isinstance(o['tags'], dict) else None
        tags2 = tags if o.get('tags2', 'same') == 'same' else o['tags2']        # the tags of the documents after the first
        ndoc = 0
        ver = None if o['ver'] == 'N' else tuple(int(x) for x in o['ver'].split('.'))
        names = {}                      # object -> anchor name, per document (id001, id002, ... in order of appearance)
        for i, e in enumerate(evs):
            k = e['k']
            anchor = None
            if e['a']:
                anchor = names.setdefault(e.get('o', 0), 'id%03d' % (len(names) + 1))
            if k == 'DocumentStart':
                names = {}
                ndoc += 1
                dt = tags if ndoc == 1 else tags2
                out.append(E.DocumentStartEvent(explicit=bool(o['es']), version=ver, tags=dict(dt) if dt else None))
            elif k == 'DocumentEnd':
                out.append(E.DocumentEndEvent(explicit=bool(o['ee'])))
            elif k == 'StreamEnd':
                out.append(E.StreamEndEvent())
            elif k == 'Alias':
                out.append(E.AliasEvent(names.get(e.get('o', 0), 'id001')))
            elif k == 'Scalar':
                s = e['s']
                if s == 'z':
                    out.append(E.ScalarEvent(None, None, (True, False), ''))
                else:
                    out.append(E.ScalarEvent(anchor, tag_of(e, YSTR), (not e['t'] and s != 'e', not e['t']),
                                             pick(s, base, rnd, e), style=style_of(e)))
            elif k == 'SequenceStart':
                out.append(E.SequenceStartEvent(anchor, tag_of(e, YSEQ), not e['t'], flow_style=e['f']))
            elif k == 'MappingStart':
                out.append(E.MappingStartEvent(anchor, tag_of(e, YMAP), not e['t'], flow_style=e['f']))
            elif k == 'SequenceEnd':
                out.append(E.SequenceEndEvent())
            elif k == 'MappingEnd':
                out.append(E.MappingEndEvent())
        return out

    def split_docs(evs):
        docs, cur = [], None
        for e in evs:
            if e['k'] == 'DocumentStart':
                cur = []
            elif e['k'] == 'DocumentEnd':
                docs.append(cur)
                cur = None
            elif cur is not None:
                cur.append(e)
        return docs

    def nodes(evs, base, rnd):
        """representation graphs for serialize_all; the Serializer assigns anchors itself, so the document must use its
        anchor exactly when it has an alias"""
        out = []
        pool = {}                       # object identity (e['o']) -> the node; ONE node object for all its occurrences, in
        for doc in split_docs(evs):     # whatever document they are
            if any(e['k'] == 'Scalar' and e['s'] == 'z' for e in doc) or not serializer_anchors(doc):
                raise NotExpressible
            pos = [0]
            root = [None]

            def build():
                e = doc[pos[0]]
                pos[0] += 1
                k = e['k']
                if k == 'Alias':
                    return pool[e['o']] if e.get('o') else root[0]
                if k == 'Scalar':
                    return N.ScalarNode(tag_of(e, YSTR), pick(e['s'], base, rnd, e), style=style_of(e))
                if e.get('o') in pool:                      # an object of an earlier document: the same node again
                    skip_subtree(doc, pos)
                    return pool[e['o']]
                if k == 'SequenceStart':
                    n = N.SequenceNode(tag_of(e, YSEQ), [], flow_style=e['f'])
                    if root[0] is None:
                        root[0] = n
                    if e.get('o'):
                        pool[e['o']] = n
                    while doc[pos[0]]['k'] != 'SequenceEnd':
                        n.value.append(build())
                    pos[0] += 1
                    return n
                n = N.MappingNode(tag_of(e, YMAP), [], flow_style=e['f'])
                if root[0] is None:
                    root[0] = n
                if e.get('o'):
                    pool[e['o']] = n
                while doc[pos[0]]['k'] != 'MappingEnd':
                    kk = build()
                    n.value.append((kk, build()))
                pos[0] += 1
                return n
            r = build()
            if root[0] is None:
                root[0] = r
            out.append(r)
        return out

    def values(evs, base, rnd):
        """plain Python values for dump_all + the default_flow_style that reproduces the flow flags, or NotExpressible"""
        out, flags = [], []            # flags: (flow flag, is leaf collection) per collection
        pool = {}                      # object identity -> the Python object: the SAME list / dict in every document it occurs in
        for doc in split_docs(evs):
            if not serializer_anchors(doc) or any(e['t'] for e in doc) or any(e['k'] == 'Scalar' and (e['s'] in ('z', 'b', 'f', 'g', 'h') or e['y'] != 'P') for e in doc):
                raise NotExpressible
            pos = [0]
            root = [None]

            def build(key):
                e = doc[pos[0]]
                pos[0] += 1
                k = e['k']
                if k == 'Alias':
                    if key:
                        raise NotExpressible
                    return (pool[e['o']] if e.get('o') else root[0]), True
                if k == 'Scalar':
                    return pick(e['s'], base, rnd, e), False
                if key:
                    raise NotExpressible           # a collection as a key has no plain Python counterpart with the same tag
                if e.get('o') in pool:             # an object of an earlier document: the same object again
                    skip_subtree(doc, pos)
                    return pool[e['o']], True
                if k == 'SequenceStart':
                    v, leaf = [], True
                    if root[0] is None:
                        root[0] = v
                    if e.get('o'):
                        pool[e['o']] = v
                    while doc[pos[0]]['k'] != 'SequenceEnd':
                        x, c = build(False)
                        leaf = leaf and not c
                        v.append(x)
                    pos[0] += 1
                    flags.append((e['f'], leaf, len(v) == 0))
                    return v, True
                v, leaf = {}, True
                if root[0] is None:
                    root[0] = v
                if e.get('o'):
                    pool[e['o']] = v
                while doc[pos[0]]['k'] != 'MappingEnd':
                    kk, _ = build(True)
                    x, c = build(False)
                    leaf = leaf and not c
                    if kk in v:
                        raise NotExpressible       # a dict cannot hold the same key twice
                    v[kk] = x
                pos[0] += 1
                flags.append((e['f'], leaf, len(v) == 0))
                return v, True
            out.append(build(False)[0])
        styles = [dfs for dfs in (False, True, None)
                  if all(e or f == (dfs is True or (dfs is None and leaf)) for f, leaf, e in flags)]
        if not styles:
            raise NotExpressible
        return out, styles
    return events, nodes, values


def norm_cls(cs):
    return sorted({'uni' if c in ('uni',) else 'ctrl' if c in ('ctrl', 'tab', 'bom', 'nonchar') else c for c in cs})


def model_prediction(st, best_break):
    em = st['em']
    lines = [{'ind': l['ind'], 'brk': best_break if l['brk'] == 'BEST' else l['brk'], 'cls': sorted(l['cls'])} for l in em['lines']]
    cur = em['cur']
    if cur['started'] or cur['ind'] > 0:
        lines.append({'ind': cur['ind'], 'brk': 'EOF', 'cls': sorted(cur['cls'])})
    entries = [[e['k'], e['line'], e['col'], e['first'], e['ind']] for e in em['entries']]
    marks = [[m['k'], m['a'], m['b']] for m in em['marks'] if m['k'] != 'X']
    return {'lines': lines, 'entries': entries, 'marks': marks, 'rtype': 'str' if em['enc'] == 'N' else 'bytes', 'bom': em['bom'],
            'unreadable': em['badtag'] or em.get('badref', False) or any(k['len'] > 1024 or not k['same'] for k in em['skeys'])}


def drift(pred, obs, aux, nel):
    """where does the real output differ from L's prediction? (never a verdict)"""
    if obs['outcome'] != 'ok':
        return None                       # no output at all: that is for H to judge, not a layout difference
    if pred['rtype'] != obs['rtype'] or pred['bom'] != obs['bom']:
        return 'result type / BOM'
    real = [{'ind': l['ind'], 'brk': 'NEL' if l['brk'] in ('NEL', 'LS', 'PS') else l['brk'], 'cls': norm_cls(l['cls'])} for l in aux['lines']]
    if real != pred['lines']:
        return 'lines'
    if pred['unreadable'] != (obs['reread'][:1] != ['ok'] or obs['recompose'][:1] not in ([], ['ok'])):
        return 'readability (L says %s)' % ('a simple key is too long for the reader / a tag has no suffix / an alias has no anchor' if pred['unreadable'] else 'readable')
    if pred['unreadable']:
        return None                       # the re-scan stops at the key: no token positions to compare
    if [e[:5] for e in aux['entries']] != pred['entries']:
        return 'entries'
    tagfix = [[m[0], m[1], m[2].replace('\u00fc', 'U')] for m in aux['marks'] if m[0] != 'X']
    if tagfix != pred['marks']:
        return 'markers'
    return None


_ACT = re.compile(r'\bact \|-> "([^"]*)"')
_ST = re.compile(r'\bst \|-> "([^"]*)"')


def finished_states(path, a, b, acts):
    """the finished states of one slice of a TLC dump (unfinished ones only contribute their action name)"""
    with open(path) as f:
        f.seek(a)
        buf = f.read(b - a)
    n = 0
    for chunk in re.split(r'(?m)^State \d+:\n', buf):
        if not chunk.strip():
            continue
        n += 1
        act = _ACT.search(chunk).group(1)
        acts[act] = acts.get(act, 0) + 1
        if _ST.search(chunk).group(1) == 'nothing':
            yield tlaval._state([chunk])
    acts['#'] = n


def work(args):
    path, a, b, extra = args
    acts = {}
    res = replay(finished_states(path, a, b, acts), extra)
    res['n'] = acts.pop('#', 0)
    res['acts'] = acts
    return res


def pmap_dump(path, extra, procs=16, chunks=128):
    parts = mbt.split_dump(path, chunks)
    with mp.Pool(procs) as pool:
        return pool.map(work, [(path, a, b, extra) for a, b in parts], chunksize=1)


def replay(states, extra):
    yaml = use_repo()
    mk_events, mk_nodes, mk_values = make_builders(yaml)
    cfgname, tier = extra['config'], extra['tier']
    res = {'n': 0, 'done': 0, 'calls': 0, 'traces': {}, 'acts': {}, 'drift': {}, 'cdrift': 0, 'ccalls': 0, 'pycalls': 0, 'apis': {},
           'samples': [], 'nontrivial': 0}
    for st in states:
        o, evs = st['opt'], st['evs']
        if extra.get('shared_only') and not shares_objects(evs):
            res['skipped'] = res.get('skipped', 0) + 1          # a stream without a shared object: the docs configuration's
            continue
        res['done'] += 1
        if isinstance(o['tags'], str):
            o = dict(o, tags=TAGS[o['tags']])
        if o.get('tags2', 'same') != 'same' and isinstance(o['tags2'], str):
            o = dict(o, tags2=TAGS[o['tags2']])
        key = json.dumps([evs, st['opt']], sort_keys=True)
        rnd = random.Random('%d/%s' % (SEED, key))
        base = rnd.random() < 0.4
        ndocs = sum(1 for e in evs if e['k'] == 'DocumentStart')
        if any(e['k'] in ('SequenceStart', 'MappingStart') for e in evs):
            res['nontrivial'] += 1
        pred = model_prediction(st, 'LF' if o['lb'] in ('N', 'J') else o['lb']) if st.get('em') else None
        sink = o['stream']
        calls = []                                       # (api, dumper name, call, events for clause g)
        apis = [o['api']] if extra['apis_from_model'] else ['emit', 'serialize', 'dump']
        if tier == 'quick' and not extra['apis_from_model'] and not extra.get('shared_only'):
            # emit() and serialize_all() drive the same emitter: the quick tier takes one of them per state (seeded), thorough both
            apis = [rnd.choice(['emit', 'serialize']), 'dump']
            if apis[0] == 'serialize':
                try:
                    mk_nodes(evs, True, random.Random(0))
                except NotExpressible:
                    apis[0] = 'emit'
        for api in apis:
            if api == 'emit':
                if o['enc'] != 'N' and sink != 'binary':
                    continue                             # emit() has no encoding option
                evl = mk_events(evs, o, base, random.Random(rnd.random()), None if o['enc'] == 'N' else o['enc'])
                kw = kwargs(o, rnd, True)
                for D in ('Dumper', 'CDumper'):
                    calls.append((api, D, (lambda s, D=D, evl=evl, kw=kw: yaml.emit(evl, s, Dumper=getattr(yaml, D), **kw)), evl))
            elif api == 'serialize':
                try:
                    r2 = random.Random(rnd.random())
                    nl = mk_nodes(evs, base, r2)
                except NotExpressible:
                    continue
                evl = mk_events(evs, o, base, random.Random(0), None)      # kinds / anchors / tags for clause g; values below
                kw = kwargs(o, rnd, False)
                for D in ('Dumper', 'CDumper'):
                    calls.append((api, D, (lambda s, D=D, nl=nl, kw=kw: yaml.serialize_all(nl, s, Dumper=getattr(yaml, D), **kw)), ('nodes', nl)))
            else:
                try:
                    r2 = random.Random(rnd.random())
                    vals, styles = mk_values(evs, base, r2)
                except NotExpressible:
                    continue
                kw = kwargs(o, rnd, False)
                kw['default_flow_style'] = rnd.choice(styles)
                kw['sort_keys'] = False
                for D in (('Dumper', 'CDumper', 'SafeDumper', 'CSafeDumper') if tier == 'thorough' or rnd.random() < 0.3 else ('Dumper', 'CDumper')):
                    calls.append((api, D, (lambda s, D=D, vals=vals, kw=kw: yaml.dump_all(vals, s, Dumper=getattr(yaml, D), **kw)), ('values', vals, kw, 'Safe' in D)))
        for api, D, call, src in calls:
            obs, text, aux = observe(yaml, call, o, ndocs, sink, refs_of(src) if api == 'emit' else ())
            res['calls'] += 1
            res['apis'][api + '/' + D] = res['apis'].get(api + '/' + D, 0) + 1
            events = None
            if o['canon'] and obs['outcome'] == 'ok':
                events = src if isinstance(src, list) else recorded_events(yaml, src)
            t = mktrace(o, api, obs, text, events)
            tk = json.dumps(t, sort_keys=True)
            h = hashlib.md5(tk.encode()).hexdigest()
            if h not in res['traces']:
                res['traces'][h] = (t, {'config': cfgname, 'api': api, 'dumper': D, 'events': compact(evs), 'evs': evs, 'options': st['opt'],
                                        'text': text if text is None or len(text) < 600 else text[:600] + '...', 'exc': aux['exc'],
                                        'reread': aux['reread'], 'reject': aux.get('reject', ''), 'kw': {k: repr(v) for k, v in kwargs(o, random.Random(0), api == 'emit').items()}})
            res.setdefault('count', {})
            res['count'][h] = res['count'].get(h, 0) + 1
            if base and pred is not None:
                d = drift(pred, obs, aux, None)
                if D.startswith('C'):
                    res['ccalls'] += 1
                    res['cdrift'] += 1 if d else 0
                else:
                    res['pycalls'] += 1
                    if d:
                        x = res['drift'].setdefault(d, {'n': 0, 'ex': None})
                        x['n'] += 1
                        if x['ex'] is None:
                            x['ex'] = {'api': api, 'dumper': D, 'events': compact(evs), 'options': st['opt'], 'text': text,
                                       'model': pred if d != 'lines' else pred['lines'], 'real': aux['lines'] if d == 'lines' else aux['entries'] if d == 'entries' else aux['marks']}
            if len(res['samples']) < 1 and text and len(evs) > 5:
                res['samples'].append({'config': cfgname, 'api': api, 'dumper': D, 'events': compact(evs), 'options': st['opt'], 'output': text[:300]})
    return res


def compact(evs):
    out = []
    for e in evs:
        k = e['k']
        if k == 'Scalar':
            out.append('=' + e['s'] + ('*%d%s' % (e['n'], e['y']) if e['n'] else '') + ('!' + ''.join(e['g']) if e['t'] else ''))
        elif k in ('SequenceStart', 'MappingStart'):
            out.append(('&' if e['a'] else '') + ('!' + ''.join(e['g']) if e['t'] else '') + ('[' if k[0] == 'S' else '{') + ('f' if e['f'] else 'b'))
        elif k == 'Alias':
            out.append('*')
        else:
            out.append({'SequenceEnd': ']', 'MappingEnd': '}', 'DocumentStart': 'DS', 'DocumentEnd': 'DE', 'StreamEnd': 'SE'}[k])
    return ' '.join(out)


def recorded_events(yaml, src):
    """the events a dump_all / serialize_all call hands to its emitter: the same representer / serializer / resolver classes
    with a recording emit().  src = ('nodes', nodes) | ('values', values, kwargs, safe)"""
    rec = []
    safe = src[0] == 'values' and len(src) > 3 and src[3]
    R = yaml.representer.SafeRepresenter if safe else yaml.representer.Representer

    class Rec(yaml.serializer.Serializer, R, yaml.resolver.Resolver):
        def __init__(self, **kw):
            yaml.serializer.Serializer.__init__(self)
            R.__init__(self, default_style=kw.get('default_style'), default_flow_style=kw.get('default_flow_style', False),
                       sort_keys=kw.get('sort_keys', True))
            yaml.resolver.Resolver.__init__(self)

        def emit(self, ev):
            rec.append(ev)
    if src[0] == 'nodes':
        d = Rec()
        d.open()
        for n in src[1]:
            d.serialize(n)
        d.close()
    else:
        d = Rec(**src[2])
        d.open()
        for v in src[1]:
            d.represent(v)
        d.close()
    return rec


# ------------------------------------------------------------------------------------------------ code -> spec
def random_options(rnd, emit=False):
    o = {'indent': rnd.choice([-1, 0, 1, 2, 3, 4, 5, 6, 7, 8, 9, 10]), 'width': rnd.choice([-1, 0, 1, 5, 20, 80]),
         'lb': rnd.choice(['N', 'CR', 'LF', 'CRLF', 'J']), 'enc': rnd.choice(['N', 'utf-8', 'utf-16-le', 'utf-16-be']),
         'stream': rnd.choice(['none', 'none', 'text', 'binary']), 'es': rnd.random() < 0.4, 'ee': rnd.random() < 0.4,
         'ver': rnd.choice(['N', 'N', '1.1', '1.2']), 'tags': rnd.choice([None, None, None, None, TAGS['T1'], TAGS['T2'], TAGS['T1'], TAGS['T2'], TAGS['R1'], TAGS['R2']]),
         'canon': rnd.random() < 0.3, 'au': rnd.random() < 0.5}
    if o['stream'] == 'binary' and o['enc'] == 'N':
        o['enc'] = 'utf-8'
    if emit:
        o.update(es=False, ee=False, ver='N', tags=None)
        if o['stream'] != 'binary':
            o['enc'] = 'N'
    return o


SCALARS = [x for k in REPS for x in REPS[k]] + ['x y z', 'trail ', ' ', '- x', '? y', 'k: v', 'a #c', '---', '...', "it's", '"q"', '\\', 'null',
                                                '1', '1.5', 'yes', '~', '2001-01-01', '<<', '=', 'a: b: c', 'word ' * 40, '\u00e9' * 90,
                                                'a\n b', '\n', '\n\n', 'a\n', ' \n', 'x\n \ny', '\U0001F600 \U0001F601', 'a\u2028 b', '\x85x', 'x\x85',
                                                '\U0001F600' * 110, '\u0436' * 125, '\u0436' * 200, 'k' * 1023, 'k' * 127, '\x01' * 126, '"' * 126,
                                                '\u65e5' * 1019, "'" * 520,
                                                True, False, None, 3, -7, 1.5, 10 ** 20, b'bytes \x00\xff' * 12, b'']


def random_value(rnd, budget, depth=0, pool=None):
    """pool: the finished lists / dicts of this call so far (of this document and of the earlier ones): with it, a value may be
    one of them AGAIN - the same object, shared inside a document (anchor + alias) or between the documents of the call"""
    r = rnd.random()
    if pool and rnd.random() < 0.12:
        budget[0] -= 1
        return rnd.choice(pool)
    if budget[0] <= 1 or depth > 5 or r < 0.35:
        budget[0] -= 1
        return rnd.choice(SCALARS)
    budget[0] -= 1
    if r < 0.65:
        out = [random_value(rnd, budget, depth + 1, pool) for _ in range(rnd.randrange(0, 5)) if budget[0] > 0]
    else:
        out = {}
        for _ in range(rnd.randrange(0, 5)):
            if budget[0] <= 0:
                break
            k = rnd.choice(SCALARS) if rnd.random() < 0.85 else tuple(rnd.choice(SCALARS) for _ in range(rnd.randrange(0, 3)))
            budget[0] -= 1
            out[k] = random_value(rnd, budget, depth + 1, pool)
    if pool is not None:
        pool.append(out)                 # finished: it cannot contain itself, so the values stay acyclic
    return out


def random_events(yaml, rnd, budget):
    """a grammatical event stream with arbitrary styles / tags / anchors (up to ~budget nodes)"""
    E = yaml.events
    anchors = []
    evs = []
    tagpool = [None, None, None, None, YSTR, '!local', 'tag:yaml.org,2002:', 'tag:e.example,2002:', 'tag:e.example,2002', 'tag:yaml.org,2002:int', 'tag:example.com,2000:app/\u00e9', '!', 'x-private:tag', '!e!suffix']

    def node(depth, root=False):
        budget[0] -= 1
        r = rnd.random()
        if anchors and r < 0.08 and not root:
            evs.append(E.AliasEvent(rnd.choice(anchors)))
            return
        anchor = None
        if rnd.random() < 0.15:
            anchor = 'a%d' % (len(anchors) + 1)
        tag = rnd.choice(tagpool)
        if tag == '!e!suffix':
            tag = 'tag:e.example,2002:suffix'
        if budget[0] <= 0 or depth > 4 or r < 0.5:
            v = rnd.choice(SCALARS)
            v = v if isinstance(v, str) else 'x'
            imp = (rnd.random() < 0.6, rnd.random() < 0.6) if tag else (True, rnd.random() < 0.5) if rnd.random() < 0.8 else (False, True)
            if tag == '!':
                imp = (False, False)
            evs.append(E.ScalarEvent(anchor, tag, imp, v, style=rnd.choice([None, None, None, '"', "'", '|', '>'])))
            if anchor:
                anchors.append(anchor)
            return
        imp = True if tag is None else rnd.random() < 0.5
        if tag == '!':
            tag, imp = None, True
        if r < 0.75:
            evs.append(E.SequenceStartEvent(anchor, tag, imp, flow_style=rnd.choice([None, False, True])))
            if anchor:
                anchors.append(anchor)
            for _ in range(rnd.randrange(0, 5)):
                if budget[0] > 0:
                    node(depth + 1)
            evs.append(E.SequenceEndEvent())
        else:
            evs.append(E.MappingStartEvent(anchor, tag, imp, flow_style=rnd.choice([None, False, True])))
            if anchor:
                anchors.append(anchor)
            for _ in range(rnd.randrange(0, 4)):
                if budget[0] > 0:
                    node(depth + 1)
                    node(depth + 1)
            evs.append(E.MappingEndEvent())
    ndocs = rnd.randrange(1, 4)
    out = []
    for _ in range(ndocs):
        anchors.clear()
        evs = []
        tags = {'!e!': 'tag:e.example,2002:'} if rnd.random() < 0.5 else None
        node(0, True)
        uses = any(getattr(e, 'tag', None) == 'tag:e.example,2002:suffix' for e in evs)
        out.append(E.DocumentStartEvent(explicit=rnd.random() < 0.3, version=rnd.choice([None, None, (1, 1), (1, 2)]),
                                        tags=tags if (tags and (uses or rnd.random() < 0.3)) else None))
        out += evs
        out.append(E.DocumentEndEvent(explicit=rnd.random() < 0.3))
    return out, ndocs


def has_surrogate(s):
    return any(0xd800 <= ord(c) <= 0xdfff for c in s)


def corpus_event_streams(yaml):
    out = []
    for f in sorted(glob.glob(os.path.join(REPO, 'tests/legacy_tests/data/*'))):
        if not f.endswith(('.data', '.canonical')):
            continue
        try:
            evs = list(yaml.parse(open(f, 'rb').read(), Loader=yaml.Loader))
        except Exception:
            continue
        if any(has_surrogate(getattr(e, 'value', '') or '') for e in evs) or len(evs) > 400:
            continue
        out.append((os.path.basename(f), evs))
    return out


def random_work(args):
    """code -> spec: one chunk of seeded random calls"""
    kind, seeds = args
    yaml = use_repo()
    E = yaml.events
    traces = {}
    calls = 0
    corpus = corpus_event_streams(yaml) if kind == 'corpus' else None
    for sd in seeds:
        rnd = random.Random('%d/%s/%d' % (SEED, kind, sd))
        if kind == 'values':
            o = random_options(rnd)
            pool = [] if sd % 3 == 0 else None                   # every third call: documents that share objects
            docs = [random_value(rnd, [rnd.randrange(1, 40)], 0, pool) for _ in range(rnd.randrange(1, 4))]
            kw = kwargs(o, rnd, False)
            kw['default_flow_style'] = rnd.choice([None, False, True])
            kw['default_style'] = rnd.choice([None, None, None, '"', "'", '|', '>'])
            kw['sort_keys'] = rnd.random() < 0.5
            try:
                if kw['sort_keys']:
                    for d in docs:
                        yaml.dump(d, Dumper=yaml.SafeDumper)     # un-orderable keys: the caller's error, not a formatting matter
            except TypeError:
                kw['sort_keys'] = False
            for D in ('Dumper', 'CDumper', 'SafeDumper', 'CSafeDumper'):
                safe = 'Safe' in D

                def call(s, D=D, safe=safe):
                    if safe and rnd.random() < 0.5 and D == 'SafeDumper':
                        return yaml.safe_dump_all(docs, s, **kw)
                    if len(docs) == 1:
                        return yaml.dump(docs[0], s, Dumper=getattr(yaml, D), **kw)
                    return yaml.dump_all(docs, s, Dumper=getattr(yaml, D), **kw)
                obs, text, aux = observe(yaml, call, o, len(docs), o['stream'])
                calls += 1
                events = None
                if o['canon'] and obs['outcome'] == 'ok':
                    events = recorded_events(yaml, ('values', docs, kw, safe))
                t = mktrace(o, 'dump', obs, text, events)
                h = hashlib.md5(json.dumps(t, sort_keys=True).encode()).hexdigest()
                traces.setdefault(h, (t, {'source': 'random values', 'seed': sd, 'dumper': D, 'kw': {k: repr(v) for k, v in kw.items()},
                                          'docs': repr(docs)[:600], 'text': text if text is None or len(text) < 600 else text[:600] + '...',
                                          'exc': aux['exc'], 'reread': aux['reread'], 'reject': aux.get('reject', '')}))
        else:
            o = random_options(rnd, emit=True)
            if kind == 'events':
                body, ndocs = random_events(yaml, rnd, [rnd.randrange(1, 40)])
                name = 'random events'
            else:
                name, evs = corpus[sd % len(corpus)]
                body = [e for e in evs if not isinstance(e, (E.StreamStartEvent, E.StreamEndEvent))]
                ndocs = sum(1 for e in body if isinstance(e, E.DocumentStartEvent))
            evl = [E.StreamStartEvent(encoding=None if o['enc'] == 'N' else o['enc'])] + body + [E.StreamEndEvent()]
            kw = kwargs(o, rnd, True)
            for D in ('Dumper', 'CDumper'):
                obs, text, aux = observe(yaml, (lambda s, D=D: yaml.emit(evl, s, Dumper=getattr(yaml, D), **kw)), o, ndocs, o['stream'], refs_of(evl))
                calls += 1
                t = mktrace(o, 'emit', obs, text, evl)
                h = hashlib.md5(json.dumps(t, sort_keys=True).encode()).hexdigest()
                traces.setdefault(h, (t, {'source': name, 'seed': sd, 'dumper': D, 'kw': {k: repr(v) for k, v in kw.items()},
                                          'empty_plain_root': empty_plain_root(body),
                                          'events': ' '.join(type(e).__name__[:-5] for e in body)[:400],
                                          'text': text if text is None or len(text) < 600 else text[:600] + '...', 'exc': aux['exc'],
                                          'reread': aux['reread'], 'reject': aux.get('reject', '')}))
    return traces, calls


# ------------------------------------------------------------------------------------------------ verdicts
def empty_plain_root(events):
    """does some document of the event stream have a root scalar that is written as nothing (empty, plain-implicit, no
    style that forces quotes)?  key item only"""
    prev = None
    for e in events:
        if type(prev).__name__ == 'DocumentStartEvent' and type(e).__name__ == 'ScalarEvent' and e.value == '' \
                and e.implicit and e.implicit[0] and not e.style:
            return True
        prev = e
    return False


def features(t, meta):
    """the key that identifies the failing class of calls (for known_findings matching)"""
    o = t['o']
    return {'empty_plain_root': bool(meta.get('empty_plain_root')),'dumper': 'libyaml' if meta['dumper'].startswith('C') else 'python',
            'tags_nonascii_prefix': any(any(ord(c) > 127 for c in p) for _, p in o['tags']),
            'canonical': o['canon'], 'allow_unicode': o['au'], 'encoding': o['enc'], 'stream': o['stream']}


def scalar_difference(t):
    """for the key of a clause-g violation only: how does the first differing scalar differ?"""
    got = [unhex(x[1]) for x in t['ctoks'] if x[0] == 'SCALAR']
    want = [unhex(x[3]) for x in t['cevents'] if x[0] == 'Scalar']
    for g, w in zip(got, want):
        if g != w:
            if g.replace('\\ ', '') == w:
                return 'backslash-space inserted at a fold'
            if g.replace(' ', '') == w.replace(' ', ''):
                return 'spaces'
            if ''.join(g.split()) == ''.join(w.split()):
                return 'white space / breaks'
            return 'other'
    return 'structure'


def judge_all(v, traces, tag):
    """traces: {hash: (trace, meta)} -> number of TLC states; reports violations"""
    from concurrent.futures import ThreadPoolExecutor
    keys = sorted(traces)
    size = 30000
    parts = [keys[i:i + size] for i in range(0, len(keys), size)] or [[]]
    with ThreadPoolExecutor(3) as ex:                  # one JVM per batch; JSON loading is single-threaded, so overlap them
        rs = list(ex.map(lambda a: trace.judge('Trace_Format', [traces[k][0] for k in a[1]], '%s_%d' % (tag, a[0]), batch=size + 1),
                         list(enumerate(parts))))
    verdicts = [x for r in rs for x in r[0]]
    states = sum(r[1] for r in rs)
    for k, (ok, why, at) in zip(keys, verdicts):
        if ok:
            continue
        t, meta = traces[k]
        key = dict(features(t, meta), clause=why.split(' ')[0], why=why)
        if t['obs']['outcome'] != 'ok':
            key['exception'] = meta.get('exc', '').split(':')[0]
        if key['clause'] == 'g':
            key['difference'] = scalar_difference(t)
        if key['clause'] == 'a':
            key['reject'] = meta.get('reject', '')
        v.violation(key, {'why': why, 'at': at, 'options': t['o'], 'call': meta, 'observation': t['obs']})
    return states


def detect_fix_d12():
    """which variant of check_simple_key does L model?  (L only: it keeps the generated predictions meaningful on a tree with and
    without fix_proposals/D12.diff; no verdict depends on it).  Probe through the public API: a key of 110 astral characters."""
    v = os.environ.get('VERIF_C15_FIXD12')
    if v:
        return v == '1'
    yaml = use_repo()
    return yaml.dump({'\U0001F600' * 110: 1}, Dumper=yaml.SafeDumper).startswith('? ')


def run_config(args):
    name, workers, fix = args
    return name, tlc.run('Format', cfg='MC_Format.cfg', dump=name not in DESIGN_ONLY, tag='C15_' + name.replace('+', 'x'), timeout=3000,
                         coverage=False, workers=workers, heap=HEAP, constants=dict(CONFIGS[name], FixD12='TRUE' if fix else 'FALSE'))


def job(args):
    return ('random', random_work(args[1:])) if args[0] == 'random' else ('replay', args[4]['config'], work(args[1:]))


HEAP = os.environ.get('VERIF_C15_HEAP', '3g')
PROCS = int(os.environ.get('VERIF_C15_PROCS', '16'))
DESIGN_ONLY = {'full'}


def replay_file(v, path):
    """--replay: run the calls of a saved violation file again (same seed) and judge them"""
    traces = {}
    for x in json.load(open(path))['violations']:
        c = x['detail']['call']
        if 'seed' in c:
            kind = {'random values': 'values', 'random events': 'events'}.get(c['source'], 'corpus')
            traces.update(random_work((kind, [c['seed']]))[0])
        elif 'evs' in c:
            res = replay([{'opt': c['options'], 'evs': c['evs'], 'em': None}],
                         {'config': c['config'], 'tier': 'thorough', 'apis_from_model': c['config'].startswith(('enc', 'doctags')),
                          'shared_only': c['config'].startswith('share')})
            traces.update(res['traces'])
    states = judge_all(v, traces, 'C15_replay')
    v.cov = {'states': states, 'transitions': 0, 'traces_validated_against_impl': len(traces), 'samples': ['replay of ' + path],
             'distinct_nontrivial': len(traces), 'rule': 'calls of the saved violation file, run again and judged by TLC'}
    return v.finish()


def main(tier, replay=None):
    from concurrent.futures import ThreadPoolExecutor
    v = Verdict('C15', tier)
    if replay:
        return replay_file(v, replay)
    names = TIERS[tier]
    par = max(1, min(4, PROCS // 4))                          # TLC runs side by side (VERIF_C15_PROCS=4: one at a time)
    with ThreadPoolExecutor(par) as ex:                       # the configurations are independent TLC runs
        fix12 = detect_fix_d12()
        runs = dict(ex.map(run_config, [(n, max(2, PROCS // par), fix12) for n in names]))
    states = trans = 0
    per_config, jobs = {}, []
    for name in names:
        r = runs[name]
        if r.violated:
            print(r.out[-3000:])
            raise SystemExit('machinery failure: Format.tla violates %s in configuration %s (L => H fails in the model)' % (r.violated, name))
        tlc.require_ok(r, 'Format/' + name)
        states += r.distinct
        trans += r.generated
        per_config[name] = {'states': r.distinct, 'tlc_s': round(r.wall, 1)}
        if name in DESIGN_ONLY:
            per_config[name]['design_check_only'] = True
            continue
        extra = {'config': name, 'tier': tier, 'apis_from_model': name.startswith(('enc', 'doctags')), 'shared_only': name.startswith('share')}
        jobs += [('replay', r.dump, a, b, extra) for a, b in mbt.split_dump(r.dump, 48)]
    nv, ne, nc = (1500, 1500, 1200) if tier == 'quick' else (30000, 30000, 12000)
    for kind, n in (('values', nv), ('events', ne), ('corpus', nc)):
        ids = list(range(n))
        jobs += [('random', kind, ids[i::32]) for i in range(32)]
    with mp.Pool(PROCS) as pool:
        results = pool.map(job, jobs, chunksize=1)
    for name in names:
        if runs[name].dump and os.path.exists(runs[name].dump):
            os.remove(runs[name].dump)
    traces, acts, apis, samples, drift_ = {}, {}, {}, [], {}
    calls = rcalls = done = nontrivial = 0
    for res in results:
        if res[0] == 'random':
            traces.update(res[1][0])
            rcalls += res[1][1]
            continue
        name, o = res[1], res[2]
        pc = per_config[name]
        traces.update(o['traces'])
        for a, n in o['acts'].items():
            acts[a] = acts.get(a, 0) + n
        for a, n in o['apis'].items():
            apis[a] = apis.get(a, 0) + n
        for d, x in o['drift'].items():
            y = drift_.setdefault((name, d), {'n': 0, 'ex': x['ex']})
            y['n'] += x['n']
        samples += o['samples'][:1]
        calls += o['calls']
        done += o['done']
        nontrivial += o['nontrivial']
        if name.startswith('share'):
            pc['finished_streams_without_shared_object_not_replayed'] = pc.get('finished_streams_without_shared_object_not_replayed', 0) + o.get('skipped', 0)
        for k, w in (('dump_states', 'n'), ('finished_streams', 'done'), ('calls', 'calls'), ('python_calls_compared_with_L', 'pycalls'),
                     ('libyaml_calls_compared_with_L', 'ccalls'), ('libyaml_layout_differs_from_L', 'cdrift')):
            pc[k] = pc.get(k, 0) + o[w]
    for name in names:
        if name not in DESIGN_ONLY and per_config[name].get('dump_states') != per_config[name]['states']:
            raise SystemExit('machinery failure: %s: replayed %s states, TLC found %d' % (name, per_config[name].get('dump_states'), per_config[name]['states']))
    for (name, d), x in sorted(drift_.items()):
        v.note('spec-drift C15/%s: %d Python-emitter outputs differ from the L prediction in %s, e.g. %s' % (name, x['n'], d, json.dumps(x['ex'], default=str)[:900]))
    expected = {'Feed', 'StreamStart', 'FirstDocumentStart', 'DocumentStart', 'DocumentRoot', 'DocumentEnd', 'FirstFlowSequenceItem',
                'FlowSequenceItem', 'FirstFlowMappingKey', 'FlowMappingKey', 'FlowMappingSimpleValue', 'FlowMappingValue',
                'FirstBlockSequenceItem', 'BlockSequenceItem', 'FirstBlockMappingKey', 'BlockMappingKey', 'BlockMappingSimpleValue',
                'BlockMappingValue'}
    if expected - set(acts):
        raise SystemExit('machinery failure: Format.tla actions never taken: %s' % sorted(expected - set(acts)))
    states += judge_all(v, traces, 'C15_judge')
    v.cov = {'states': states, 'transitions': trans, 'traces_validated_against_impl': calls + rcalls,
             'spec_to_code_calls': calls, 'code_to_spec_calls': rcalls, 'distinct_observations_judged_by_tlc': len(traces),
             'finished_event_streams_replayed': done, 'distinct_nontrivial': nontrivial, 'exhaustive': True,
             'rule': 'every finished state of every Format.tla configuration (event stream x option set; in the share configurations: every '
                     'stream in which an object of an earlier document occurs again) is written through the real '
                     'dumpers; non-trivial = the stream contains a collection; every projected output is judged by TLC (Trace_Format: '
                     'H_Format + Canonical); identical (options, observation) pairs are judged once',
             'actions_fired': acts, 'calls_per_api': apis, 'configs': per_config, 'bounds': {n: CONFIGS[n] for n in names},
             'L_variant': 'check_simple_key %s the written-length bound (FixD12 = %s)' % ('with' if fix12 else 'without', fix12),
             'samples': samples[:6], 'random': {'values': nv, 'event_streams': ne, 'corpus_reemissions': nc}}
    v.assumptions = ['strings range over Unicode scalar values (no lone surrogates); option values are valid (version 1.1 / 1.2, well-formed tag '
                     'handles); a bytes stream is given an encoding; emit() has no encoding option',
                     'lines that start a block collection entry = BLOCK-ENTRY / block-context KEY tokens of the re-scanned output that '
                     'are first on their line (DESIGN 5.0)',
                     'clause a: the reader accepts = yaml.parse AND yaml.compose_all (Loader and CLoader) run to the end; composition is '
                     'not demanded when a caller of emit() himself supplies an alias without an anchor before it in the same document or '
                     'the same anchor twice in a document; constructors (tags / values) are not part of the clause',
                     'clause b: printable ASCII = U+0020..U+007E, line breaks of an ASCII text = CR, LF, CR LF',
                     'clause c: only when line_break is one of CR, LF, CR LF; clause e: only the markers the options demand',
                     'LibYAML is an environment: its output is held to H only; L predicts the Python emitter']
    return v.finish()
