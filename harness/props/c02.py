"""C02 - round trip: what the safe dumpers write, the safe loaders read back.

spec/Represent.tla: every reachable state is one abstract value of the safe universe (heap of identity-bearing
objects with every sharing / self-reference pattern, inline scalar classes, every insertion / iteration order) with
the value-level dump options; the state carries what L (representer, serializer, composer, constructor) does with it
and TLC checks L => H (H_RoundTrip!GraphIso and the anchor / tag invariants) on all of them.
spec -> code: every state is instantiated as real Python objects (seed-dependent representatives), dumped with
{SafeDumper, CSafeDumper} under the state's options and under points of the full option product, loaded with
{SafeLoader, CSafeLoader}; both object graphs are projected to rooted heaps and TLC judges GraphIso on every
observation (Trace_RoundTrip.tla).  The real SafeDumper event stream is compared with L's (drift notes only).
code -> spec: a seeded random driver draws larger values (up to 60 nodes, free-form strings, full option product);
its observations are judged by the same trace specification."""
import io, json, os, random, zlib, multiprocessing as mp
from .. import tlc, mbt
from .. import c02_util as U
from ..common import Verdict, use_repo, SEED

PAR = max(1, int(os.environ.get('VERIF_TRACE_PAR', '16') or 16))     # cap on TLC workers / pool sizes / concurrent JVMs (shared box)
ALLTZ = ['utc', 'p00', 'pH0', 'p0M', 'pHM', 'nH0', 'n0M', 'nHM']
BASE = dict(MaxObjs=3, MaxKids=2, ValScalars=['s_word'], KeyScalars=['s_word'], CellTypes=['list', 'dict'], DateRanks=[1], TzShapes=['utc'],
            SortOpts=[False], FlowOpts=['N'], StyleOpts=[''], D7Fixed=False)
ALLVALS = ['none', 'true', 'false', 'int_neg', 'int_pos', 'int_big', 'fninf', 'fnegzero', 'float_frac', 'float_pos', 'fexp', 'finf',
           'fnan', 's_empty', 's_float', 's_int', 's_ts', 's_merge', 's_value', 's_bool', 's_word', 's_null', 's_multi', 'b_lo', 'b_hi']
ALLKEYS = [x for x in ALLVALS if x != 'fnan']
CONFIGS = {
    # pure graphs of containers: every sharing / cycle pattern of up to 4 lists and dicts
    'graph4': dict(BASE, MaxObjs=4, ValScalars=[], CellTypes=['list', 'dict']),
    # all container kinds and a shared date object, leaves, both sort_keys settings
    'mixed3': dict(BASE, MaxObjs=3, CellTypes=['list', 'dict', 'set', 'date'], SortOpts=[True, False]),
    # one dict / set with up to three keys of comparable and incomparable kinds, in every order
    'order1': dict(BASE, MaxObjs=1, MaxKids=3, KeyScalars=['int_neg', 'int_pos', 'float_frac', 's_word', 's_int', 'none'],
                   CellTypes=['dict', 'set'], SortOpts=[True, False]),
    # date / datetime objects as (shared) keys and values
    'dates3': dict(BASE, MaxObjs=3, KeyScalars=['int_pos'], CellTypes=['dict', 'set', 'date', 'dtn'], DateRanks=[1, 2],
                   SortOpts=[True, False]),
    'dates2': dict(BASE, MaxObjs=2, KeyScalars=['int_pos'], CellTypes=['dict', 'set', 'date', 'dtn'], DateRanks=[1, 2],
                   SortOpts=[True, False]),
    # every scalar class as value and as key, every value-level option
    'scalars': dict(BASE, MaxObjs=1, MaxKids=1, ValScalars=ALLVALS, KeyScalars=ALLKEYS, CellTypes=['list', 'dict', 'set'],
                    SortOpts=[True, False], FlowOpts=['T', 'F', 'N'], StyleOpts=['', 'q']),
    # aware datetimes, with and without seconds in the UTC offset (D7)
    # (every UTC offset shape: timezone.utc, +00:00, sign x {zero, non-zero} hours x {zero, non-zero} minutes)
    'tz2': dict(BASE, MaxObjs=2, KeyScalars=['int_pos'], CellTypes=['list', 'dict', 'dta', 'dts'], TzShapes=ALLTZ, SortOpts=[True, False]),
    # small mixed values (C16 quick)
    'mixed2': dict(BASE, MaxObjs=2, KeyScalars=['s_word', 'int_pos'], CellTypes=['list', 'dict', 'set', 'date'], SortOpts=[True, False]),
    # thorough only
    'opts2': dict(BASE, MaxObjs=2, KeyScalars=['s_word', 'int_pos'], CellTypes=['list', 'dict', 'set', 'date'], SortOpts=[True, False],
                  FlowOpts=['T', 'F', 'N'], StyleOpts=['', 'q']),
    'lists5': dict(BASE, MaxObjs=5, ValScalars=[], CellTypes=['list']),
    'mixed4': dict(BASE, MaxObjs=4, CellTypes=['list', 'dict', 'set', 'date'], SortOpts=[True]),
    'order2': dict(BASE, MaxObjs=2, MaxKids=3, KeyScalars=['int_neg', 'int_pos', 's_word'], CellTypes=['dict', 'set', 'date'],
                   DateRanks=[1, 2], SortOpts=[True, False]),
    'scalars2': dict(BASE, MaxObjs=1, MaxKids=2, ValScalars=ALLVALS, KeyScalars=['s_word', 'int_pos', 'b_lo'], CellTypes=['list', 'dict'],
                     SortOpts=[True], FlowOpts=['N'], StyleOpts=['', 'q']),
    'tz3': dict(BASE, MaxObjs=3, KeyScalars=['int_pos'], CellTypes=['list', 'dict', 'set', 'dta', 'dts'], DateRanks=[1, 2],
                TzShapes=['utc', 'n0M', 'pHM'], SortOpts=[True, False]),
}
TIERS = {'quick': ['graph4', 'mixed3', 'order1', 'dates2', 'scalars', 'tz2'],
         'thorough': ['graph4', 'lists5', 'mixed4', 'order2', 'dates3', 'scalars', 'scalars2', 'opts2', 'tz3']}
# spec/StrContext.tla: every text over the indicator alphabet (the 19 YAML indicators, space, tab, line break, a word
# character, '.', '~', '=', '<', '\\', the document markers '---' and '...' as symbols of their own) in every context
# under every default_flow_style
STR_ALPHABET = [ord(c) for c in '-?:,[]{}#&*!|>\'"%@` \t\nx.~=<\\'] + [2000001, 2000002]      # ... and the macro-symbols '---', '...' 
STR_BASE = dict(Alphabet=STR_ALPHABET, Third=[ord('x')], MaxLen=3, MinDepth=0, MaxDepth=1, Sibs=['none', 'after'], FlowOpts=['T', 'F', 'N'],
                StyleOpts=[''], Variant='"tree"', LongUnits=[], LongLens=[], D12Fixed=False)
STR_CONFIGS = {
    # lead x follower x {nothing, word} at the root, as list item, dict key, dict value, alone or followed by a sibling
    'str_d1': dict(STR_BASE),
    # lead x follower nested two levels (block in block, flow in block, flow in flow)
    'str_d2': dict(STR_BASE, MaxLen=2, MinDepth=2, MaxDepth=2, Sibs=['none']),
    # long texts: runs of a character written as 1 ('x'), 2 (', BEL), 4 (\\x01), 6 (U+E000) and 10 (U+1F600) characters around
    # the lengths where a key stops being a simple key (5 + 123 = 128 raw) or is given up by the scanner (1024 written)
    'str_long': dict(STR_BASE, Alphabet=[], Third=[], MaxLen=0, LongUnits=[120, 39, 7, 1, 0xE000, 0x1F600], LongLens=[100, 102, 103, 122, 123, 128]),
    # thorough: every text of three symbols (inner indicators at every position); a sibling before the text; every
    # default_style; three levels
    'str_len3': dict(STR_BASE, Third=STR_ALPHABET, Sibs=['none']),
    'str_d1_sibs': dict(STR_BASE, Sibs=['none', 'after', 'before']),
    'str_d2_sibs': dict(STR_BASE, MinDepth=2, MaxDepth=2, Sibs=['none', 'after', 'before']),
    'str_styles': dict(STR_BASE, MaxLen=2, Sibs=['none', 'after'], StyleOpts=['', 'sq', 'dq', 'lit', 'fold']),
    'str_d3': dict(STR_BASE, MaxLen=2, MinDepth=3, MaxDepth=3, Sibs=['none']),
}
STR_TIERS = {'quick': ['str_d1', 'str_d2', 'str_long'], 'thorough': ['str_long', 'str_len3', 'str_d1_sibs', 'str_d2_sibs', 'str_styles', 'str_d3']}
STR_NEGCTL = ['qc_like_dash', 'dash_never', 'inner_qm_free', 'lead_pct_free']     # broken variants of L: the model's H must reject each
STR_INVARIANTS = ['PlainRoundTrip', 'BlockStyleInBlockContext']
EXTRA_OPTS = {'quick': 0.25, 'thorough': 1}          # points of the full option product per state, besides the state's own options
RANDOM_VALUES = {'quick': 2500, 'thorough': 60000}
INVARIANTS = ['RoundTrip', 'TagsSurvive', 'AnchorsWellFormed', 'OnlyObjectsAliased', 'KeeperHoldsAll']


def tla(v):
    if isinstance(v, bool):
        return 'TRUE' if v else 'FALSE'
    if isinstance(v, list):
        return '{' + ', '.join(('"%s"' % x) if isinstance(x, str) else tla(x) for x in v) + '}'
    return str(v)


FLOW = {'T': True, 'F': False, 'N': None}
SHORT = 'tag:yaml.org,2002:'


# ------------------------------------------------------------------------------------------------ stage driver (drift)
def real_events(yaml, value, opts):
    """the event stream of the real Representer + Serializer (SafeDumper with a recording emit), abstracted like L's"""
    rec = []

    class Rec(yaml.SafeDumper):
        def emit(self, ev):
            rec.append(ev)
    d = Rec(io.StringIO(), **opts)
    try:
        d.open()
        d.represent(value)
        d.close()
    finally:
        d.dispose()
    out = []

    def num(a):
        if a is None:
            return 0
        return int(a[2:]) if a.startswith('id') and a[2:].isdigit() else -1

    def short(t):
        return t[len(SHORT):] if t and t.startswith(SHORT) else t
    for ev in rec:
        n = type(ev).__name__
        if n == 'AliasEvent':
            out.append(['alias', num(ev.anchor)])
        elif n == 'ScalarEvent':
            st = 'lit' if ev.tag == SHORT + 'binary' else ('' if ev.style is None else 'q')
            out.append(['scalar', num(ev.anchor), short(ev.tag), bool(ev.implicit[0]), bool(ev.implicit[1]), st])
        elif n == 'SequenceStartEvent':
            out.append(['seq', num(ev.anchor), short(ev.tag), bool(ev.implicit), bool(ev.flow_style)])
        elif n == 'MappingStartEvent':
            out.append(['map', num(ev.anchor), short(ev.tag), bool(ev.implicit), bool(ev.flow_style)])
        elif n in ('SequenceEndEvent', 'MappingEndEvent'):
            out.append(['end'])
    return out


def model_events(evs):
    out = []
    for e in evs:
        k = e['k']
        if k == 'alias':
            out.append(['alias', e['a']])
        elif k == 'scalar':
            out.append(['scalar', e['a'], e['tag'], e['i1'], e['i2'], e['st']])
        elif k in ('seq', 'map'):
            out.append([k, e['a'], e['tag'], e['i1'], e['fl']])
        else:
            out.append(['end'])
    return out


def text_anchors(yaml, text):
    out = []
    for ev in yaml.parse(text, Loader=yaml.SafeLoader):
        a = getattr(ev, 'anchor', None)
        n = type(ev).__name__
        if n in ('AliasEvent', 'ScalarEvent', 'SequenceStartEvent', 'MappingStartEvent'):
            out.append(('alias' if n == 'AliasEvent' else 'node', a))
    return out


# ------------------------------------------------------------------------------------------------ one case
def state_seed(name, st):
    return zlib.crc32(json.dumps([SEED, name, st['heap'], st['root'], st['opts']], sort_keys=True, default=str).encode())


def option_sets(st, rseed, extra):
    o = st['opts']
    rng = random.Random(rseed + 1)
    style = None if o['dstyle'] == '' else rng.choice(['"', "'", '|', '>'])
    base = U.default_options(o['sort'], style, FLOW[o['flow']])
    sets = [base]
    if extra < 1:                      # quick tier: a point of the full product for every fourth state
        extra = 1 if rseed % 4 == 0 else 0
    for _ in range(extra):
        sets.append(U.random_options(rng, sort_keys=o['sort'], default_style=style if rng.random() < 0.5 else
                                     (rng.choice(['"', "'", '|', '>']) if style else None), default_flow_style=FLOW[o['flow']]))
    return sets


def run_case(yaml, value, in_proj, opts, dumper, bucket, recipe, dumped=None):
    """observe one (value, options, dumper) with both loaders; file the observations into the bucket"""
    n = 0
    for loader, outcome, text, back in U.observe(yaml, value, opts, dumper, dumped=dumped):
        tr = U.rt_trace(in_proj, outcome, back, not opts.get('sort_keys', True))
        n += 1
        suspect = outcome != 'ok' or tr['h1'] != tr['h2'] or tr['r1'] != tr['r2']
        key = json.dumps(tr, sort_keys=True)
        if suspect:
            bucket['suspect'].append((key, json.dumps(dict(recipe, opts=U.opts_json(opts), dumper=dumper, loader=loader))))
        elif key not in bucket['uniq']:
            bucket['uniq'][key] = json.dumps(dict(recipe, opts=U.opts_json(opts), dumper=dumper, loader=loader))
    return n


def work(states, extra):
    yaml = use_repo()
    name = extra['config']
    res = {'n': 0, 'obs': 0, 'uniq': {}, 'suspect': [], 'drift': [], 'ndrift': 0, 'samples': [], 'last': {}, 'nontrivial': 0,
           'lfail': 0}
    for st in states:
        res['n'] += 1
        res['last'][st['last']] = res['last'].get(st['last'], 0) + 1
        rseed = state_seed(name, st)
        value = U.build_value(st['heap'], st['root'], random.Random(rseed))
        in_proj = U.project(value)
        lev = st['lres']['ev']
        if any(e['k'] == 'alias' for e in lev):
            res['nontrivial'] += 1
        if st['lres']['rt'] != '-':
            res['lfail'] += 1
        sets = option_sets(st, rseed, extra['extra_opts'])
        recipe = {'kind': 'state', 'config': name, 'heap': st['heap'], 'root': st['root'], 'rseed': rseed}
        for opts in sets:
            for dumper in U.DUMPERS:
                res['obs'] += run_case(yaml, value, in_proj, opts, dumper, res, recipe)
        # L against the real representer + serializer (drift only; H is silent on styles and anchor names)
        unsorted_set = any(c['t'] == 'set' and len(c['c']) >= 2 for c in st['heap']) and \
            not (st['opts']['sort'] and all_comparable(st))          # iteration order of the real set is not the state's
        if not unsorted_set:
            try:
                real = real_events(yaml, value, sets[0])
            except Exception as e:
                real = ['exception ' + type(e).__name__]
            if real != model_events(lev):
                res['ndrift'] += 1
                if len(res['drift']) < 3:
                    res['drift'].append({'value': repr(value)[:200], 'opts': sets[0], 'model': model_events(lev), 'real': real})
        if len(res['samples']) < 1 and len(st['heap']) >= 2 and any(e['k'] == 'alias' for e in lev):
            res['samples'].append({'value': repr(value)[:160], 'options': U.opts_json(sets[-1]),
                                   'text': str(yaml.dump(value, Dumper=yaml.SafeDumper, **sets[0]))[:160]})
    return res


def key_group(heap, v):
    if v['id']:
        t = heap[v['id'] - 1]['t']
        return 'dta' if t == 'dts' else t
    s = v['s']
    if s in ('none',):
        return 'NoneType'
    if s in ('true', 'false') or s.startswith('int_') or s.startswith('f'):
        return 'num'
    return 'str' if s.startswith('s_') else 'bytes'


def all_comparable(st):
    for c in st['heap']:
        keys = c['c'][0::2] if c['t'] == 'dict' else c['c'] if c['t'] == 'set' else []
        gs = {key_group(st['heap'], k) for k in keys}
        if len(keys) >= 2 and (len(gs) > 1 or gs == {'NoneType'}):
            return False
    return True


# ------------------------------------------------------------------------------------------------ random driver
def random_work(args):
    seed, start, count = args
    yaml = use_repo()
    res = {'obs': 0, 'uniq': {}, 'suspect': [], 'nontrivial': 0, 'nodes': 0, 'samples': []}
    for i in range(start, start + count):
        rng = random.Random('%d/%d' % (seed, i))
        value, opts = U.random_case(rng)
        in_proj = U.project(value)
        res['nodes'] = max(res['nodes'], len(in_proj[0]))
        recipe = {'kind': 'random', 'seed': seed, 'index': i}
        before = len(res['suspect'])
        for dumper in U.DUMPERS:
            res['obs'] += run_case(yaml, value, in_proj, opts, dumper, res, recipe)
        if len(in_proj[0]) >= 3:
            res['nontrivial'] += 1
        if not res['samples'] and len(in_proj[0]) >= 4:
            res['samples'].append({'value': repr(value)[:160], 'options': U.opts_json(opts)})
    return res


def grid_work(args):
    a, b = args
    yaml = use_repo()
    res = {'obs': 0, 'uniq': {}, 'suspect': []}
    for i in range(a, b):
        for recipe, value, opts in U.grid_cases(i):
            in_proj = U.project(value)
            for dumper in U.DUMPERS:
                res['obs'] += run_case(yaml, value, in_proj, opts, dumper, res, recipe)
    return res


def strctx_work(states, extra):
    """spec -> code for spec/StrContext.tla: every state (text, context, options) is built as a real value and dumped by
    both safe dumpers, every distinct text is loaded by both safe loaders; the observations go to TLC (GraphIso).
    L is compared with the real classes in both directions (drift notes only, H is silent on styles and layout):
      emitter: the style the model chooses for the scalar (and, for plain, the whole document it lays out) against
               what SafeDumper wrote;
      scanner: the model's verdict on the text written plain at its place against SafeLoader on that document."""
    yaml = use_repo()
    name = extra['config']
    res = {'n': 0, 'obs': 0, 'uniq': {}, 'suspect': [], 'drift': {}, 'styles': {}, 'plain_unsafe': 0, 'plain_refused': 0,
           'samples': [], 'lead': {}, 'keytoolong': 0}

    def drift(kind, ex):
        d = res['drift'].setdefault(kind, [0, ex])
        d[0] += 1
    for st in states:
        res['n'] += 1
        cps, ctx, lr = st['text'], st['ctx'], st['lres']
        value = U.strctx_value(cps, ctx['path'], ctx['sib'])
        opts = U.strctx_opts(st['opts'])
        in_proj = U.project(value)
        recipe = {'kind': 'strctx', 'config': name, 'text': cps, 'path': ctx['path'], 'sib': ctx['sib']}
        s = ''.join(map(chr, cps))
        pre, post = ''.join(map(chr, lr['pre'])), ''.join(map(chr, lr['post']))
        res['styles'][lr['style']] = res['styles'].get(lr['style'], 0) + 1
        if not lr['plainok']:
            res['plain_unsafe'] += 1
        elif lr['style'] != 'plain':
            res['plain_refused'] += 1          # the emitter is more careful than the scanner requires
        if cps and chr(cps[0]) in "-?:,[]{}#&*!|>'\"%@`" and len(cps) > 1 and chr(cps[1]) not in ' \t\n':
            res['lead'][chr(cps[0])] = res['lead'].get(chr(cps[0]), 0) + 1
        seen = {}
        for dumper in U.DUMPERS:
            dumped = U.dump_once(yaml, value, opts, dumper)
            text = dumped[0]
            if text is not None and text in seen:
                continue                      # the same document: the same loads
            seen[text] = dumper
            nsus = len(res['suspect'])
            res['obs'] += run_case(yaml, value, in_proj, opts, dumper, res, recipe, dumped)
            if dumper == 'SafeDumper' and lr['keytoolong']:
                res['keytoolong'] += 1
                if len(res['suspect']) == nsus:          # L exhibits the defect D12 here, the real code round-trips
                    drift('keylimit', {'text': s[:20] + '...', 'length': len(s), 'ctx': ctx, 'opts': st['opts'], 'written': str(text)[:60]})
            if dumper == 'SafeDumper' and text is not None and st['opts']['style'] != '':
                # the neighbours are written in the default_style too: the layout of the model (plain neighbours) does
                # not apply; the style of the scalar is taken from the events of the document
                real = U.strctx_parsed_style(yaml, text, ctx['path'], ctx['sib'])
                if real is not None and real != lr['style']:
                    drift('style', {'text': s, 'ctx': ctx, 'opts': st['opts'], 'model': lr['style'], 'real': real, 'written': text[:80]})
            elif dumper == 'SafeDumper' and text is not None:
                real = None if lr['complexkey'] else U.strctx_real_style(text, pre)
                ex = {'text': s, 'ctx': ctx, 'opts': st['opts'], 'model': lr['style'], 'real': real, 'written': text[:80]}
                if lr['complexkey']:
                    pass
                elif real is None:
                    drift('layout', ex)
                elif real != lr['style']:
                    drift('style', ex)
                elif real == 'plain' and lr['narrow'] and text != pre + s + post:
                    drift('layout', ex)
        # the scanner model on its own: the text written plain at its place
        if not lr['complexkey'] and st['opts']['style'] == '':
            doc = pre + s + post
            try:
                back = yaml.load(doc, Loader=yaml.SafeLoader)
                same = U.project(back) == in_proj
            except Exception:
                same = False
            if same != lr['plainok']:
                drift('scanner', {'document': doc, 'ctx': ctx, 'opts': st['opts'], 'model_reads_text_back': lr['plainok'],
                                  'SafeLoader_reads_text_back': same})
        if len(res['samples']) < 1 and lr['style'] == 'plain' and len(cps) >= 2 and ctx['path']:
            res['samples'].append({'value': repr(value), 'options': U.opts_json(opts), 'text': pre + s + post})
    return res


def run_str_configs(names, prefix, workers, negctl, d12fixed=False):
    """the TLC runs of spec/StrContext.tla -> ({name: result}, {variant: result})"""
    import threading
    runs, neg = {}, {}

    def go(name):
        cfg = dict(STR_CONFIGS[name], D12Fixed=d12fixed)
        runs[name] = tlc.run('StrContext', cfg='MC_StrContext.cfg', dump=True, tag=prefix + name, timeout=3000, coverage=False,
                             workers=workers, heap='4g', constants={k: tla(x) for k, x in cfg.items()})

    def gon(variant):
        cfg = dict(STR_CONFIGS['str_d1'], Variant='"%s"' % variant)
        neg[variant] = tlc.run('StrContext', cfg='MC_StrContext.cfg', tag=prefix + 'neg_' + variant, timeout=600, coverage=False,
                               workers=2, heap='2g', constants={k: tla(x) for k, x in cfg.items()})
    if PAR < 16:                           # shared box: one JVM at a time
        workers = min(workers, PAR)
        for n in names:
            go(n)
        for x in negctl:
            gon(x)
        return runs, neg
    ths = [threading.Thread(target=go, args=(n,)) for n in names] + [threading.Thread(target=gon, args=(x,)) for x in negctl]
    for t in ths:
        t.start()
    for t in ths:
        t.join()
    return runs, neg


def report(v, yaml, tr, rec, why):
    rec = json.loads(rec) if isinstance(rec, str) else rec
    value, opts = U.rebuild(rec)
    got = [x for x in U.observe(yaml, value, opts, rec['dumper'], [rec['loader']])][0]
    loader, outcome, text, back = got
    key = U.classify(yaml, value, opts, rec['dumper'], rec['loader'], outcome, text, back, why)
    if rec['kind'] == 'state':
        key['config'] = rec['config']
    if rec['kind'] == 'strctx':          # the input class: first characters of the text, its place, how the container is written
        key['config'] = rec['config']
        key['lead'] = ''.join(map(chr, rec['text'][:2]))
        key['place'] = '/'.join(rec['path']) or 'root'
        key['flow'] = opts.get('default_flow_style')
    detail = {'recipe': rec, 'value': repr(value)[:400], 'text': (text if isinstance(text, str) else repr(text))[:600] if text is not None else None,
              'loaded': repr(back)[:400], 'why': why}
    return v.violation(key, detail)


def judge_and_report(v, yaml, traces, tag):
    """traces: list of (trace, recipe, is_suspect); every trace is judged by TLC; rejected ones are classified"""
    verdicts, tstates = U.judge_parallel('Trace_RoundTrip', [t for t, _, _ in traces], tag, concurrent=max(1, min(12, PAR // 2)))
    rejected = 0
    for (tr, rec, sus), (ok, why, at) in zip(traces, verdicts):
        if not ok:
            rejected += 1
            report(v, yaml, tr, rec, why)
    return tstates, rejected


def run_configs(names, d7fixed, prefix, workers):
    """the TLC runs of the configurations, concurrently (quick) -> {name: result}"""
    import threading
    runs = {}

    def go(name):
        cfg = dict(CONFIGS[name], D7Fixed=d7fixed)
        runs[name] = tlc.run('Represent', cfg='MC_Represent.cfg', dump=True, tag=prefix + name, timeout=3000, coverage=False,
                             workers=workers, heap='4g', constants={k: tla(x) for k, x in cfg.items()})
    if PAR < 16:                           # shared box: one JVM at a time
        workers = min(workers, PAR)
        for n in names:
            go(n)
    elif workers >= 16:
        for n in names:
            go(n)
    else:
        ths = [threading.Thread(target=go, args=(n,)) for n in names]
        for t in ths:
            t.start()
        for t in ths:
            t.join()
    return runs


def main(tier, replay=None):
    v = Verdict('C02', tier)
    yaml = use_repo()
    if replay:
        d = json.load(open(replay))
        traces = []
        for x in d['violations']:
            rec = x['detail']['recipe']
            value, opts = U.rebuild(rec)
            for loader, outcome, text, back in U.observe(yaml, value, opts, rec['dumper'], [rec['loader']]):
                traces.append((U.rt_trace(U.project(value), outcome, back, not opts.get('sort_keys', True)), rec, True))
        tstates, rejected = judge_and_report(v, yaml, traces, 'C02_replay')
        v.cov = {'states': tstates, 'transitions': 0, 'traces_validated_against_impl': len(traces), 'replayed': len(traces)}
        return v.finish()
    # is the D7 repair in the tree?  (L models either variant; the constant follows the code)
    import datetime
    probe = datetime.datetime(2001, 1, 1, tzinfo=datetime.timezone(datetime.timedelta(seconds=1)))
    try:
        d7fixed = '+00:00:01' not in yaml.dump(probe, Dumper=yaml.SafeDumper)
    except Exception:
        d7fixed = False
    # ... and the D12 repair (a key whose written form is longer than 1024 characters is not written as a simple key)?
    try:
        d12fixed = yaml.dump({'\U0001F600' * 110: 1}, Dumper=yaml.SafeDumper).startswith('? ')
    except Exception:
        d12fixed = False
    import time, threading
    phases, t0 = {}, time.time()
    states = trans = obs = nontrivial = tstates = rejected = njudged = 0
    samples, traces, per_config, lasts = [], [], {}, {}
    names = os.environ['VERIF_DEV_CONFIGS'].split(',') if os.environ.get('VERIF_DEV_CONFIGS') else TIERS[tier] + STR_TIERS[tier]   # development aid
    snames = [n for n in names if n in STR_CONFIGS]
    names = [n for n in names if n in CONFIGS]
    negctl = STR_NEGCTL if tier == 'thorough' else STR_NEGCTL[:1]
    # the TLC runs (model checking of L => H and enumeration of the states to replay) go on in the background while
    # this process drives the real code with the random values and the string grid
    box = {}

    def tlc_represent():
        box['runs'] = run_configs(names, d7fixed, 'C02_', 16 if tier == 'thorough' else 6)

    def tlc_strctx():
        box['sruns'], box['neg'] = run_str_configs(snames, 'C02_', 8 if tier == 'thorough' else 4, negctl if snames else [], d12fixed)
    pool = mp.Pool(min(16, PAR))           # (forked before the threads exist)
    bg = [threading.Thread(target=tlc_represent), threading.Thread(target=tlc_strctx)]
    for t in bg:
        t.start()
    # code -> spec: larger random values
    nrand = RANDOM_VALUES[tier]
    chunk = max(50, nrand // 64)
    jobs = [(SEED, a, min(chunk, nrand - a)) for a in range(0, nrand, chunk)]
    # code -> spec: the systematic string grid (every grid string x context x style x option set x 4 pairings)
    step = max(1, len(U.GRID) // 64)
    with pool:
        rout = pool.map(random_work, jobs, chunksize=1)
        gout = pool.map(grid_work, [(a, min(a + step, len(U.GRID))) for a in range(0, len(U.GRID), step)], chunksize=1)
    phases['random_driver_and_grid_s'] = round(time.time() - t0, 1)
    for t in bg:
        t.join()
    if 'runs' not in box or 'sruns' not in box:
        raise SystemExit('machinery failure: a TLC run did not start')
    runs, sruns = box['runs'], box['sruns']
    phases['tlc_model_checking_s'] = round(time.time() - t0, 1)
    t0 = time.time()
    # spec/StrContext.tla: the broken variants of L must be rejected by the model's H (the invariant is not vacuous)
    for variant, r in box['neg'].items():
        if 'PlainRoundTrip' not in r.violated:
            print(r.out[-2000:])
            raise SystemExit('machinery failure: StrContext.tla does not reject the broken variant %s of L (H is vacuous)' % variant)
    str_cov = {'styles': {}, 'plain_unsafe_places': 0, 'plain_safe_but_quoted': 0, 'leading_indicator_then_non_space': {},
               'negative_controls_rejected_by_H': sorted(box['neg']), 'L_predicts_D12_rejection': 0, 'D12_fixed_in_tree': d12fixed}
    for name in snames:
        r = sruns[name]
        if r.violated:
            print(r.out[-3000:])
            raise SystemExit('machinery failure: StrContext.tla violates %s in configuration %s (L does not refine H in the model)' % (r.violated, name))
        tlc.require_ok(r, 'StrContext/' + name)
        states += r.distinct
        trans += r.generated
        out = mbt.pmap(strctx_work, r.dump, {'config': name}, procs=min(16, PAR))
        n = sum(o['n'] for o in out)
        if n != r.distinct:
            raise SystemExit('machinery failure: replayed %d string states, TLC found %d states' % (n, r.distinct))
        per_config[name] = {'states': r.distinct, 'tlc_s': round(r.wall, 1), 'observations': sum(o['obs'] for o in out)}
        obs += sum(o['obs'] for o in out)
        uniq, drift = {}, {}
        for o in out:
            samples += o['samples'][:1] if len(samples) < 2 else []
            for k, rec in o['uniq'].items():
                uniq.setdefault(k, rec)
            traces += [(t, rec, True) for t, rec in o['suspect']]
            for k, (c, ex) in o['drift'].items():
                d = drift.setdefault(k, [0, ex])
                d[0] += c
            for k, c in o['styles'].items():
                str_cov['styles'][k] = str_cov['styles'].get(k, 0) + c
            for k, c in o['lead'].items():
                str_cov['leading_indicator_then_non_space'][k] = str_cov['leading_indicator_then_non_space'].get(k, 0) + c
            str_cov['L_predicts_D12_rejection'] += o['keytoolong']
            str_cov['plain_unsafe_places'] += o['plain_unsafe']
            str_cov['plain_safe_but_quoted'] += o['plain_refused']
        traces += [(k, rec, False) for k, rec in uniq.items()]
        for k, (c, ex) in sorted(drift.items()):
            v.note('spec-drift C02/%s (%s): %d states where L of StrContext.tla and the real %s differ (H is silent on it): %s'
                   % (name, k, c, 'SafeLoader' if k == 'scanner' else 'SafeDumper', json.dumps(ex, default=str)[:500]))
        os.remove(r.dump)
    if snames:
        if not (str_cov['styles'].get('plain') and str_cov['styles'].get('sq') and str_cov['styles'].get('dq') and str_cov['plain_unsafe_places']):
            raise SystemExit('machinery failure: the string contexts do not exercise every style decision (vacuous): %s' % str_cov)
        if 'str_long' in snames and not d12fixed and not str_cov['L_predicts_D12_rejection']:
            raise SystemExit('machinery failure: the model never exhibits the defect D12 (vacuous exception in PlainRoundTrip)')
        if len(str_cov['leading_indicator_then_non_space']) != 19 and any(n != 'str_long' for n in snames):
            raise SystemExit('machinery failure: not every indicator character leads a text (vacuous): %s' % str_cov)
    for name in names:
        r = runs[name]
        if r.violated:
            print(r.out[-3000:])
            raise SystemExit('machinery failure: Represent.tla violates %s in configuration %s (L does not refine H in the model)' % (r.violated, name))
        tlc.require_ok(r, 'Represent/' + name)
        states += r.distinct
        trans += r.generated
        out = mbt.pmap(work, r.dump, {'config': name, 'extra_opts': EXTRA_OPTS[tier]}, procs=min(16, PAR))
        n = sum(o['n'] for o in out)
        if n != r.distinct:
            raise SystemExit('machinery failure: replayed %d values, TLC found %d states' % (n, r.distinct))
        per_config[name] = {'states': r.distinct, 'tlc_s': round(r.wall, 1), 'L_predicts_failure': sum(o['lfail'] for o in out)}
        obs += sum(o['obs'] for o in out)
        nontrivial += sum(o['nontrivial'] for o in out)
        nd = sum(o['ndrift'] for o in out)
        if nd:
            ex = [x for o in out for x in o['drift']][:1]
            v.note('spec-drift C02/%s: %d values whose real SafeDumper event stream differs from L (H is silent on it): %s' % (name, nd, json.dumps(ex, default=str)[:600]))
        uniq = {}
        for o in out:
            samples += o['samples']
            for k, n2 in o['last'].items():
                lasts[k] = lasts.get(k, 0) + n2
            for k, rec in o['uniq'].items():
                uniq.setdefault(k, rec)
            traces += [(t, rec, True) for t, rec in o['suspect']]
        traces += [(k, rec, False) for k, rec in uniq.items()]
        os.remove(r.dump)
        if len(traces) > 150000:               # thorough: judge and forget, configuration by configuration
            ts, rj = judge_and_report(v, yaml, traces, 'C02_rt_' + name)
            tstates += ts
            rejected += rj
            njudged += len(traces)
            traces = []
    for k in ['init', 'item', 'entry', 'member'] if names else []:
        if not lasts.get(k):
            raise SystemExit('machinery failure: no state was produced by step %s (vacuous)' % k)
    if names and not d7fixed and not any(c.get('L_predicts_failure') for c in per_config.values()):
        raise SystemExit('machinery failure: the model never exhibits the design defect D7 (vacuous exception in RoundTrip)')
    phases['replay_of_model_states_s'] = round(time.time() - t0, 1)
    t0 = time.time()
    gobs = sum(o['obs'] for o in gout)
    robs = sum(o['obs'] for o in rout)
    uniq = {}
    for o in gout:
        for k, rec in o['uniq'].items():
            uniq.setdefault(k, rec)
        traces += [(t, rec, True) for t, rec in o['suspect']]
    for o in rout:
        samples += o['samples'][:1]
        for k, rec in o['uniq'].items():
            uniq.setdefault(k, rec)
        traces += [(t, rec, True) for t, rec in o['suspect']]
    traces += [(k, rec, False) for k, rec in uniq.items()]
    ts, rj = judge_and_report(v, yaml, traces, 'C02_rt')
    tstates += ts
    rejected += rj
    njudged += len(traces)
    phases['tlc_trace_judgement_s'] = round(time.time() - t0, 1)
    v.cov = {'phases': phases, 'states': states + tstates, 'transitions': trans, 'model_states': states, 'traces_validated_against_impl': obs + robs + gobs, 'observations_from_string_grid': gobs, 'grid_strings': len(U.GRID),
             'observations_from_model_states': obs, 'observations_from_random_values': robs, 'random_values': nrand,
             'max_random_value_size': max(o['nodes'] for o in rout), 'distinct_observations_judged_by_tlc': njudged,
             'rejected_by_tlc': rejected, 'exhaustive': True, 'distinct_nontrivial': nontrivial + sum(o['nontrivial'] for o in rout),
             'rule': 'one observation = one (value, option set, dumper, loader) dump+load whose two object graphs were projected and '
                     'judged by TLC (identical projections are judged once); non-trivial = model value whose document contains an '
                     'alias (sharing or cycle), or random value of >= 3 identity-bearing objects',
             'samples': samples[:8], 'steps': lasts, 'configs': per_config, 'D7_fixed_in_tree': d7fixed,
             'string_contexts': str_cov, 'invariants': INVARIANTS + STR_INVARIANTS}
    v.assumptions = ['strings are sequences of Unicode scalar values; ints below the CPython int->str digit limit; tzinfo = fixed offsets',
                     'option values are valid ones: encoding in {None, utf-8, utf-16-le, utf-16-be}, version in {None, (1,1), (1,2)}, '
                     'tag handles well-formed, indent 1-9, width 5-200',
                     'emitter + scanner + parser keep event kinds, anchors and scalar values and drop a tag only where the implicit '
                     'flags allow it (the contract C05 checks); the model composes the value level on top of that contract',
                     'dict keys / set members are pairwise different under type-strict equality (at most one NaN per dict)']
    return v.finish()
