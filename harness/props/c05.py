"""C05 - emitting then parsing returns the same events; ill-formed streams are rejected only with EmitterError.

A  spec/Scalars.tla + MC_Scalars.tla (L, character level: analyze_scalar, choose_scalar_style, the five writers, the scalar
   scanners) checked by TLC against H (value read back = value written) for every text up to the bound in every context;
   every state is replayed through the real emitters and parsers (spec -> code), the real (events_in, events_out) pairs are
   judged by TLC (Trace_EmitParse.tla / H_EventEq.tla); L's exact text and style are compared as drift only.
B  spec/Emitter.tla (L, event level) ... see part B below.
C  code -> spec: the events of the repository's data files re-emitted under the option product, judged the same way.
"""
import glob, json, os, random, re
import multiprocessing as mp
from .. import tlc, mbt, trace
from ..common import Verdict, use_repo, REPO, SEED
from ..drivers import emitparse as ep

# Scalars!Indicators: every character that analyze_scalar / the writers or the scanner (fetch_more_tokens' dispatch, check_plain,
# check_key, check_value, scan_plain, the document-marker and directive checks, the flow scalar scanner) treat specially at some
# position.  MC_Scalars adds them to the alphabet itself (IndMax > 0), each one a symbol of its own; this copy serves the seeded
# generator of part C and is compared with the set TLC enumerated (machinery failure if they differ).
INDICATORS = sorted(ord(c) for c in '#,[]{}&*!|>\'"%@`' + '?:-' + '.' + '\\')
# the other character classes of Scalars.tla: word, space, the five breaks, CR, TAB, NUL, BMP / NBSP / BOM / astral unicode,
# C0 controls with and without a named escape, the two non-characters
FBASE = [97, 32, 10, 133, 8232, 8233, 13, 9, 0, 233, 160, 65279, 7, 127, 128512, 65534]
FULL = FBASE + INDICATORS
# representatives of the classes that are NOT single characters (first = the code point the model computes with); no character
# of INDICATORS is in any class
CLASSES = {97: 'aZ7_b/+=~^$)(;<', 233: '\xe9\xfc\u4e2d\xff\u0416\ud7ff\ufffd', 128512: '\U0001f600\U00010000\U0010fffe',
           7: '\x07\x08\x0b\x0c\x1b', 127: '\x7f\x01\x1f\x80\x84\x86\x9f\x0e', 65534: '\ufffe\uffff'}
assert not set(INDICATORS) & {ord(c) for v in CLASSES.values() for c in v}


def concretise(cp, rnd):
    """replace every abstract character by a seeded representative of its class"""
    return ''.join(rnd.choice(CLASSES[c]) if c in CLASSES else chr(c) for c in cp)


ALLK = ['root0', 'root3', 'item', 'mval', 'bkey', 'ckey', 'fitem', 'fnext', 'fkey', 'fval']
SBASE = dict(Fix=[], Alpha=[97, 32, 10], MaxLen=6, Kinds=['item'], Bests=[2], Widths=[5], Depths=[1], Unis=[False],
             LBs=['n'], Reqs=['none', 'single', 'double', 'literal', 'folded'], IndMax=0)
SCONF = {
    'wsl':  dict(SBASE, MaxLen=5, Kinds=['item', 'root0', 'bkey', 'fitem'], Depths=[1, 3]),
    # all pairs over the full repertoire: FBASE plus every indicator as its own symbol (IndMax = MaxLen: no limit on them)
    'full': dict(SBASE, Alpha=FBASE, IndMax=2, MaxLen=2, Kinds=['item', 'fitem'], Widths=[80], Unis=[True, False]),
    # one indicator character in the first, an inner or the last position, with a word or a space on either side, under the
    # implicit and the non-implicit plain request: block item / value / simple key, flow item / simple key / value, root
    'ind':  dict(SBASE, Alpha=[97, 32], IndMax=1, MaxLen=4, Kinds=['item', 'mval', 'bkey', 'fitem', 'fkey', 'fval', 'root0'],
                 Widths=[80], Reqs=['none']),
    'esc':  dict(SBASE, Alpha=[97, 32, 233, 7], MaxLen=5, Depths=[3]),
    'b4':   dict(SBASE, MaxLen=5, Bests=[4], Widths=[9], Depths=[1, 3]),
    'lb':   dict(SBASE, MaxLen=4, Kinds=['item', 'root0'], LBs=['r', 'rn']),
    # document markers as words (macro-symbols DOTS, DASHES of MC_Scalars.tla) at the start, inside, at fold points
    'marks': dict(SBASE, Alpha=[97, 32, 900001, 900002], MaxLen=6, Kinds=['root0', 'item', 'mval', 'bkey', 'fitem'], Depths=[1, 3]),
    # thorough
    'wsl+':  dict(SBASE, MaxLen=7, Kinds=ALLK, Depths=[1, 3]),
    'w8+':   dict(SBASE, MaxLen=8, Kinds=['item', 'mval', 'fitem'], Widths=[8], Depths=[1, 2]),
    'full+': dict(SBASE, Alpha=FBASE, IndMax=1, MaxLen=3, Kinds=['item'], Widths=[80], Unis=[True, False]),
    'ctx+':  dict(SBASE, Alpha=FBASE, IndMax=2, MaxLen=2, Kinds=ALLK, Widths=[80, 5], Unis=[True, False]),
    'ind+':  dict(SBASE, Alpha=[97, 32], IndMax=1, MaxLen=5, Kinds=ALLK, Widths=[80], Reqs=['none', 'single']),
    'ind2+': dict(SBASE, Alpha=[97, 32], IndMax=2, MaxLen=4, Kinds=['item', 'mval', 'bkey', 'fitem', 'fnext', 'fkey', 'fval'], Widths=[80],
                  Reqs=['none']),
    'ind3+': dict(SBASE, Alpha=[97, 32], IndMax=3, MaxLen=3, Kinds=['item', 'fitem'], Widths=[80], Reqs=['none']),
    'esc+':  dict(SBASE, Alpha=[97, 32, 10, 233, 7, 34], MaxLen=5, Depths=[1, 3], Kinds=['item', 'fitem']),
    'brk+':  dict(SBASE, Alpha=[97, 32, 10, 133, 8232], MaxLen=5, Kinds=['item', 'root0', 'mval', 'fitem'], Unis=[True]),
    'b4+':   dict(SBASE, MaxLen=6, Bests=[4, 9], Widths=[9, 19], Depths=[1, 3], Kinds=['item', 'mval', 'fitem']),
    'lb+':   dict(SBASE, MaxLen=5, Kinds=['item', 'root0', 'mval', 'fitem', 'bkey'], LBs=['r', 'rn'], Depths=[1, 3]),
    'marks+': dict(SBASE, Alpha=[97, 32, 10, 900001, 900002], MaxLen=7, Kinds=['root0', 'root3', 'item', 'mval', 'bkey', 'fitem', 'fkey'],
                   Depths=[1, 3]),
}
STIERS = {'quick': ['wsl', 'full', 'ind', 'esc', 'b4', 'lb', 'marks'],
          'thorough': ['wsl+', 'w8+', 'full+', 'ctx+', 'ind+', 'ind2+', 'ind3+', 'esc+', 'brk+', 'b4+', 'lb+', 'marks+']}
PAIRS = [('python', 'Dumper', 'python', 'Loader'), ('python', 'Dumper', 'libyaml', 'CLoader'),
         ('libyaml', 'CDumper', 'libyaml', 'CLoader'), ('libyaml', 'CDumper', 'python', 'Loader')]
CMP = ('k', 'a', 't', 'v', 'ver', 'tags')


_T0 = [None]


def _t(label):
    """phase timing on stderr when VERIF_TIMING is set (development aid; no effect on verdicts)"""
    import sys, time
    if os.environ.get('VERIF_TIMING'):
        now = time.time()
        sys.stderr.write('[%s +%.1fs] %s\n' % ('C05', now - (_T0[0] or now), label))
        _T0[0] = now


def tla(v):
    if isinstance(v, bool):
        return 'TRUE' if v else 'FALSE'
    if isinstance(v, list):
        return '{' + ', '.join(tla(x) if isinstance(x, bool) else ('"%s"' % x if isinstance(x, str) else str(x)) for x in v) + '}'
    return str(v)


def identical(ein, eout):
    return len(ein) == len(eout) and all(a.get(k) == b.get(k) for a, b in zip(ein, eout) for k in CMP)


def calibrate(yaml):
    """Which repairs does the tree under test already contain?  Five witnesses (TLC counterexamples of Scalars.tla /
    Emitter.tla with Fix = {}) are run through the real Python emitter; the answer only selects the L variant that is model-checked and
    compared for drift - verdicts never depend on it."""
    E = yaml.events
    fix = []
    for name, value, style, depth, opts in (('D3', '\n a a a', '>', 0, dict(width=5)),
                                           ('D4', 'a\x85b', "'", 0, dict(allow_unicode=True)),
                                           ('D9', 'a\n a', '"', 3, dict(width=5))):
        evs = [E.StreamStartEvent(), E.DocumentStartEvent()] + [E.SequenceStartEvent(None, None, True)] * depth + \
              [E.ScalarEvent(None, None, (True, True), value, style=style)] + [E.SequenceEndEvent()] * depth + \
              [E.DocumentEndEvent(), E.StreamEndEvent()]
        try:
            back = [e.value for e in yaml.parse(yaml.emit(evs, Dumper=yaml.Dumper, **opts), Loader=yaml.Loader)
                    if isinstance(e, E.ScalarEvent)]
        except Exception:
            back = None
        if back == [value]:
            fix.append(name)
    wrap = lambda ds, sc: [E.StreamStartEvent(), ds, sc, E.DocumentEndEvent(), E.StreamEndEvent()]
    for name, evs in (('D5', wrap(E.DocumentStartEvent(tags={'!u!': 't:\xe9:'}), E.ScalarEvent(None, None, (True, False), 'a'))),
                      ('D10e', wrap(E.DocumentStartEvent(), E.ScalarEvent(None, '!', (True, True), '')))):
        try:
            n = sum(1 for e in yaml.parse(yaml.emit(evs, Dumper=yaml.Dumper), Loader=yaml.Loader) if isinstance(e, E.ScalarEvent))
        except Exception:
            n = 0
        if n == 1:
            fix.append(name)
    try:
        evs = wrap(E.DocumentStartEvent(tags={'!!': 't:s:'}), E.ScalarEvent(None, 'tag:yaml.org,2002:s', (False, False), 'a'))
        if [e.tag for e in yaml.parse(yaml.emit(evs, Dumper=yaml.Dumper), Loader=yaml.Loader)
                if isinstance(e, E.ScalarEvent)] == ['tag:yaml.org,2002:s']:
            fix.append('D11e')
    except Exception:
        pass
    return fix


# ------------------------------------------------------------------ part A: replay of MC_Scalars states
def emit_parse_cached(yaml, evs, D, L, opts, cache):
    """ep.emit_parse with the parse half looked up by (parser, text): the requests of one state mostly produce the same few
    texts, and parsing is a function of the text"""
    res = {'outcome': 'ok', 'text': None, 'eout': [], 'err': ''}
    try:
        res['text'] = yaml.emit(evs, Dumper=getattr(yaml, D), **opts)
    except yaml.emitter.EmitterError as e:
        res['outcome'], res['err'] = 'EmitterError', str(e)[:200]
        return res
    except Exception as e:
        res['outcome'], res['err'] = 'exception', '%s: %s' % (type(e).__name__, str(e)[:200])
        return res
    key = (L, res['text'])
    if key not in cache:
        p = {'outcome': 'ok', 'eout': [], 'err': ''}
        try:
            back = list(yaml.parse(res['text'], Loader=getattr(yaml, L)))
            p['eout'] = [ep.project(e) for e in back]
            p['styles'] = [ep.STYLE_NAME.get(e.style, '?') for e in back if type(e).__name__ == 'ScalarEvent']
        except Exception as e:
            p['outcome'], p['err'] = 'ParseError', '%s: %s' % (type(e).__name__, str(e)[:200])
        cache[key] = p
    res.update(cache[key])
    return res


def scal_work(states, extra):
    yaml = use_repo()
    rnd = random.Random(extra['seed'])
    out = {'n': 0, 'pairs': 0, 'traces': [], 'meta': [], 'same': 0, 'drift': [], 'ndrift': 0, 'lbad': {}, 'styles': {},
           'folds': 0, 'samples': [], 'cxs': set(), 'syms': set()}
    for st in states:
        out['n'] += 1
        text, cx, res = st['text'], st['cx'], st['res']
        out['syms'].update(text)
        cache = {}
        if not isinstance(res, dict):
            res = {}
        opts = ep.ctx_opts(cx)
        prefix = ep.ctx_prefix(cx)
        out['cxs'].add((cx['flow'], cx['sk'], cx['root'], cx['ws0'], cx['c0'], cx['indent']))
        for sname, r in res.items():
            out['styles'][sname] = out['styles'].get(sname, 0) + 1
            lb = ep.LB[cx['lb']]
            if lb in ep.text_of(r['out'])[1:-1]:
                out['folds'] += 1
            for d in r['diag'][1] if isinstance(r['diag'], tuple) else []:
                out['lbad'][d] = out['lbad'].get(d, 0) + 1
            variants = [ep.text_of(text)]
            alt = concretise(text, rnd)
            if alt != variants[0]:
                variants.append(alt)
            # every (style request, implicit[0]) the model maps to this style; the witness first
            reqs = [(r['req'], r['impl'])] + sorted((q, i) for q, i in setlist(r.get('reqs')) if (q, i) != (r['req'], r['impl']))
            for (vi, value), (qi, (req, impl)) in ((a, b) for a in enumerate(variants) for b in enumerate(reqs)):
                for em, D, pa, L in PAIRS:
                    if vi and (em, pa) not in (('python', 'python'), ('libyaml', 'libyaml'))[:extra['altpairs']]:
                        continue
                    if not vi and extra['altpairs'] == 1 and (em, pa) == ('libyaml', 'python'):
                        continue
                    if qi and (vi or (em, pa) not in (('python', 'python'), ('libyaml', 'libyaml'))):
                        continue
                    evs, idx = ep.ctx_events(yaml, cx, value, req, impl)
                    o = emit_parse_cached(yaml, evs, D, L, opts, cache)
                    ein = [ep.project(e) for e in evs]
                    out['pairs'] += 1
                    same = o['outcome'] == 'ok' and identical(ein, o['eout'])
                    if same:
                        out['same'] += 1
                    if not same or rnd.random() < extra['sample']:
                        out['traces'].append({'wf': 1, 'outcome': o['outcome'], 'ein': ein, 'eout': o['eout']})
                        sty = o.get('styles', [])
                        out['meta'].append({'emitter': em, 'parser': pa, 'ctx': cx['kind'], 'value': value, 'opts': opts,
                                            'req': req, 'impl0': impl, 'text': o['text'], 'err': o['err'],
                                            'style': sty[idx] if idx < len(sty) else '-', 'model_style': sname,
                                            'model_diag': sorted(r['diag'][1]) if isinstance(r['diag'], tuple) else []})
                    # L comparison (drift only): the Python emitter, canonical representative
                    if em == 'python' and pa == 'python' and vi == 0:
                        sty = o.get('styles', [])
                        lok = r['ok']
                        real_ok = same
                        exp = prefix + ep.text_of(r['out'])
                        if o['text'] is None or not o['text'].startswith(exp) or (idx < len(sty) and sty[idx] != sname) \
                                or lok != real_ok:
                            out['ndrift'] += 1
                            if len(out['drift']) < 3:
                                out['drift'].append({'value': value, 'ctx': cx, 'style': sname, 'req': [req, impl], 'model_text': exp,
                                                     'real_text': o['text'], 'model_ok': lok, 'real_same': real_ok})
            if len(out['samples']) < 1 and len(text) >= 2:
                out['samples'].append({'value': ep.text_of(text), 'ctx': cx['kind'], 'style': sname, 'text': exp})
    return out


def scalar_jobs(tier, fix):
    names = [n for n in STIERS[tier] if not os.environ.get('C05_DEV') or n in os.environ['C05_DEV'].split(',')]
    return [('scal_' + name, dict(module='MC_Scalars', cfg='MC_Scalars.cfg', dump=True, tag='C05_scal_' + name, timeout=3000,
                                  coverage=False, constants={k: tla(x) for k, x in dict(SCONF[name], Fix=fix).items()}))
            for name in names]


def run_scalars(v, tier, results, acc, pending):
    for key, r in results.items():
        if not key.startswith('scal_'):
            continue
        name = key[5:]
        if r.violated:
            print(r.out[-3000:])
            raise SystemExit('machinery failure: Scalars.tla violates %s in configuration %s (an undiagnosed L => H failure: '
                             'the model is wrong or there is a new defect class to model)' % (r.violated, name))
        tlc.require_ok(r, 'MC_Scalars/' + name)
        acc['states'] += r.distinct
        acc['trans'] += r.generated
        outs = mbt.pmap(scal_work, r.dump, {'seed': SEED * 7919 + len(name), 'sample': 0.005 if tier == 'quick' else 0.002,
                                            'altpairs': 1 if tier == 'quick' else 2})
        os.remove(r.dump)
        if sum(o['n'] for o in outs) != r.distinct:
            raise SystemExit('machinery failure: replayed %d states, TLC found %d' % (sum(o['n'] for o in outs), r.distinct))
        acc['pairs'] += sum(o['pairs'] for o in outs)
        acc['same'] += sum(o['same'] for o in outs)
        acc['folds'] += sum(o['folds'] for o in outs)
        syms = set().union(*[o['syms'] for o in outs])
        if SCONF[name]['IndMax'] and syms != set(SCONF[name]['Alpha']) | set(INDICATORS):
            raise SystemExit('machinery failure: the alphabet TLC enumerated in %s (Alpha + Scalars!Indicators) is %s, the harness '
                             'copy of the indicator set is %s' % (name, sorted(syms), INDICATORS))
        acc['symbols'] = max(acc.get('symbols', 0), len(syms))
        for o in outs:
            acc.setdefault('scal_cxs', set()).update(o['cxs'])
            acc['samples'] += o['samples'][:1]
            for k, n in o['styles'].items():
                acc['styles'][k] = acc['styles'].get(k, 0) + n
            for k, n in o['lbad'].items():
                acc['lbad'][k] = acc['lbad'].get(k, 0) + n
        nd = sum(o['ndrift'] for o in outs)
        if nd:
            ex = [d for o in outs for d in o['drift']][:2]
            v.note('spec-drift C05/scalars/%s: %d cases where the Python emitter differs from Scalars.tla (text, style or '
                   'round-trip prediction), e.g. %s' % (name, nd, json.dumps(ex)[:900]))
        for o in outs:
            for m, t in zip(o['meta'], o['traces']):
                pending.append((dict(m, part='scalars', config=name), t))
        _t('replay scalars/' + name)


# ------------------------------------------------------------------ part B: Emitter.tla
EBASE = dict(Fix=[], Variant='"python"', Mode='"grammar"', MaxEvents=7, MaxDocs=1, CollsAt='"any"', Canons=[False], Bests=[2], Widths=[80],
             Unis=[False], LBs=['n'], Vs=['word', 'empty'], Ss=['none'], SAs=[''], STs=[''], SIs=['tf'], CAs=[''], CTs=[''],
             CIs=[True], FSs=[False, True], AAs=['a1'], DXs=[False], DVs=[''], DTs=[''], EXs=[False])
ECONF = {
    'struct': dict(EBASE, MaxEvents=9, Vs=['word', 'empty', 'multiline']),
    'deep':   dict(EBASE, MaxEvents=10, Vs=['word'], AAs=[], FSs=[False]),
    'attrs':  dict(EBASE, MaxEvents=6, Vs=['word', 'empty', 'lead'], SAs=['', 'a1', 'bad'], FSs=[False],
                   STs=['', '!', 'local', 'core', 'uri', 'hdl', 'hu', 'empty'], SIs=['tf', 'ft', 'ff', 'tt'], CTs=['', 'local'],
                   CIs=[True, False], DTs=['', 'h1', 'hu'], DVs=['', '1.1']),
    'opts':   dict(EBASE, MaxEvents=7, Vs=['word', 'long', 'nonascii'], Ss=['none', 'double'], Canons=[True, False],
                   Widths=[5, 80], Bests=[2, 4], Unis=[True, False], LBs=['n', 'rn'], CAs=['', 'a1']),
    'any':    dict(EBASE, Mode='"any"', MaxEvents=5, MaxDocs=5, SIs=['tf', 'ff'], AAs=['a1', ''], DVs=['', '2.0'], FSs=[False],
                   DTs=['', 'badh']),
    # collections as mapping keys (`? ` complex keys, written indentless after `? &a` / `? !t`), with anchors, tags, empty items
    'keys':    dict(EBASE, MaxEvents=10, CollsAt='"key"', AAs=[], FSs=[False], CAs=['', 'a1']),
    # scalars that are or begin with a document marker word, or have one at a fold point; as keys, values, items, roots
    'marks':   dict(EBASE, MaxEvents=8, Vs=['word', 'docsep', 'dashkey', 'dotkey', 'dotsfold', 'dashfold'], Widths=[5, 80], AAs=[]),
    # documents that differ in their %TAG tables (new handle, `!!` / `!` redefined) followed by documents without directives
    'tagdocs': dict(EBASE, MaxEvents=8, MaxDocs=2, FSs=[], AAs=[], Vs=['word'], STs=['', 'hdl', 'local', 'core', 'st', 'bt'],
                    SIs=['tf', 'ff'], DTs=['', 'h1', 'hs', 'hb']),
    # empty and one-item collections as mapping keys: tag x implicit flag, followed by explicitly tagged nodes (serializer-shaped events)
    'keytags': dict(EBASE, MaxEvents=9, CollsAt='"key"', AAs=[], Vs=['word'], STs=['', 'core'], SIs=['tf', 'ff'], CTs=['', 'local'],
                    CIs=[True, False]),
    # thorough
    'struct+': dict(EBASE, MaxEvents=10, Vs=['word', 'empty', 'multiline'], MaxDocs=2),
    'styles+': dict(EBASE, MaxEvents=8, Vs=['word', 'empty', 'words', 'multiline', 'lead', 'trail', 'ind', 'nonascii', 'nl', 'nlnl',
                                            'docsep'], Ss=['none', 'single', 'double', 'literal', 'folded'], FSs=[False, True]),
    'attrs+':  dict(EBASE, MaxEvents=7, Vs=['word', 'empty', 'lead'], SAs=['', 'a1', 'bad', 'empty'], FSs=[False, True],
                    STs=['', '!', 'local', 'core', 'uri', 'hdl', 'hu', 'empty'], SIs=['tf', 'ft', 'ff', 'tt'], CTs=['', 'local', 'empty'],
                    CAs=['', 'a2'], CIs=[True, False], DTs=['', 'h1', 'hu']),
    'dirs+':   dict(EBASE, MaxEvents=6, Vs=['word', 'empty'], STs=['', 'hdl', 'hu'], SIs=['tf', 'ff'], DXs=[False, True],
                    DTs=['', 'h1', 'hu', 'badh', 'nop'], DVs=['', '1.1', '1.2', '2.0'], EXs=[False, True]),
    'opts+':   dict(EBASE, MaxEvents=8, Vs=['word', 'long', 'nonascii', 'multiline'], Ss=['none', 'double'],
                    Canons=[True, False], Widths=[5, 80], Bests=[2, 4], Unis=[True, False], LBs=['n', 'rn'], CAs=['', 'a1']),
    'folds+':  dict(EBASE, MaxEvents=7, Vs=['long', 'multiline'], Ss=['none', 'folded', 'literal'], Widths=[5], LBs=['n', 'r', 'rn'],
                    FSs=[False]),
    'keys+':   dict(EBASE, MaxEvents=11, CollsAt='"key"', AAs=[], FSs=[False, True], CAs=['', 'a1'], CTs=['', 'local']),
    'keytags+': dict(EBASE, MaxEvents=9, CollsAt='"key"', AAs=[], Vs=['word', 'empty'], STs=['', 'core', 'local'], SIs=['tf', 'ff'],
                     CTs=['', 'local', 'core'], CIs=[True, False], FSs=[False, True]),
    'any+':    dict(EBASE, Mode='"any"', MaxEvents=6, MaxDocs=6, SIs=['tf', 'ff'], AAs=['a1', ''], DVs=['', '2.0'],
                    DTs=['', 'badh'], FSs=[False]),
}
ETIERS = {'quick': ['struct', 'deep', 'attrs', 'opts', 'any', 'tagdocs', 'keys', 'keytags', 'marks'], 'thorough': ['struct+', 'deep', 'styles+', 'attrs+', 'dirs+', 'opts+', 'folds+', 'any+', 'tagdocs', 'keys+', 'keytags+', 'marks']}
KEEP = r'outcome \|-> "(done|EmitterError|Crash)"'
METHODS = {"stream_start", "nothing", "first_document_start", "document_start", "document_end", "document_root",
           "first_flow_sequence_item", "flow_sequence_item", "first_flow_mapping_key", "flow_mapping_key",
           "flow_mapping_simple_value", "flow_mapping_value", "first_block_sequence_item", "block_sequence_item",
           "first_block_mapping_key", "block_mapping_key", "block_mapping_simple_value", "block_mapping_value",
           "expect_node", "expect_alias", "expect_scalar", "expect_flow_sequence", "expect_flow_mapping",
           "expect_block_sequence", "expect_block_mapping"}


def setlist(x):
    return list(x[1]) if isinstance(x, tuple) else list(x or [])


def emit_work(states, extra):
    yaml = use_repo()
    rnd = random.Random(extra['seed'])
    out = {'pairs': 0, 'traces': [], 'meta': [], 'same': 0, 'drift': [], 'ndrift': 0, 'outcomes': {}, 'trail': set(),
           'sites': {}, 'samples': [], 'cxs': set(), 'finals': 0}
    for st in states:
        m, hist = st['m'], st['hist']
        out['trail'].update(setlist(m['trail']))
        final = m['outcome'] == 'done' and not m['events']
        if not final and m['outcome'] not in ('EmitterError', 'Crash'):
            continue
        out['finals'] += 1
        out['outcomes'][m['outcome']] = out['outcomes'].get(m['outcome'], 0) + 1
        diag = sorted(setlist(m['diag']))
        for d in diag:
            out['sites'][d] = out['sites'].get(d, 0) + 1
        for it in m['items']:
            if it['t'] == 'scalar':
                c = it['cx']
                out['cxs'].add((c['style'], c['flow'], c['sk'], c['root'], c['ws0'], c['c0'], c['indent']))
        wf = int(ep.attr_ok(hist))
        opts = ep.model_opts(m['opt'])
        for vi in (0, 1):
            if vi and (not final or rnd.random() > extra['alt']):
                continue
            r_ = None if vi == 0 else rnd
            evs = [ep.model_event(yaml, e, r_) for e in hist]
            if vi:      # one document must use one representative per anchor / tag-handle class: rebuild consistently
                state = rnd.getstate()
                evs = []
                for e in hist:
                    rnd.setstate(state)
                    evs.append(ep.model_event(yaml, e, rnd))
            ein = [ep.project(e) for e in evs]
            for em, D, pa, L in PAIRS:
                if vi and (em, pa) not in (('python', 'python'), ('libyaml', 'libyaml')):
                    continue
                if not final and pa != em:
                    continue
                o = ep.emit_parse(yaml, evs, getattr(yaml, D), getattr(yaml, L), opts, parse=bool(wf))
                out['pairs'] += 1
                same = wf and o['outcome'] == 'ok' and identical(ein, o['eout'])
                if same:
                    out['same'] += 1
                if em == 'libyaml' and o['outcome'] == 'exception' and o['err'].startswith('TypeError: anchor must be a string'):
                    continue            # AliasEvent(anchor=None): an ill-typed argument for the C binding (assumption)
                if not same or rnd.random() < extra['sample']:
                    out['traces'].append({'wf': wf, 'outcome': o['outcome'], 'ein': ein, 'eout': o['eout']})
                    site = (diag or ['unexplained']) if em == 'python' else \
                        (['empty-document-not-forced-explicit'] if m['lysite'] or diag == ['empty-document-not-forced-explicit'] else ['unexplained'])
                    out['meta'].append({'emitter': em, 'parser': pa, 'opts': opts, 'text': o['text'], 'err': o['err'],
                                        'events': [ep.ev_repr(e) for e in evs], 'site': '+'.join(site),
                                        'styles': o.get('styles', [])})
                if em == 'python' and pa == 'python' and vi == 0:       # L comparison: drift only
                    exp = {'done': 'ok', 'EmitterError': 'EmitterError', 'Crash': 'exception'}[m['outcome']]
                    why = None
                    if final:
                        pred = st['pred']
                        if o['outcome'] in ('EmitterError', 'exception'):
                            why = 'model accepts, real %s %s' % (o['outcome'], o['err'])
                        elif o['text'] != ep.text_of(m['w']['out']):
                            why = 'text: model %r real %r' % (ep.text_of(m['w']['out']), o['text'])
                        elif wf and (o['outcome'] == 'ok') != bool(pred['ok']):
                            why = 'reader model %s (%s), real parse %s %s' % (pred['ok'], pred['why'], o['outcome'], o['err'])
                        elif wf and o['outcome'] == 'ok':
                            pe = [(e['k'], list(e['a']), list(e['v']), e['p']) for e in pred['evs']]
                            re_ = [(e['k'], e.get('a', []), e.get('v', []), e.get('p', 0)) for e in o['eout']]
                            if pe != re_:
                                why = 'events: reader model %s real %s' % (pe, re_)
                    elif o['outcome'] != exp:
                        why = 'outcome: model %s (%s), real %s %s' % (m['outcome'], m['why'], o['outcome'], o['err'])
                    if why:
                        out['ndrift'] += 1
                        if len(out['drift']) < 2:
                            out['drift'].append({'events': [ep.ev_repr(e) for e in evs], 'opts': opts, 'why': why[:500]})
        if len(out['samples']) < 1 and final and len(hist) >= 6:
            out['samples'].append({'events': [e['k'] for e in hist], 'text': ep.text_of(m['w']['out'])})
    return out


def emitter_jobs(tier, fix):
    names = [n for n in ETIERS[tier] if not os.environ.get('C05_DEV') or n in os.environ['C05_DEV'].split(',')]
    return [('emit_' + name, dict(module='MC_Emitter', cfg='MC_Emitter.cfg', dump=True, tag='C05_emit_' + name, timeout=3000,
                                  coverage=False, constants={k: (x if isinstance(x, str) else tla(x))
                                                             for k, x in dict(ECONF[name], Fix=fix).items()}))
            for name in names]


def run_emitter(v, tier, results, acc, pending):
    trail = set()
    for key, r in results.items():
        if not key.startswith('emit_'):
            continue
        name = key[5:]
        if r.violated:
            print(r.out[-3000:])
            raise SystemExit('machinery failure: Emitter.tla violates %s in configuration %s (undiagnosed L => H failure)'
                             % (r.violated, name))
        tlc.require_ok(r, 'MC_Emitter/' + name)
        acc['states'] += r.distinct
        acc['trans'] += r.generated
        n, outs, names = ep.pmap_raw(emit_work, r.dump, {'seed': SEED * 104729 + len(name), 'sample': 0.01, 'alt': 0.5}, KEEP)
        os.remove(r.dump)
        if n != r.distinct:
            raise SystemExit('machinery failure: dump has %d states, TLC found %d' % (n, r.distinct))
        acc['pairs'] += sum(o['pairs'] for o in outs)
        acc['same'] += sum(o['same'] for o in outs)
        acc['streams'] += sum(o['finals'] for o in outs)
        cxs = set()
        trail |= names
        for o in outs:
            cxs |= o['cxs']
            acc.setdefault('emit_cxs', set()).update(c[1:] for c in o['cxs'])
            acc['samples'] += o['samples'][:1]
            for k, c in o['outcomes'].items():
                acc['outcomes'][k] = acc['outcomes'].get(k, 0) + c
            for k, c in o['sites'].items():
                acc['lbad'][k] = acc['lbad'].get(k, 0) + c
        acc['emitter_scalar_contexts'] = acc.get('emitter_scalar_contexts', 0) + len(cxs)
        nd = sum(o['ndrift'] for o in outs)
        if nd:
            ex = [d for o in outs for d in o['drift']][:2]
            v.note('spec-drift C05/emitter/%s: %d streams where the Python emitter/parser differ from Emitter.tla/EmitRead.tla, '
                   'e.g. %s' % (name, nd, json.dumps(ex)[:1200]))
        for o in outs:
            for m, t in zip(o['meta'], o['traces']):
                pending.append((dict(m, part='emitter', config=name), t))
        _t('replay emitter/' + name)
    missing = METHODS - trail
    if missing and not os.environ.get('C05_DEV') and any(k.startswith('emit_') for k in results):
        raise SystemExit('machinery failure: emitter methods never executed in the model: %s' % sorted(missing))
    acc['methods_fired'] = len(trail & METHODS)


# ------------------------------------------------------------------ part C: the repository's data files re-emitted
OPT_PRODUCT = [dict(canonical=c, indent=i, width=w, allow_unicode=u, line_break=l)
               for c in (False, True) for i in (2, 4, 9) for w in (5, 20, 80) for u in (False, True) for l in ('\n', '\r\n', '\r')]
REPERTOIRE = [97, 97, 97, 98, 32, 32, 32, 10, 10] + FULL
WORDS = ['...', '---', '... ', '--- ', ' ...', ' ---']        # document markers as words


def corpus_files():
    fs = sorted(glob.glob(os.path.join(REPO, 'tests/legacy_tests/data/*.data')) +
                glob.glob(os.path.join(REPO, 'tests/legacy_tests/data/*.canonical')))
    return [f for f in fs if os.path.getsize(f) < 20000]


def corpus_work(args):
    files, nopts, seed, sample, nrand = args
    yaml = use_repo()
    E = yaml.events
    out = {'pairs': 0, 'traces': [], 'meta': [], 'same': 0, 'files': 0, 'streams': 0}
    for f in files:
        rnd = random.Random('%d/%s' % (seed, os.path.basename(f)))
        try:
            events = list(yaml.parse(open(f, 'rb').read(), Loader=yaml.Loader))
        except Exception:
            continue
        if any(0xD800 <= ord(c) <= 0xDFFF for e in events for c in (getattr(e, 'value', None) or '')):
            continue            # lone surrogates are outside the domain (Unicode scalar values)
        out['files'] += 1
        variants = [('as-is', events)]
        for j in range(nrand):      # same structure, scalar texts from the seeded generator over the full repertoire
            evs = []
            for e in events:
                if isinstance(e, E.ScalarEvent):
                    val = ''.join(rnd.choice(WORDS) if rnd.random() < 0.08 else concretise([rnd.choice(REPERTOIRE)], rnd)
                                  for _ in range(rnd.randrange(0, 14)))
                    e = E.ScalarEvent(e.anchor, e.tag, e.implicit, val, style=rnd.choice([None, None, "'", '"', '|', '>']))
                evs.append(e)
            variants.append(('random-scalars-%d' % j, evs))
        for vname, evs in variants:
            ein = [ep.project(e) for e in evs]
            for opts in rnd.sample(OPT_PRODUCT, nopts) if nopts < len(OPT_PRODUCT) else OPT_PRODUCT:
                out['streams'] += 1
                for em, D, pa, L in PAIRS:
                    o = ep.emit_parse(yaml, evs, getattr(yaml, D), getattr(yaml, L), opts)
                    out['pairs'] += 1
                    same = o['outcome'] == 'ok' and identical(ein, o['eout'])
                    if same:
                        out['same'] += 1
                    if not same or rnd.random() < sample:
                        out['traces'].append({'wf': 1, 'outcome': o['outcome'], 'ein': ein, 'eout': o['eout']})
                        out['meta'].append({'emitter': em, 'parser': pa, 'opts': opts, 'input': os.path.basename(f), 'variant': vname,
                                            'text': o['text'] if o['text'] is None or len(o['text']) < 600 else o['text'][:600] + '...',
                                            'err': o['err'], 'styles': o.get('styles', [])})
    return out


def run_corpus(v, tier, acc, pending):
    files = corpus_files()
    nopts, nrand = (3, 1) if tier == 'quick' else (len(OPT_PRODUCT), 1)
    chunks = [(files[i::48], nopts, SEED, 0.01, nrand) for i in range(48)]
    with mp.Pool(16) as pool:
        outs = pool.map(corpus_work, chunks)
    acc['pairs'] += sum(o['pairs'] for o in outs)
    acc['same'] += sum(o['same'] for o in outs)
    acc['corpus_files'] = sum(o['files'] for o in outs)
    acc['corpus_streams'] = sum(o['streams'] for o in outs)
    for o in outs:
        for m, t in zip(o['meta'], o['traces']):
            pending.append((dict(m, part='corpus'), t))
    _t('corpus')


def judge_pending(v, pending, acc):
    """one TLC run (Trace_EmitParse.tla) judges every recorded observation; identical observations are judged once"""
    uniq, index = {}, []
    for m, t in pending:
        index.append(uniq.setdefault(json.dumps(t, sort_keys=True), len(uniq)))
    utraces = [json.loads(k) for k in uniq]
    uverdicts, s2 = trace.judge('Trace_EmitParse', utraces, 'C05_judge', batch=25000)
    acc['states'] += s2
    acc['judged'] += len(utraces)
    for (m, t), i in zip(pending, index):
        ok, why, at = uverdicts[i]
        if ok:
            continue
        clause, defect, kind = (why.split(':') + ['', ''])[:3]
        if defect == 'empty-root-lost':
            defect += ':' + kind
        sty = m.get('style', '-')
        if clause == 'value' and 'styles' in m:
            nsc = sum(1 for e in t['eout'][:at] if e['k'] == 'Scalar')
            sty = m['styles'][nsc - 1] if 0 < nsc <= len(m['styles']) else '-'
        key = {'emitter': m['emitter'], 'parser': m['parser'], 'clause': clause, 'defect': defect or clause, 'style': sty,
               'part': m['part']}
        if 'site' in m:
            key.update(site=m['site'], wellformed=bool(t['wf']))
        if 'input' in m:
            key['input'] = m['input']
        det = dict(m, outcome=t['outcome'], at_event=at)
        if 0 < at <= len(t['ein']):
            det['event_in'] = t['ein'][at - 1]
            det['event_out'] = t['eout'][at - 1] if at <= len(t['eout']) else None
        v.violation(key, det)
    _t('judge')


def main(tier, replay=None):
    v = Verdict('C05', tier)
    yaml = use_repo()
    fix = calibrate(yaml)
    _t('start')
    acc = {'states': 0, 'trans': 0, 'pairs': 0, 'judged': 0, 'same': 0, 'folds': 0, 'samples': [], 'styles': {}, 'lbad': {},
           'streams': 0, 'outcomes': {}}
    parts = os.environ.get('C05_PARTS', 'ABC')
    jobs = (scalar_jobs(tier, fix) if 'A' in parts else []) + (emitter_jobs(tier, fix) if 'B' in parts else [])
    # heaviest first; the searches are small, JVM start dominates: run them side by side
    results = ep.run_tlc_many(jobs, parallel=5 if tier == 'quick' else 3, workers=4 if tier == 'quick' else 5)
    _t('tlc x%d' % len(jobs))
    pending = []
    run_scalars(v, tier, results, acc, pending)
    run_emitter(v, tier, results, acc, pending)
    if 'C' in parts:
        run_corpus(v, tier, acc, pending)
    judge_pending(v, pending, acc)
    v.cov = {'states': acc['states'], 'transitions': acc['trans'], 'traces_validated_against_impl': acc['pairs'],
             'pairs_judged_by_tlc': acc['judged'], 'pairs_identical_on_all_compared_fields': acc['same'],
             'scalar_styles_replayed': acc['styles'], 'model_diagnosed_defect_sites': acc['lbad'],
             'event_streams_replayed': acc['streams'], 'model_outcomes': acc['outcomes'],
             'scalar_alphabet_symbols': acc.get('symbols'), 'emitter_methods_fired': acc.get('methods_fired'), 'emitter_scalar_contexts': acc.get('emitter_scalar_contexts'),
             'emitter_scalar_contexts_also_in_scalars_family': len(acc.get('emit_cxs', set()) & acc.get('scal_cxs', set())),
             'emitter_scalar_contexts_distinct': len(acc.get('emit_cxs', set())),
             'corpus_files': acc.get('corpus_files'), 'corpus_streams_re_emitted': acc.get('corpus_streams'),
             'model_outputs_with_a_fold_or_break': acc['folds'], 'L_variant_repairs_detected_in_tree': fix,
             'exhaustive': True, 'samples': acc['samples'][:6],
             'distinct_nontrivial': acc['folds'] + acc['streams'],
             'rule': 'non-trivial = scalar round trips whose written form contains a fold or line break, plus complete event '
                     'streams replayed; every state of MC_Scalars / every terminal state of MC_Emitter is replayed through '
                     'both emitters and both parsers; all non-identical pairs and a seeded sample of identical ones are judged '
                     'by TLC (Trace_EmitParse.tla)',
             'configs': {'scalars': {n: SCONF[n] for n in STIERS[tier]}, 'emitter': {n: ECONF[n] for n in ETIERS[tier]}}}
    v.assumptions = ['scalar texts are sequences of Unicode scalar values (no lone surrogates)',
                     'AliasEvent(anchor=None) with the libyaml emitter is an ill-typed argument (TypeError of the binding), not '
                     'an ill-formed stream',
                     'well-formed = event grammar + attribute rules (valid anchor names, non-empty tags, a tag or an implicit '
                     'flag, version 1.x, well-formed %TAG handles)',
                     'character classes are represented by several seeded representatives; results are per class']
    return v.finish()
