"""C05 - emitting then parsing returns the same events; ill-formed streams are rejected only with EmitterError.

A  spec/Scalars.tla + MC_Scalars.tla (L, character level: analyze_scalar, choose_scalar_style, the five writers, the scalar
   scanners) checked by TLC against H (value read back = value written) for every text up to the bound in every context;
   every state is replayed through the real emitters and parsers (spec -> code), the real (events_in, events_out) pairs are
   judged by TLC (Trace_EmitParse.tla / H_EventEq.tla); L's exact text and style are compared as drift only.
B  spec/Emitter.tla (L, event level) ... see part B below.
C  code -> spec: the events of the repository's data files re-emitted under the option product, judged the same way.
"""
import glob, json, os, random, re
import multiprocessing as mp
from .. import tlc, mbt, trace
from ..common import Verdict, use_repo, REPO, SEED
from ..drivers import emitparse as ep

FULL = [97, 32, 10, 133, 8232, 13, 9, 45, 63, 58, 44, 91, 35, 38, 33, 124, 39, 34, 37, 46, 92, 233, 160, 65279, 7, 127,
        128512, 65534]
ALLK = ['root0', 'root3', 'item', 'mval', 'bkey', 'ckey', 'fitem', 'fnext', 'fkey', 'fval']
SBASE = dict(Fix=[], Alpha=[97, 32, 10], MaxLen=6, Kinds=['item'], Bests=[2], Widths=[5], Depths=[1], Unis=[False],
             LBs=['n'], Reqs=['none', 'single', 'double', 'literal', 'folded'])
SCONF = {
    'wsl':  dict(SBASE, Kinds=['item', 'root0', 'mval', 'bkey', 'ckey', 'fitem', 'fkey'], Depths=[1, 3]),
    'full': dict(SBASE, Alpha=FULL, MaxLen=2, Kinds=ALLK, Widths=[80], Unis=[True, False]),
    'esc':  dict(SBASE, Alpha=[97, 32, 10, 233, 7], MaxLen=5, Depths=[1, 3]),
    'b4':   dict(SBASE, Bests=[4, 9], Widths=[9, 19], Depths=[1, 3]),
    'lb':   dict(SBASE, MaxLen=5, Kinds=['item', 'root0', 'fitem'], LBs=['r', 'rn']),
    # thorough
    'wsl+':  dict(SBASE, MaxLen=8, Kinds=['item', 'root0', 'root3', 'mval', 'bkey', 'ckey', 'fitem', 'fnext', 'fkey', 'fval'],
                  Depths=[1, 2, 3], Widths=[5, 8]),
    'full+': dict(SBASE, Alpha=FULL, MaxLen=3, Kinds=ALLK, Widths=[80, 5], Unis=[True, False]),
    'esc+':  dict(SBASE, Alpha=[97, 32, 10, 233, 7, 34, 133], MaxLen=6, Depths=[1, 3], Unis=[True, False], Kinds=['item', 'fitem']),
    'brk+':  dict(SBASE, Alpha=[97, 32, 10, 133, 8232], MaxLen=6, Kinds=['item', 'root0', 'mval', 'fitem'], Unis=[True]),
    'b4+':   dict(SBASE, MaxLen=7, Bests=[4, 9], Widths=[9, 19, 80], Depths=[1, 2, 3], Kinds=['item', 'mval', 'fitem']),
    'lb+':   dict(SBASE, MaxLen=6, Kinds=['item', 'root0', 'mval', 'fitem', 'bkey'], LBs=['r', 'rn'], Depths=[1, 3]),
}
STIERS = {'quick': ['wsl', 'full', 'esc', 'b4', 'lb'], 'thorough': ['wsl+', 'full+', 'esc+', 'brk+', 'b4+', 'lb+']}
PAIRS = [('python', 'Dumper', 'python', 'Loader'), ('python', 'Dumper', 'libyaml', 'CLoader'),
         ('libyaml', 'CDumper', 'libyaml', 'CLoader'), ('libyaml', 'CDumper', 'python', 'Loader')]
CMP = ('k', 'a', 't', 'v', 'ver', 'tags')


def tla(v):
    if isinstance(v, bool):
        return 'TRUE' if v else 'FALSE'
    if isinstance(v, list):
        return '{' + ', '.join(tla(x) if isinstance(x, bool) else ('"%s"' % x if isinstance(x, str) else str(x)) for x in v) + '}'
    return str(v)


def identical(ein, eout):
    return len(ein) == len(eout) and all(a.get(k) == b.get(k) for a, b in zip(ein, eout) for k in CMP)


def calibrate(yaml):
    """Which repairs does the tree under test already contain?  Three witnesses (TLC counterexamples of Scalars.tla with
    Fix = {}) are run through the real Python emitter; the answer only selects the L variant that is model-checked and
    compared for drift - verdicts never depend on it."""
    E = yaml.events
    fix = []
    for name, value, style, depth, opts in (('D3', '\n a a a', '>', 0, dict(width=5)),
                                           ('D4', 'a\x85b', "'", 0, dict(allow_unicode=True)),
                                           ('D9', 'a\n a', '"', 3, dict(width=5))):
        evs = [E.StreamStartEvent(), E.DocumentStartEvent()] + [E.SequenceStartEvent(None, None, True)] * depth + \
              [E.ScalarEvent(None, None, (True, True), value, style=style)] + [E.SequenceEndEvent()] * depth + \
              [E.DocumentEndEvent(), E.StreamEndEvent()]
        try:
            back = [e.value for e in yaml.parse(yaml.emit(evs, Dumper=yaml.Dumper, **opts), Loader=yaml.Loader)
                    if isinstance(e, E.ScalarEvent)]
        except Exception:
            back = None
        if back == [value]:
            fix.append(name)
    return fix


# ------------------------------------------------------------------ part A: replay of MC_Scalars states
def scal_work(states, extra):
    yaml = use_repo()
    rnd = random.Random(extra['seed'])
    out = {'n': 0, 'pairs': 0, 'traces': [], 'meta': [], 'same': 0, 'drift': [], 'ndrift': 0, 'lbad': {}, 'styles': {},
           'folds': 0, 'samples': []}
    for st in states:
        out['n'] += 1
        text, cx, res = st['text'], st['cx'], st['res']
        if not isinstance(res, dict):
            res = {}
        opts = ep.ctx_opts(cx)
        prefix = ep.ctx_prefix(cx)
        for sname, r in res.items():
            out['styles'][sname] = out['styles'].get(sname, 0) + 1
            lb = ep.LB[cx['lb']]
            if lb in ep.text_of(r['out'])[1:-1]:
                out['folds'] += 1
            for d in r['diag'][1] if isinstance(r['diag'], tuple) else []:
                out['lbad'][d] = out['lbad'].get(d, 0) + 1
            variants = [ep.text_of(text)]
            alt = ep.concretise(text, rnd)
            if alt != variants[0]:
                variants.append(alt)
            for vi, value in enumerate(variants):
                for em, D, pa, L in PAIRS:
                    if vi and (em, pa) not in (('python', 'python'), ('libyaml', 'libyaml')):
                        continue
                    evs, idx = ep.ctx_events(yaml, cx, value, r['req'], r['impl'])
                    o = ep.emit_parse(yaml, evs, getattr(yaml, D), getattr(yaml, L), opts)
                    ein = [ep.project(e) for e in evs]
                    out['pairs'] += 1
                    same = o['outcome'] == 'ok' and identical(ein, o['eout'])
                    if same:
                        out['same'] += 1
                    if not same or rnd.random() < extra['sample']:
                        out['traces'].append({'wf': 1, 'outcome': o['outcome'], 'ein': ein, 'eout': o['eout']})
                        sty = o.get('styles', [])
                        out['meta'].append({'emitter': em, 'parser': pa, 'ctx': cx['kind'], 'value': value, 'opts': opts,
                                            'req': r['req'], 'text': o['text'], 'err': o['err'],
                                            'style': sty[idx] if idx < len(sty) else '-', 'model_style': sname,
                                            'model_diag': sorted(r['diag'][1]) if isinstance(r['diag'], tuple) else []})
                    # L comparison (drift only): the Python emitter, canonical representative
                    if em == 'python' and pa == 'python' and vi == 0:
                        sty = o.get('styles', [])
                        lok = r['ok']
                        real_ok = same
                        exp = prefix + ep.text_of(r['out'])
                        if o['text'] is None or not o['text'].startswith(exp) or (idx < len(sty) and sty[idx] != sname) \
                                or lok != real_ok:
                            out['ndrift'] += 1
                            if len(out['drift']) < 3:
                                out['drift'].append({'value': value, 'ctx': cx, 'style': sname, 'model_text': exp,
                                                     'real_text': o['text'], 'model_ok': lok, 'real_same': real_ok})
            if len(out['samples']) < 1 and len(text) >= 2:
                out['samples'].append({'value': ep.text_of(text), 'ctx': cx['kind'], 'style': sname, 'text': exp})
    return out


def run_scalars(v, tier, fix, acc):
    for name in STIERS[tier]:
        if os.environ.get('C05_DEV') and name not in os.environ['C05_DEV'].split(','):
            continue
        conf = dict(SCONF[name], Fix=fix)
        r = tlc.run('MC_Scalars', cfg='MC_Scalars.cfg', dump=True, tag='C05_scal_' + name, timeout=3000, coverage=False,
                    constants={k: tla(x) for k, x in conf.items()})
        if r.violated:
            print(r.out[-3000:])
            raise SystemExit('machinery failure: Scalars.tla violates %s in configuration %s (an undiagnosed L => H failure: '
                             'the model is wrong or there is a new defect class to model)' % (r.violated, name))
        tlc.require_ok(r, 'MC_Scalars/' + name)
        acc['states'] += r.distinct
        acc['trans'] += r.generated
        outs = mbt.pmap(scal_work, r.dump, {'seed': SEED * 7919 + len(name), 'sample': 0.005 if tier == 'quick' else 0.002})
        os.remove(r.dump)
        if sum(o['n'] for o in outs) != r.distinct:
            raise SystemExit('machinery failure: replayed %d states, TLC found %d' % (sum(o['n'] for o in outs), r.distinct))
        traces = [t for o in outs for t in o['traces']]
        meta = [m for o in outs for m in o['meta']]
        verdicts, s2 = trace.judge('Trace_EmitParse', traces, 'C05_scal_' + name)
        acc['states'] += s2
        acc['pairs'] += sum(o['pairs'] for o in outs)
        acc['judged'] += len(traces)
        acc['same'] += sum(o['same'] for o in outs)
        acc['folds'] += sum(o['folds'] for o in outs)
        for o in outs:
            acc['samples'] += o['samples'][:1]
            for k, n in o['styles'].items():
                acc['styles'][k] = acc['styles'].get(k, 0) + n
            for k, n in o['lbad'].items():
                acc['lbad'][k] = acc['lbad'].get(k, 0) + n
        nd = sum(o['ndrift'] for o in outs)
        if nd:
            ex = [d for o in outs for d in o['drift']][:2]
            v.note('spec-drift C05/scalars/%s: %d cases where the Python emitter differs from Scalars.tla (text, style or '
                   'round-trip prediction), e.g. %s' % (name, nd, json.dumps(ex)[:900]))
        for m, t, (ok, why, at) in zip(meta, traces, verdicts):
            if not ok:
                clause, _, defect = why.partition(':')
                v.violation({'emitter': m['emitter'], 'parser': m['parser'], 'clause': clause, 'defect': defect or clause,
                             'style': m['style'], 'part': 'scalars'},
                            dict(m, config=name, outcome=t['outcome'], at_event=at,
                                 value_out=ep.text_of(t['eout'][at - 1].get('v', [])) if 0 < at <= len(t['eout']) else None))


def main(tier, replay=None):
    v = Verdict('C05', tier)
    yaml = use_repo()
    fix = calibrate(yaml)
    acc = {'states': 0, 'trans': 0, 'pairs': 0, 'judged': 0, 'same': 0, 'folds': 0, 'samples': [], 'styles': {}, 'lbad': {}}
    run_scalars(v, tier, fix, acc)
    v.cov = {'states': acc['states'], 'transitions': acc['trans'], 'traces_validated_against_impl': acc['pairs'],
             'pairs_judged_by_tlc': acc['judged'], 'pairs_identical_on_all_compared_fields': acc['same'],
             'scalar_styles_replayed': acc['styles'], 'model_diagnosed_defect_sites': acc['lbad'],
             'model_outputs_with_a_fold_or_break': acc['folds'], 'L_variant_repairs_detected_in_tree': fix,
             'exhaustive': True, 'samples': acc['samples'][:6],
             'configs': {n: SCONF[n] for n in STIERS[tier]}}
    return v.finish()
