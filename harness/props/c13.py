"""C13 - aliases mean identity, anchors obey the document rules.

spec/Composer.tla builds every event stream up to a bound (anchors on scalars and collections, aliases anywhere:
backward, forward (undefined), nested, self-referential, across documents) and runs the composer model on it;
TLC checks L (anchors table) against H (definition lookup on the event list).  Every complete stream is printed,
composed and loaded for real; the identity partition of the node graph / object graph must be the one of the heap
carried by the state, and the error class the one the state predicts."""
import os
from .. import tlc, mbt
from ..common import Verdict, use_repo

CONFIGS = {
    'core7': dict(MaxEvents=7, MaxDocs=2, Anchors=['a', 'b'], MapKinds=['map'], SeqKinds=['seq'], ScalarAnchors=True),
    'set7': dict(MaxEvents=7, MaxDocs=1, Anchors=['a'], MapKinds=['map', 'set'], SeqKinds=['seq'], ScalarAnchors=True),
    'obj7': dict(MaxEvents=7, MaxDocs=1, Anchors=['a'], MapKinds=['map', 'obj'], SeqKinds=['seq'], ScalarAnchors=False),
    'core8': dict(MaxEvents=8, MaxDocs=2, Anchors=['a', 'b'], MapKinds=['map'], SeqKinds=['seq'], ScalarAnchors=True),
    'set8': dict(MaxEvents=8, MaxDocs=2, Anchors=['a'], MapKinds=['map', 'set'], SeqKinds=['seq'], ScalarAnchors=True),
    # deep construction: the arguments of a python/object/apply node are built with deep=True
    'app8': dict(MaxEvents=8, MaxDocs=1, Anchors=['a', 'b'], MapKinds=['map'], SeqKinds=['seq', 'app'], ScalarAnchors=False),
    'app9': dict(MaxEvents=9, MaxDocs=1, Anchors=['a', 'b'], MapKinds=['map', 'obj'], SeqKinds=['seq', 'app'], ScalarAnchors=False),
    # ordered maps / pairs lists: elements are single-pair mappings, the list is a two-phase object
    'pairs7': dict(MaxEvents=7, MaxDocs=1, Anchors=['a'], MapKinds=['map'], SeqKinds=['seq', 'pairs', 'omap'], ScalarAnchors=False),
    'pairs9': dict(MaxEvents=9, MaxDocs=1, Anchors=['a', 'b'], MapKinds=['map'], SeqKinds=['seq', 'pairs', 'omap'], ScalarAnchors=False),
    # objects of a class with __setstate__: the state mapping is built deep, after the instance is registered
    'sobj7': dict(MaxEvents=7, MaxDocs=1, Anchors=['a'], MapKinds=['map', 'sobj'], SeqKinds=['seq'], ScalarAnchors=False),
    'sobj8': dict(MaxEvents=8, MaxDocs=1, Anchors=['a', 'b'], MapKinds=['map', 'sobj', 'obj'], SeqKinds=['seq', 'app'], ScalarAnchors=False),
    'obj8': dict(MaxEvents=8, MaxDocs=2, Anchors=['a', 'b'], MapKinds=['map', 'obj'], SeqKinds=['seq'], ScalarAnchors=False),
}
TIERS = {'quick': ['core7', 'set7', 'obj7', 'sobj7', 'app8', 'pairs7'], 'thorough': ['core8', 'set8', 'obj8', 'sobj8', 'app9', 'pairs9']}
SAFE = ['SafeLoader', 'CSafeLoader']
FULL = ['FullLoader', 'CFullLoader']
UNSAFE = ['UnsafeLoader', 'CUnsafeLoader', 'Loader', 'CLoader']
OBJTAG = '!!python/object:harness.canary.Obj '
# concrete anchor names: every character class an anchor name may contain, several characters long
ANCHOR_NAME = {'a': 'alpha-1_A', 'b': 'b2'}
SOBJTAG = '!!python/object:harness.canary.SObj '
APPTAG = '!!python/object/apply:harness.canary.mkapp '


def tla(v):
    if isinstance(v, bool):
        return 'TRUE' if v else 'FALSE'
    if isinstance(v, list):
        return '{' + ', '.join('"%s"' % x for x in v) + '}'
    return str(v)


def print_stream(evs):
    """events -> YAML text (flow style, one '--- ' per document); open collections are closed."""
    out, pos = [], [0]

    def node(ctx_key=False):
        i = pos[0]
        e = evs[i]
        pos[0] += 1
        anc = '' if e['a'] == '-' else '&%s ' % ANCHOR_NAME[e['a']]
        if e['k'] == 'S':
            return anc + 's%d' % (i + 1)
        if e['k'] == 'A':
            return '*%s' % ANCHOR_NAME[e['a']]
        if e['k'] == 'Q':
            items = []
            while pos[0] < len(evs) and evs[pos[0]]['k'] != 'E':
                items.append(node())
            pos[0] += 1
            return anc + {'app': APPTAG, 'pairs': '!!pairs ', 'omap': '!!omap '}.get(e['t'], '') + '[' + ', '.join(items) + ']'
        if e['k'] == 'M':
            items = []
            while pos[0] < len(evs) and evs[pos[0]]['k'] != 'E':
                k = node()
                if pos[0] < len(evs) and evs[pos[0]]['k'] != 'E':
                    v = node()
                else:
                    v = 'null'
                items.append('? %s : %s' % (k, v))
            pos[0] += 1
            tag = {'map': '', 'set': '!!set ', 'obj': OBJTAG, 'sobj': SOBJTAG}[e['t']]
            return anc + tag + '{' + ', '.join(items) + '}'
        raise ValueError(e)
    while pos[0] < len(evs):
        out.append('--- ' + node() + '\n')
    return ''.join(out)


class Exp:
    """expected projections computed from the heap of the state"""

    def __init__(self, heap):
        self.h = heap

    def obj(self, r):
        ids = {}

        # key, value alternate in document order, as the real traversal does
        def go2(i):
            n = self.h[i - 1]
            k = n['kind']
            if k == 's':
                return ('s', 's%d' % i)
            if i in ids:
                return ('ref', ids[i])
            ids[i] = len(ids)
            me = ids[i]
            c = n['c']
            if k in ('seq', 'app'):
                return (k, me, [go2(x) for x in c])
            if k in ('pairs', 'omap'):       # a list of (key, value) tuples; the element mappings themselves are not built
                return ('seq', me, [('pair', go2(self.h[x - 1]['c'][0]), go2(self.h[x - 1]['c'][1])) for x in c])
            if k == 'set':
                return ('set', me, sorted({'s%d' % x for x in c[0::2]}))
            pairs = {}
            for kk, vv in zip(c[0::2], c[1::2]):
                pairs[kk] = vv
            return (k, me, [(go2(kk), go2(vv)) for kk, vv in pairs.items()])
        return go2(r)

    def node(self, r):
        ids = {}

        def go(i):
            n = self.h[i - 1]
            if i in ids:
                return ('ref', ids[i])
            ids[i] = len(ids)
            me = ids[i]
            k, c = n['kind'], n['c']
            if k == 's':
                return ('s', me, 's%d' % i)
            if k in ('seq', 'app', 'pairs', 'omap'):
                return ('seq', me, [go(x) for x in c])
            return ('map', me, [(go(a), go(b)) for a, b in zip(c[0::2], c[1::2])])
        return go(r)


def proj_obj(o, Obj, App=None, SObj=None):
    ids = {}

    def go(x):
        if isinstance(x, str):
            return ('s', x)
        if x is None:
            return ('s', None)
        if type(x) is tuple and len(x) == 2:
            return ('pair', go(x[0]), go(x[1]))
        if id(x) in ids:
            return ('ref', ids[id(x)])
        ids[id(x)] = len(ids)
        me = ids[id(x)]
        if type(x) is list:
            return ('seq', me, [go(y) for y in x])
        if type(x) is set:
            return ('set', me, sorted(x))
        if type(x) is dict:
            return ('map', me, [(go(k), go(v)) for k, v in x.items()])
        if type(x) is Obj:
            return ('obj', me, [(go(k), go(v)) for k, v in x.__dict__.items()])
        if SObj is not None and type(x) is SObj:
            return ('sobj', me, [(go(k), go(v)) for k, v in x.__dict__.items()])
        if App is not None and type(x) is App:
            return ('app', me, [go(y) for y in x.args])
        return ('?', repr(type(x)))
    return go(o)


def proj_node(n, nodes):
    ids = {}

    def go(x):
        if id(x) in ids:
            return ('ref', ids[id(x)])
        ids[id(x)] = len(ids)
        me = ids[id(x)]
        if isinstance(x, nodes.ScalarNode):
            return ('s', me, x.value)
        if isinstance(x, nodes.SequenceNode):
            return ('seq', me, [go(y) for y in x.value])
        return ('map', me, [(go(k), go(v)) for k, v in x.value])
    return go(n)


class ShortReads:
    """text stream whose read() returns 1-5 characters at a time (sizes derived from the text)"""
    def __init__(self, text):
        self.t, self.p, self.k = text, 0, len(text)

    def read(self, n=-1):
        size = 1 + (self.k * 7 + self.p) % 5
        self.k += 3
        piece = self.t[self.p:self.p + (size if n is None or n < 0 else min(size, n))]
        self.p += len(piece)
        return piece


def work(states, extra):
    yaml = use_repo()
    from yaml import nodes
    from harness.canary import Obj, App, SObj
    loaders = [getattr(yaml, n) for n in extra['loaders']]
    res = {'n': 0, 'tested': 0, 'bad': [], 'samples': [], 'nontrivial': 0, 'outcomes': {}}
    for st in states:
        res['n'] += 1
        if st['stack'] and st['outcome'] == 'run':
            continue                                    # incomplete prefix: an interior state of the model
        evs, heap, roots, outcome = st['evs'], st['heap'], st['roots'], st['outcome']
        if not evs:
            continue
        res['tested'] += 1
        res['outcomes'][outcome] = res['outcomes'].get(outcome, 0) + 1
        if any(e['k'] == 'A' for e in evs):
            res['nontrivial'] += 1
        text = print_stream(evs)
        ex = Exp(heap)
        nobj = len(roots) - 1 if outcome in ('unhashable_key', 'unconstructable') else len(roots)
        exp_objs = [ex.obj(r) for r in roots[:nobj]]
        exp_nodes = [ex.node(r) for r in roots]
        exp_err = {'run': None, 'undefined_alias': 'ComposerError', 'duplicate_anchor': 'ComposerError',
                   'unhashable_key': 'ConstructorError', 'unconstructable': 'ConstructorError', 'deep_soft': None}[outcome]
        exp_nerr = None if outcome in ('run', 'unhashable_key', 'unconstructable', 'deep_soft') else 'ComposerError'
        for L in loaders:
            # object level
            got, err = [], None
            try:
                for d in yaml.load_all(text, Loader=L):
                    got.append(proj_obj(d, Obj, App, SObj))
            except yaml.YAMLError as e:
                err = type(e).__name__
            except RecursionError:
                err = 'RecursionError'
            except Exception as e:
                err = 'exception:' + type(e).__name__
            # the same document delivered through a stream with short reads (pure-Python reader: every refill boundary falls
            # inside some lexeme - anchor and alias names included); what the document means does not depend on delivery
            if not L.__name__.startswith('C'):
                got2, err2 = [], None
                try:
                    for d in yaml.load_all(ShortReads(text), Loader=L):
                        got2.append(proj_obj(d, Obj, App, SObj))
                except yaml.YAMLError as e:
                    err2 = type(e).__name__
                except RecursionError:
                    err2 = 'RecursionError'
                except Exception as e:
                    err2 = 'exception:' + type(e).__name__
                if (got2, err2) != (got, err):
                    res['bad'].append({'doc': text, 'loader': L.__name__, 'outcome': outcome, 'delivery': 'short reads',
                                       'kinds': sorted({e['t'] for e in evs if e['k'] in 'QM'}),
                                       'why': 'load_all from a short-read stream: %r / %s, from str: %r / %s' % (got2, err2, got, err)})
            why = None
            if outcome == 'deep_soft' and err == 'ConstructorError' and got == exp_objs[:len(got)]:
                pass        # a self-reference inside deep-constructed arguments: the implementation's documented limit
            elif err != exp_err:
                why = 'load_all: expected %s after %d documents, got %s after %d' % (exp_err, nobj, err, len(got))
            elif got != exp_objs:
                why = 'load_all: object graph / identity differs: %r expected %r' % (got, exp_objs)
            # node level
            gotn, errn = [], None
            try:
                for n in yaml.compose_all(text, Loader=L):
                    gotn.append(proj_node(n, nodes))
            except yaml.YAMLError as e:
                errn = type(e).__name__
            except Exception as e:
                errn = 'exception:' + type(e).__name__
            if why is None:
                if errn != exp_nerr:
                    why = 'compose_all: expected %s, got %s' % (exp_nerr, errn)
                elif gotn != exp_nodes:
                    why = 'compose_all: node graph / identity differs: %r expected %r' % (gotn, exp_nodes)
            if why:
                res['bad'].append({'doc': text, 'loader': L.__name__, 'why': why, 'outcome': outcome,
                                   'kinds': sorted({e['t'] for e in evs if e['k'] in 'QM'})})
        if len(res['samples']) < 1 and len(evs) >= 5 and any(e['k'] == 'A' for e in evs):
            res['samples'].append({'stream': text, 'expected': outcome})
    return res


def main(tier, replay=None):
    v = Verdict('C13', tier)
    states = trans = traces = nontrivial = tested = 0
    samples, outcomes = [], {}
    for name in TIERS[tier]:
        cfg = CONFIGS[name]
        if 'obj' in cfg['MapKinds'] or 'sobj' in cfg['MapKinds'] or 'app' in cfg['SeqKinds']:
            loaders = UNSAFE[:2] if tier == 'quick' else UNSAFE
        else:
            loaders = SAFE if tier == 'quick' else SAFE + FULL + UNSAFE[:2]
        r = tlc.run('Composer', cfg='MC_Composer.cfg', dump=True, tag='C13_' + name, timeout=3000,
                    constants={k: tla(x) for k, x in cfg.items()})
        if r.violated:
            print(r.out[-3000:])
            raise SystemExit('machinery failure: Composer.tla violates %s in configuration %s' % (r.violated, name))
        tlc.require_ok(r, 'Composer/' + name)
        states += r.distinct
        trans += r.generated
        out = mbt.pmap(work, r.dump, {'loaders': loaders})
        if sum(o['n'] for o in out) != r.distinct:
            raise SystemExit('machinery failure: dump has %d states, TLC found %d' % (sum(o['n'] for o in out), r.distinct))
        t = sum(o['tested'] for o in out)
        tested += t
        traces += t * len(loaders) * 2 + t * sum(1 for n_ in loaders if not n_.startswith('C'))
        nontrivial += sum(o['nontrivial'] for o in out)
        for o in out:
            samples += o['samples']
            for k, n in o['outcomes'].items():
                outcomes[k] = outcomes.get(k, 0) + n
            for b in o['bad']:
                v.violation(dict({'config': name, 'loader': b['loader'], 'outcome': b['outcome'], 'kinds': b['kinds']},
                                 **({'delivery': b['delivery']} if 'delivery' in b else {})), b)
        os.remove(r.dump)
    for k in ['run', 'undefined_alias', 'duplicate_anchor', 'unhashable_key', 'unconstructable', 'deep_soft']:
        if not outcomes.get(k):
            raise SystemExit('machinery failure: no stream with outcome %s was generated (vacuous)' % k)
    v.cov = {'states': states, 'transitions': trans, 'traces_validated_against_impl': traces, 'exhaustive': True,
             'streams_tested': tested, 'distinct_nontrivial': nontrivial, 'outcomes': outcomes, 'samples': samples[:8],
             'rule': 'every complete event stream reachable in Composer.tla within the bound; non-trivial = contains an alias; '
                     'each is printed, then compose_all and load_all results are projected to identity-numbered graphs',
             'configs': {n: CONFIGS[n] for n in TIERS[tier]}}
    v.assumptions = ['scalar values are pairwise distinct (identity of equal strings is not observable)',
                     'no merge keys in these documents (C14 covers them)']
    return v.finish()
