"""C11 - every call and every document stands alone.

spec/Api.tla (L: per-call object lifetime, per-document resets, library-global containers, generators) is model-checked
against H_CallIndep (result = result in a fresh process, globals unchanged, stream = list of its documents alone):
  (a) micro-step specification, one TLC action per method: invariants + frame property, every action must fire;
  (b) macro-step specification without history: all histories up to the bound (states merge);
  (c) deliberately wrong variants of L (Mutation) must violate H (the oracle is sensitive);
  (d) MBT configurations carry the history: every idle state is one test case.  Each history is concretised and run in
      ONE forked interpreter, each step also alone in a fresh fork; projected results and the deep digest of all
      module/class-level state of the package are written as traces and judged by TLC (spec/Trace_Calls.tla);
  (e) every multi-document argument up to the bound: the stream against its documents taken alone, judged by TLC.
The model's predicted outcome classes are compared with the real ones as drift notes only."""
import json, os, sys, time, traceback, zlib, multiprocessing as mp
from concurrent.futures import ThreadPoolExecutor
from .. import tlc, tlaval, trace
from ..common import Verdict, SEED, BUILD, ensure_dir

ALL_LOAD = ['load', 'load_all', 'compose', 'compose_all', 'parse', 'scan']
ALL_GEN = ['load_all', 'compose_all', 'parse', 'scan']
ALL_DUMP = ['dump', 'dump_all', 'serialize', 'serialize_all', 'emit']
DOCS_ALL = ['plain', 'scanerr', 'parseerr', 'comperr', 'ctorerr', 'yamldir', 'tagdir', 'usetag', 'stdtag', 'anchors',
            'usealias', 'rec', 'pyobj', 'deepfail', 'ucall', 'ugen', 'umulti', 'paths',
            'pyplain', 'slots', 'deepalias', 'newalias', 'keyed', 'ydeep', 'ykeyed']
OBJ_DOCS = ['pyplain', 'slots', 'deepalias', 'newalias', 'keyed', 'ydeep', 'ykeyed']     # python objects / YAMLObject subclasses
VALS_ALL = ['plainv', 'shared', 'shared2', 'recv', 'reprerr', 'tagged', 'usesve', 'verv', 'urepr', 'umrepr', 'uni', 'uniau', 'scalarv',
            'pathsv']
DOCS12 = ['plain', 'scanerr', 'parseerr', 'comperr', 'ctorerr', 'yamldir', 'tagdir', 'usetag', 'stdtag', 'anchors',
          'usealias', 'rec']
ENC_ENDS = ('ok', 'SE', 'PE', 'CE', 'KE')


def ENC(forms, ends, encs=('u8', 'ule', 'ube')):
    from ..drivers.api_world import enc_family
    return enc_family(encs, forms, ends)


BASE = dict(LoadOps=[], GenOps=[], DumpOps=[], Classes=['safe'], Backends=['py'], IOs=['mem'], Impls=[True], Docs=[],
            Vals=[], MaxHist=2, MaxStream=1, MaxSingle=1, Faults=False, Mutation='none', KeepHist=True, MaxGens=1, Persistent=False)


def cfg(**kw):
    d = dict(BASE)
    d.update(kw)
    return d


# MBT configurations: (name, constants, tiers)
D5 = ['comperr', 'tagdir', 'usetag', 'anchors', 'usealias']
D6 = ['plain'] + D5
V4 = ['shared2', 'reprerr', 'tagged', 'usesve']
V6 = V4 + ['uni', 'uniau']
HIST_CONFIGS = [
    ('load3', cfg(LoadOps=['load', 'load_all'], GenOps=['load_all'], Docs=['tagdir', 'usetag', 'anchors'], MaxHist=3), 'q'),
    ('load3t', cfg(LoadOps=['load', 'load_all'], GenOps=['load_all'], Docs=D5 + ['ctorerr'], MaxHist=3), 't'),
    ('load2c', cfg(LoadOps=['load', 'load_all'], GenOps=['load_all'], Backends=['c'], Docs=D5, MaxHist=2), 'q'),
    ('load3c', cfg(LoadOps=['load', 'load_all'], GenOps=['load_all'], Backends=['c'], Docs=D5 + ['ctorerr'], MaxHist=3), 't'),
    ('cross', cfg(LoadOps=['load'], Classes=['base', 'safe', 'full', 'unsafe'], Backends=['py', 'c'],
                  Docs=['pyobj', 'rec', 'deepfail'], MaxHist=2), 'q'),
    ('crosst', cfg(LoadOps=['load'], Classes=['base', 'safe', 'full', 'unsafe'], Backends=['py', 'c'],
                   Docs=['pyobj', 'rec', 'stdtag', 'deepfail'], MaxHist=2), 't'),
    ('cross3', cfg(LoadOps=['load'], Classes=['safe', 'full', 'unsafe'], Backends=['py', 'c'], Docs=['pyobj', 'rec'], MaxHist=3), 't'),
    ('ops2', cfg(LoadOps=ALL_LOAD, GenOps=['parse', 'compose_all'], Docs=['tagdir', 'usetag', 'anchors', 'usealias'], MaxHist=2), 'q'),
    ('ops2c', cfg(LoadOps=ALL_LOAD, GenOps=['scan', 'compose_all'], Backends=['c'], Docs=['tagdir', 'usetag', 'usealias'],
                  MaxHist=2), 'q'),
    ('ops2t', cfg(LoadOps=ALL_LOAD, GenOps=ALL_GEN, Backends=['py', 'c'], Docs=['tagdir', 'usetag', 'anchors', 'usealias', 'scanerr'],
                  MaxHist=2), 't'),
    ('dump3', cfg(DumpOps=['dump', 'emit'], Classes=['user'], Vals=V4, MaxHist=3), 'qt'),
    ('dump3c', cfg(DumpOps=['dump', 'emit'], Classes=['user'], Backends=['c'], Vals=V4, MaxHist=3), 't'),
    ('dump2', cfg(DumpOps=['dump', 'serialize'], Classes=['user'], Backends=['py', 'c'], Vals=['shared2', 'tagged', 'usesve', 'uni', 'uniau'],
                  MaxHist=2), 'q'),
    ('dump2t', cfg(DumpOps=['dump', 'serialize', 'emit'], Classes=['user', 'unsafe'], Backends=['py', 'c'], Vals=V6, MaxHist=2), 't'),
    # result-returning calls (stream=None) after FAILED multi-document dumps that had already produced output
    ('dumpfail', cfg(DumpOps=['dump', 'dump_all', 'serialize_all'], Classes=['user'], Backends=['py', 'c'], Vals=['plainv', 'reprerr'],
                     MaxHist=2, MaxStream=2), 'qt'),
    ('dumpio', cfg(DumpOps=ALL_DUMP, Classes=['safe'], IOs=['mem', 'file'], Backends=['py', 'c'],
                   Vals=['plainv', 'shared', 'verv'], MaxHist=2), 't'),
    ('mixed', cfg(LoadOps=['load'], GenOps=['load_all'], DumpOps=['dump'], Classes=['user'], Docs=['paths', 'usetag', 'comperr'],
                  Vals=['pathsv', 'usesve', 'reprerr'], MaxHist=3), 'qt'),
    ('mixedc', cfg(LoadOps=['load'], GenOps=['load_all'], DumpOps=['dump'], Classes=['user'], Backends=['c'],
                   Docs=['paths', 'usetag', 'comperr'], Vals=['pathsv', 'usesve', 'reprerr'], MaxHist=3), 'qt'),
    ('usersafe', cfg(LoadOps=['load'], DumpOps=['dump'], Classes=['user', 'safe'], Backends=['py', 'c'], Docs=['paths', 'usetag', 'scanerr'],
                     Vals=['pathsv', 'reprerr'], MaxHist=2), 'qt'),
    ('faults', cfg(LoadOps=['load'], GenOps=['load_all'], DumpOps=['dump'], Classes=['user'], Backends=['py', 'c'],
                   Docs=['ucall', 'ugen', 'umulti'], Vals=['urepr', 'umrepr'], MaxHist=2, Faults=True), 'qt'),
    # python objects: instances of ordinary / slots-only classes, classes that take their state themselves, objects as
    # mapping keys - calls and suspended generators of the unsafe classes, both back-ends
    ('pyobj2', cfg(LoadOps=['load'], GenOps=['load_all'], Classes=['unsafe'], Backends=['py', 'c'],
                   Docs=['pyplain', 'slots', 'keyed', 'pyobj'], MaxHist=2), 'q'),
    ('pyobj3', cfg(LoadOps=['load'], GenOps=['load_all'], Classes=['unsafe'], Backends=['py', 'c'],
                   Docs=['pyplain', 'slots', 'keyed', 'deepalias'], MaxHist=3), 't'),
    ('yobj2', cfg(LoadOps=['load'], GenOps=['load_all'], Classes=['user', 'unsafe'], Backends=['py', 'c'],
                  Docs=['ydeep', 'ykeyed', 'deepalias', 'keyed'], MaxHist=2), 't'),
    ('load4', cfg(LoadOps=['load', 'load_all'], GenOps=['load_all'], Docs=['tagdir', 'usetag', 'anchors'], MaxHist=4), 't'),
    ('wide2', cfg(LoadOps=['load', 'compose'], GenOps=['load_all'], Classes=['safe', 'unsafe'], Docs=DOCS_ALL[:14], MaxHist=2), 't'),
    ('gens2', cfg(LoadOps=['load'], GenOps=['load_all', 'parse'], Docs=['tagdir', 'usetag', 'anchors'], MaxHist=4, MaxGens=2), 't'),
    # documents given as ENCODED BYTES (Api.tla EncDocs: encoding x how the stream answers read() x width of the multi-byte
    # character x its offset against the decode points x how the call ends).  Linear in the family: every complete call that
    # fails behind the first decode point (enccall) and every suspended / abandoned scan / parse generator (encgen) must leave
    # the library-global state as it was; encpair: results of byte-input calls (stream and bytes object) after such calls.
    ('enccall', cfg(LoadOps=['load'], IOs=['file'], Docs=ENC(('f', 'r2', 'r3'), ('SE', 'PE', 'CE')), MaxHist=1), 'q'),
    ('encgen', cfg(GenOps=['scan', 'parse'], IOs=['file'], Docs=ENC(('f', 'r3'), ('ok',)), MaxHist=3), 'q'),
    ('encpair', cfg(LoadOps=['load'], IOs=['file', 'mem'], Docs=['u8_f_c21_CE', 'ule_r3_c41_SE', 'ube_f_c42_PE', 'u8_r3_c32_ok',
                                                                  'ule_f_c20_ok', 'plain'], MaxHist=2), 'qt'),
    ('enccallt', cfg(LoadOps=['load', 'compose'], IOs=['file'], Backends=['py', 'c'], Docs=ENC(('f', 'r1', 'r2', 'r3'), ENC_ENDS),
                     MaxHist=1), 't'),
    ('encgent', cfg(GenOps=ALL_GEN, IOs=['file'], Docs=ENC(('f', 'r2', 'r3'), ('ok',)), MaxHist=3), 't'),
    ('encgenc', cfg(GenOps=['scan', 'load_all'], IOs=['file'], Backends=['c'], Docs=ENC(('f', 'r3'), ('ok',)), MaxHist=2), 't'),
]
STREAM_CONFIGS = [
    ('streams3', cfg(LoadOps=['load_all', 'compose_all', 'parse', 'scan'], Backends=['py', 'c'], Docs=['plain'] + D5[1:], MaxHist=1,
                     MaxStream=3), 'q'),
    ('streams2', cfg(LoadOps=['load_all', 'compose_all', 'parse', 'scan'], Backends=['py', 'c'],
                     Docs=['scanerr', 'parseerr', 'comperr', 'ctorerr', 'yamldir', 'tagdir', 'usetag', 'stdtag', 'rec', 'paths'], MaxHist=1,
                     MaxStream=2), 'q'),
    ('streams2t', cfg(LoadOps=['load_all', 'compose_all', 'parse', 'scan'], Classes=['safe', 'unsafe', 'base'], Backends=['py', 'c'],
                      Docs=DOCS_ALL[:14], MaxHist=1, MaxStream=2, Impls=[True, False]), 't'),
    ('streams3t', cfg(LoadOps=['load_all', 'compose_all', 'parse', 'scan'], Backends=['py', 'c'], Docs=DOCS12[:2] + DOCS12[3:5] + DOCS12[6:],
                      MaxHist=1, MaxStream=3), 't'),
    # streams of python-object documents: two-step objects, deep constructions over aliases, objects as mapping keys
    ('ostreams2', cfg(LoadOps=['load_all'], Classes=['unsafe', 'user'], Backends=['py', 'c'], Docs=['plain', 'pyobj'] + OBJ_DOCS, MaxHist=1,
                      MaxStream=2), 'q'),
    ('ostreams3', cfg(LoadOps=['load_all'], Classes=['unsafe', 'user'], Backends=['py', 'c'], Docs=['plain'] + OBJ_DOCS, MaxHist=1,
                      MaxStream=3), 't'),
    # byte streams of two documents: a constructor error in the first one leaves the second one unread
    ('encstreams', cfg(LoadOps=['load_all', 'parse'], Backends=['py', 'c'], IOs=['file'],
                       Docs=['u8_r3_c21_KE', 'u8_r3_c32_ok', 'ule_r3_c41_KE', 'ube_f_c42_ok', 'plain'], MaxHist=1, MaxStream=2), 'qt'),
    ('vstreams3d', cfg(DumpOps=['dump_all'], Classes=['user'], Backends=['py', 'c'],
                       Vals=['plainv', 'shared2', 'tagged', 'usesve', 'scalarv'], MaxHist=1, MaxStream=3), 'q'),
    ('vstreams3s', cfg(DumpOps=['serialize_all'], Classes=['user'], Backends=['py', 'c'],
                       Vals=['plainv', 'shared2', 'tagged', 'usesve', 'scalarv'], MaxHist=1, MaxStream=3), 'q'),
    ('vstreams3e', cfg(DumpOps=['emit'], Classes=['user'], Backends=['py', 'c'],
                       Vals=['plainv', 'shared2', 'tagged', 'usesve', 'scalarv'], MaxHist=1, MaxStream=3), 'q'),
    ('vstreams3t', cfg(DumpOps=['dump_all', 'serialize_all', 'emit'], Classes=['user'], Backends=['py', 'c'],
                       Vals=['plainv', 'shared', 'shared2', 'recv', 'reprerr', 'tagged', 'usesve', 'umrepr', 'scalarv'], MaxHist=1,
                       MaxStream=3), 't'),
]
# deliberately wrong variants of L and the H formula each must violate
# deliberately wrong variants of L: (name, the H formula it must violate, the smallest pool that shows it)
_M = dict(LoadOps=[], GenOps=[], DumpOps=[], Classes=['user'], IOs=['file'], Docs=[], Vals=[], MaxHist=1, MaxStream=2, Faults=True,
          KeepHist=False)
MUTATION_CFGS = [
    ('close_on_represent_error', 'H_FaultTransparency', dict(DumpOps=['dump_all'], Vals=['scalarv', 'urepr'])),
    ('marks_on_nodes', 'H_CallerObjects', dict(DumpOps=['serialize_all'], Vals=['plainv'], MaxStream=1)),
    ('shared_resolver_stack', 'H_Globals', dict(LoadOps=['load_all'], Docs=['usetag', 'paths'], MaxStream=1)),
    ('keep_serialized', 'H_Documents', dict(DumpOps=['serialize_all'], Vals=['plainv'])),
    ('keep_anchors', 'H_Documents', dict(LoadOps=['load_all'], Docs=['anchors', 'usealias'])),
    ('th_in_place', 'H_Globals', dict(LoadOps=['load_all'], Docs=['plain', 'tagdir'])),
    ('th_update_only', 'H_Documents', dict(LoadOps=['load_all'], Docs=['tagdir', 'usetag'])),
    ('keep_anchor_id', 'H_Documents', dict(DumpOps=['dump_all'], Vals=['shared2'])),
    ('keep_tag_prefixes', 'H_Documents', dict(DumpOps=['emit'], Vals=['tagged', 'usesve'])),
    ('shared_text_buffer', 'H_Globals', dict(DumpOps=['dump_all', 'dump'], IOs=['mem'], Vals=['plainv', 'reprerr'], Faults=False)),
    ('shared_slotstate', 'H_Globals', dict(LoadOps=['load_all'], Classes=['unsafe'], IOs=['mem'], Docs=['slots', 'pyplain'], MaxStream=1,
                                           Faults=False)),
    ('deep_sticky', 'H_Documents', dict(LoadOps=['load_all'], Classes=['unsafe', 'user'], IOs=['mem'],
                                        Docs=['deepalias', 'newalias', 'ydeep', 'keyed', 'ykeyed'], Faults=False)),
    ('flush_in_finally', 'H_FaultTransparency', dict(DumpOps=['dump_all'], Vals=['plainv'], MaxStream=1, Persistent=True)),
    ('annotate_marked_error', 'H_FaultTransparency', dict(LoadOps=['load_all'], Docs=['ucall'], MaxStream=1)),
    ('dispose_raises', 'H_FaultTransparency', dict(DumpOps=['dump_all'], Vals=['shared2', 'plainv'])),
    ('wrap_write_error', 'H_FaultTransparency', dict(DumpOps=['dump_all'], Vals=['plainv'], MaxStream=1)),
]
MUTATIONS = [(m, h) for m, h, _ in MUTATION_CFGS]


def mutation_cfg(name):
    for m, _, over in MUTATION_CFGS:
        if m == name:
            return cfg(**dict(_M, Mutation=m, **over))
    raise KeyError(name)


MICRO_ACTIONS = ['CreateLoader', 'CreateDumper', 'Read', 'ProcessDirectives', 'ImplicitDocumentStart', 'DocumentBoundary',
                 'ParseComposeNode', 'ComposeDocumentReset', 'ConstructObject', 'DrainStateGenerators',
                 'ConstructDocumentReset', 'SerializerOpen', 'SerializerClose', 'RepresentData', 'RepresentReset',
                 'SerializeAnchorNodes', 'SerializeReset', 'EmitterEmit', 'EmitDocumentStart', 'EmitEvent', 'Flush',
                 'LibyamlWrite', 'Finish', 'Dispose', 'Fault', 'DocumentEnd', 'NextDocument']


def tla(v):
    if isinstance(v, bool):
        return 'TRUE' if v else 'FALSE'
    if isinstance(v, int):
        return str(v)
    if isinstance(v, str):
        return '"%s"' % v
    return '{' + ', '.join(tla(x) for x in v) + '}'


def consts(c):
    return {k: tla(v) for k, v in c.items()}


PAR = max(1, min(16, int(os.environ.get('VERIF_TRACE_PAR', '16'))))       # the machine's share for this run


def run_tlc(tag, cfgfile, c, workers, timeout=1500, dump=False):
    workers = min(workers, PAR)
    return tlc.run('Api', cfg=cfgfile, tag=tag, constants=consts(c), workers=workers, timeout=timeout, coverage=False,
                   heap='4g', dump=dump)


def cases_of(r):
    out = []
    for line in r.out.split('\n'):
        if line.startswith('"CASE '):
            h = tlaval.parse(line[6:-1].replace('\\"', '"'))
            if h:
                out.append(h)
    return out


# ------------------------------------------------------------------ keys, variants
def argkey(st):
    a = st['arg']
    return json.dumps(a, sort_keys=True)


def stepkey(st):
    return (st['op'], st['cls'], st['be'], st['io'], argkey(st))


def variant_of(st):
    return zlib.crc32(repr((SEED,) + stepkey(st)).encode())


def inj_for(st):
    from ..drivers import api_world as W
    k = zlib.crc32(repr((SEED, 'inj') + stepkey(st) + (st.get('fault', 0),)).encode())
    cls = W.INJ_CLASSES[k % 4]            # Exception subclasses (the BaseException subclass is exercised by C19)
    return cls('injected-%d' % st.get('fault', 0))


def pack(r):
    return {'units': r['units'], 'end': r['end'], 'full': r['full']}


TRIVIAL = {'units': [], 'end': 'return', 'full': '-'}


# ------------------------------------------------------------------ code run inside forked children
def child_history(hist):
    from ..drivers import api_world as W
    g0 = _G0[0]          # taken in the worker (parent of this child), which never calls the API
    gens, obs = {}, []
    for h in hist:
        st = h['step']
        t = st['t']
        W.CTL.reset(st['fault'] - 1 if st['fault'] else None, inj_for(st) if st['fault'] else None)
        if t == 'call':
            res = pack(W.observe_call(st, variant_of(st)))
        elif t == 'open':
            gens[st['g']] = W.Gen(st, variant_of(st))
            res = TRIVIAL
        elif t == 'next':
            res = pack(gens[st['g']].next())
        else:
            gens[st['g']].close()
            res = TRIVIAL
        g = W.globals_digest()
        obs.append({'res': res, 'g': g})
    lines = None
    if any(o['g'] != g0 for o in obs):
        lines = W.globals_lines()
    return {'g0': g0, 'obs': obs, 'lines': lines}


def child_fresh(key):
    """key = ('call', step) | ('next', step, k): the step alone in a fresh interpreter"""
    from ..drivers import api_world as W
    st = key[1]
    if key[0] == 'call':
        W.CTL.reset(st['fault'] - 1 if st['fault'] else None, inj_for(st) if st['fault'] else None)
        return pack(W.observe_call(st, variant_of(st)))
    g = W.Gen(st, variant_of(st))
    W.CTL.reset()
    for _ in range(key[2] - 1):
        g.next()
    W.CTL.reset(st['fault'] - 1 if st['fault'] else None, inj_for(st) if st['fault'] else None)
    return pack(g.next())


def child_stream(st):
    from ..drivers import api_world as W
    if st['op'] in W.IS_LOAD:
        r = W.observe_iteration(st, variant_of(dict(st, arg={'docs': [], 'impl': True})))
    else:
        r = W.observe_dump_stream(st, variant_of(dict(st, arg=[])))
    return {'units': r['units'], 'end': r['end']}


def child_split(text):
    """Cut a multi-document text into its documents (at the start marks of the DocumentStart events)."""
    from ..drivers import api_world as W
    try:
        starts = [e.start_mark.index for e in W.yaml.parse(text, Loader=W.yaml.SafeLoader) if isinstance(e, W.E.DocumentStartEvent)]
    except W.yaml.YAMLError:
        return []
    if len(starts) < 2 or starts[0] != 0 and text[:starts[0]].strip('\ufeff \n') != '' and not text[:starts[0]].lstrip().startswith('#'):
        return []
    cuts = [0] + starts[1:] + [len(text)]
    return [text[cuts[i]:cuts[i + 1]] for i in range(len(cuts) - 1)]


def child_lines(_):
    from ..drivers import api_world as W
    return W.globals_lines()


def in_fork(fn, arg):
    r, w = os.pipe()
    pid = os.fork()
    if pid == 0:
        try:
            os.close(r)
            try:
                data = json.dumps({'ok': fn(arg)})
            except BaseException:
                data = json.dumps({'crash': traceback.format_exc()})
            with os.fdopen(w, 'w') as f:
                f.write(data)
        finally:
            os._exit(0)
    os.close(w)
    with os.fdopen(r) as f:
        data = f.read()
    os.waitpid(pid, 0)
    if not data:
        return {'crash': 'child died without output'}
    return json.loads(data)


def _work(args):
    kind, items = args
    fn = {'hist': child_history, 'fresh': child_fresh, 'stream': child_stream, 'lines': child_lines, 'split': child_split}[kind]
    return [in_fork(fn, x) for x in items]


_G0 = [None]


def _init_worker():
    from ..drivers import api_world  # (import only: a worker never calls the API itself)
    _G0[0] = api_world.globals_digest()


def submit(pool, kind, items, chunk=40):
    parts = [items[i:i + chunk] for i in range(0, len(items), chunk)]
    return pool.map_async(_work, [(kind, p) for p in parts], chunksize=1)


def collect(ar):
    out = [o for res in ar.get() for o in res]
    for o in out:
        if 'crash' in o:
            raise SystemExit('machinery failure: harness child crashed:\n' + o['crash'])
    return [o['ok'] for o in out]


def pmap(pool, kind, items, chunk=40):
    parts = [items[i:i + chunk] for i in range(0, len(items), chunk)]
    out = []
    for res in pool.imap(_work, [(kind, p) for p in parts]):
        out += res
    for o in out:
        if 'crash' in o:
            raise SystemExit('machinery failure: harness child crashed:\n' + o['crash'])
    return [o['ok'] for o in out]


# ------------------------------------------------------------------ main
def fresh_key(st, k):
    s = {x: st[x] for x in ('op', 'cls', 'be', 'io', 'arg', 'fault')}
    if st['t'] == 'call':
        return ('call', s)
    return ('next', s, k)


def hashable(key):
    return json.dumps(key, sort_keys=True)


def same_end(model, real):
    if model == 'raise:INJ':
        return real.startswith('raise:Inj')
    return model == real


def short(st):
    a = st['arg']
    arg = '+'.join(a['docs']) if isinstance(a, dict) else '+'.join(a)
    f = '!%d' % st['fault'] if st.get('fault') else ''
    return '%s:%s(%s,%s,%s,%s)%s' % (st['t'], st['op'], st['cls'], st['be'], st['io'], arg, f)


def main(tier, replay=None):
    v = Verdict('C11', tier)
    letter = 'q' if tier == 'quick' else 't'
    states = transitions = 0
    tlc_wall = {}
    t0 = time.time()
    # the worker processes are created first, while this process is still small: their forks stay cheap
    pool = mp.get_context('fork').Pool(PAR, initializer=_init_worker)
    ex = ThreadPoolExecutor(max_workers=8 if PAR >= 16 else 2)
    # ---- (a)-(c) design checks, started in the background
    micro = cfg(LoadOps=ALL_LOAD, GenOps=['load_all', 'parse'], DumpOps=ALL_DUMP, Classes=['user'], Backends=['py', 'c'],
                IOs=['file'], Docs=['comperr', 'tagdir', 'usetag', 'rec', 'ugen', 'ydeep', 'ykeyed'], Vals=['shared2', 'reprerr', 'tagged', 'usesve', 'urepr'],
                MaxHist=1, MaxStream=1 if tier == 'quick' else 2, Faults=True, KeepHist=False)
    if tier == 'quick':
        design = cfg(LoadOps=ALL_LOAD, GenOps=['load_all', 'parse'], DumpOps=ALL_DUMP, Classes=['user'], Backends=['py', 'c'],
                     IOs=['file'], Docs=['comperr', 'tagdir', 'usetag', 'anchors', 'ugen'], Vals=['shared2', 'reprerr', 'tagged', 'urepr'],
                     MaxHist=2, Faults=True, KeepHist=False)
    else:
        design = cfg(LoadOps=ALL_LOAD, GenOps=ALL_GEN, DumpOps=ALL_DUMP, Classes=['user'], Backends=['py', 'c'], IOs=['file'],
                     Docs=['comperr', 'ctorerr', 'tagdir', 'usetag', 'anchors', 'usealias', 'ugen'],
                     Vals=['shared2', 'reprerr', 'tagged', 'usesve', 'urepr'], MaxHist=3, Faults=True, KeepHist=False)
    futs = {'micro': ex.submit(run_tlc, 'C11_micro', 'MC_Api_design.cfg', micro, 4, 1500, True),
            'design': ex.submit(run_tlc, 'C11_design', 'MC_Api_hist.cfg', design, 6 if tier == 'quick' else 8, 2400)}
    muts = MUTATIONS if tier == 'thorough' else [m for m in MUTATIONS if m[0] in ('shared_slotstate', 'deep_sticky')]
    for m, _ in muts:
        futs['mut_' + m] = ex.submit(run_tlc, 'C11_mut_' + m, 'MC_Api_hist.cfg', mutation_cfg(m), 2, 900)

    # ---- (d), (e) MBT configurations
    import re as _re
    only = _re.compile(os.environ.get('VERIF_C11_ONLY', ''))          # development aid: a subset of the MBT configurations
    hist_cfgs = [(n, c) for n, c, tiers in HIST_CONFIGS if letter in tiers and only.search(n)]
    stream_cfgs = [(n, c) for n, c, tiers in STREAM_CONFIGS if letter in tiers and only.search(n)]
    order = sorted(hist_cfgs + stream_cfgs, key=lambda x: 0 if x[0].startswith(('vstreams', 'streams', 'load')) else 1)
    mbt = {n: ex.submit(run_tlc, 'C11_' + n, 'MC_Api_mbt.cfg', c, 3, 2400) for n, c in order}

    # every configuration is replayed as soon as its TLC run is done (the pool works while the other TLC runs go on)
    from concurrent.futures import as_completed
    from ..drivers.api_world import VALS, IS_LOAD
    fresh_keys, fresh_jobs, hist_jobs = {}, [], []
    part_keys, part_jobs, whole_jobs = {}, [], []
    names = {mbt[n]: (n, c) for n, c in hist_cfgs + stream_cfgs}
    for fut in as_completed(list(names)):
        n, c = names[fut]
        r = fut.result()
        if r.violated:
            sys.stdout.write(r.out[-3000:])
            raise SystemExit('machinery failure: Api.tla violates %s in MBT configuration %s (the model is wrong)' % (r.violated, n))
        tlc.require_ok(r, 'Api/' + n)
        states += r.distinct
        transitions += r.generated
        tlc_wall[n] = round(r.wall, 1)
        cs = cases_of(r)
        if len(cs) != r.distinct - 1:
            raise SystemExit('machinery failure: %d test cases parsed, TLC found %d states in %s' % (len(cs), r.distinct, n))
        if (n, c) in hist_cfgs:
            hs = [(n, h) for h in cs]
            new = {}
            for _, h in hs:
                nexts = {}
                for e in h:
                    st = e['step']
                    if st['t'] == 'next':
                        nexts[st['g']] = nexts.get(st['g'], 0) + 1
                    if st['t'] in ('call', 'next'):
                        k = fresh_key(st, nexts.get(st['g'], 0))
                        if hashable(k) not in fresh_keys:
                            fresh_keys[hashable(k)] = new[hashable(k)] = k
            nk = list(new)
            fresh_jobs.append((nk, submit(pool, 'fresh', [new[k] for k in nk], 40)))      # every distinct step alone, fresh fork
            hist_jobs.append((hs, submit(pool, 'hist', [h for _, h in hs], 25)))            # each history in one forked interpreter
        else:
            ws, new = [], {}
            for h in cs:
                e = h[0]
                st = e['step']
                if st['t'] != 'call':
                    continue
                a = st['arg']
                if st['op'] in IS_LOAD:
                    parts = [dict(st, arg={'docs': [d], 'impl': bool(j == 0 and a['impl'])}) for j, d in enumerate(a['docs'])]
                else:
                    if any(VALS[x][3] != VALS[a[0]][3] for x in a) or \
                            (st['op'] != 'emit' and any(VALS[x][:2] != VALS[a[0]][:2] for x in a)):
                        continue        # per-call options differ between the whole call and the part (spec: SameOpts)
                    parts = [dict(st, arg=[x]) for x in a]
                for q in parts:
                    if hashable(stepkey(q)) not in part_keys:
                        part_keys[hashable(stepkey(q))] = new[hashable(stepkey(q))] = q
                ws.append((n, st, parts, e['res']))
            nk = list(new)
            part_jobs.append((nk, submit(pool, 'stream', [new[k] for k in nk], 40)))
            whole_jobs.append((ws, submit(pool, 'stream', [st for _, st, _, _ in ws], 50)))
    t_tlc = time.time() - t0
    fresh, pres, histories, obs, wholes, wres = {}, {}, [], [], [], []
    for nk, ar in fresh_jobs:
        fresh.update(zip(nk, collect(ar)))
    for hs, ar in hist_jobs:
        histories += hs
        obs += collect(ar)
    for nk, ar in part_jobs:
        pres.update(zip(nk, collect(ar)))
    for ws, ar in whole_jobs:
        wholes += ws
        wres += collect(ar)
    traces, drift, nontrivial, drift_samples = [], 0, 0, []
    for (n, h), o in zip(histories, obs):
        steps, nexts = [], {}
        for e, ob in zip(h, o['obs']):
            st = e['step']
            if st['t'] == 'next':
                nexts[st['g']] = nexts.get(st['g'], 0) + 1
            if st['t'] in ('call', 'next'):
                fr = fresh[hashable(fresh_key(st, nexts.get(st['g'], 0)))]
                if not same_end(e['res']['end'], ob['res']['end']):
                    drift += 1
                    if len(drift_samples) < 8:
                        drift_samples.append([short(st), e['res']['end'], ob['res']['end']])
            else:
                fr = TRIVIAL
            steps.append({'res': ob['res'], 'fresh': fr, 'g': ob['g']})
        if len(h) >= 2:
            nontrivial += 1
        traces.append({'kind': 'hist', 'g0': o['g0'], 'steps': steps})
    # streams against their documents alone
    stream_traces = []
    for (n, st, parts, mres), w in zip(wholes, wres):
        stream_traces.append({'kind': 'stream', 'whole': w, 'parts': [pres[hashable(stepkey(p))] for p in parts]})
        if mres['end'] != w['end']:
            drift += 1
            if len(drift_samples) < 8:
                drift_samples.append([short(st), mres['end'], w['end']])
    # the multi-document files of the repository's own corpus, cut at their document start marks (code -> spec)
    import glob
    from ..common import REPO
    files = sorted(glob.glob(os.path.join(REPO, 'tests', 'legacy_tests', 'data', '*.data')))
    texts = []
    for f in files:
        try:
            t = open(f, 'rb').read().decode('utf-8')
        except UnicodeDecodeError:
            continue
        if '\n---' in t or t.startswith('---'):
            texts.append((os.path.basename(f), t))
    pieces = pmap(pool, 'split', [t for _, t in texts])
    cwholes, cjobs = [], []
    combos = [('load_all', 'safe', 'py'), ('load_all', 'safe', 'c'), ('compose_all', 'unsafe', 'py'), ('parse', 'safe', 'py'),
              ('parse', 'safe', 'c'), ('scan', 'safe', 'py'), ('compose_all', 'safe', 'c'), ('load_all', 'unsafe', 'py')]
    for (name, t), ps in zip(texts, pieces):
        if len(ps) < 2:
            continue
        for op, cls, be in (combos if tier == 'thorough' else [combos[(zlib.crc32(name.encode()) + SEED + j) % len(combos)] for j in range(3)]):
            mk = lambda x: {'t': 'call', 'op': op, 'cls': cls, 'be': be, 'io': 'mem', 'arg': {'raw': x}, 'g': 0, 'fault': 0}
            cwholes.append((name, op, cls, be, len(ps)))
            cjobs += [mk(t)] + [mk(x) for x in ps]
    cres = pmap(pool, 'stream', cjobs, chunk=30)
    corpus_traces, pos = [], 0
    for name, op, cls, be, n in cwholes:
        corpus_traces.append({'kind': 'stream', 'whole': cres[pos], 'parts': cres[pos + 1:pos + 1 + n]})
        pos += 1 + n
    t_replay = time.time() - t0 - t_tlc

    # ---- judgement by TLC
    alltr = traces + stream_traces + corpus_traces
    verdicts, jstates = trace.judge('Trace_Calls', alltr, 'C11_judge_%s' % tier)
    states += jstates
    base_lines = None
    for i, (ok, why, at) in enumerate(verdicts):
        if ok:
            continue
        if i < len(traces):
            n, h = histories[i]
            st = h[at - 1]['step']
            tr = traces[i]
            key = {'kind': 'history', 'why': why, 'step': '%s:%s' % (st['t'], st['op']), 'cls': st['cls'], 'backend': st['be'],
                   'arg': argkey(st), 'history': [short(e['step']) for e in h[:at]]}
            detail = {'config': n, 'history': [e['step'] for e in h], 'failing_step': at, 'observed': tr['steps'][at - 1]}
            if why == 'globals changed' and obs[i]['lines'] is not None:
                if base_lines is None:
                    base_lines = set(pmap(pool, 'lines', [0])[0])
                detail['globals_added_or_changed'] = sorted(set(obs[i]['lines']) - base_lines)[:8]
                key['attr'] = sorted({l.split('=')[0].split('[')[0] for l in detail['globals_added_or_changed']})[:3]
        elif i >= len(traces) + len(stream_traces):
            name, op, cls, be, n = cwholes[i - len(traces) - len(stream_traces)]
            tr = corpus_traces[i - len(traces) - len(stream_traces)]
            key = {'kind': 'corpus-stream', 'why': why, 'op': op, 'cls': cls, 'backend': be, 'file': name}
            detail = {'file': name, 'whole': tr['whole'], 'parts': tr['parts'], 'first_difference_at_unit': at}
        else:
            n, st, parts, mres = wholes[i - len(traces)]
            tr = stream_traces[i - len(traces)]
            key = {'kind': 'stream', 'why': why, 'op': st['op'], 'cls': st['cls'], 'backend': st['be'], 'arg': argkey(st)}
            detail = {'config': n, 'step': st, 'whole': tr['whole'], 'parts': tr['parts'], 'first_difference_at_unit': at}
        v.violation(key, detail)
    pool.close()

    # ---- design checks must have completed
    for name, f in futs.items():
        r = f.result()
        tlc_wall[name] = round(r.wall, 1)
        if name.startswith('mut_'):
            want = dict(MUTATIONS)[name[4:]]
            if want not in r.violated:
                sys.stdout.write(r.out[-2000:])
                raise SystemExit('machinery failure: wrong variant %s of L does not violate %s (H is not sensitive)' % (name[4:], want))
            continue
        if r.violated:
            sys.stdout.write(r.out[-4000:])
            raise SystemExit('machinery failure: Api.tla violates %s in the %s configuration' % (r.violated, name))
        tlc.require_ok(r, 'Api/' + name)
        states += r.distinct
        transitions += r.generated
        if name == 'micro':
            import re
            fired = {}
            for m in re.finditer(r'act \|-> "(\w+)"', open(r.dump).read()):
                fired[m.group(1)] = fired.get(m.group(1), 0) + 1
            os.remove(r.dump)
            missing = [a for a in MICRO_ACTIONS if not fired.get(a)]
            if missing:
                raise SystemExit('machinery failure: actions never fired in the micro-step specification (vacuous): %s' % missing)
    ex.shutdown()
    if drift:
        v.note('spec-drift C11: %d steps end differently from what the L model predicts (H compares real runs only): %s'
               % (drift, json.dumps(drift_samples)[:600]))
    v.cov = {'states': states, 'transitions': transitions, 'traces_validated_against_impl': len(alltr),
             'histories': len(traces), 'streams': len(stream_traces), 'corpus_streams': len(corpus_traces), 'fresh_runs': len(fresh) + len(pres),
             'distinct_nontrivial': nontrivial + len(stream_traces) + len(corpus_traces),
             'rule': 'non-trivial = history of >= 2 API steps run in one interpreter, or a multi-document argument compared with '
                     'its documents alone; every idle state of the MBT configurations of Api.tla is one case',
             'exhaustive': True, 'actions_fired': fired, 'mutations_of_L_rejected_by_H': [m for m, _ in muts],
             'samples': [[short(e['step']) for e in h] for _, h in histories[-3:]] + [short(st) for _, st, _, _ in wholes[-2:]],
             'configs': {n: {k: c[k] for k in ('LoadOps', 'GenOps', 'DumpOps', 'Classes', 'Backends', 'IOs', 'Docs', 'Vals', 'MaxHist', 'MaxStream', 'Faults')}
                         for n, c in hist_cfgs + stream_cfgs},
             'seconds': {'tlc_mbt': round(t_tlc, 1), 'replay': round(t_replay, 1), 'tlc_runs': tlc_wall}}
    v.assumptions = ['"fresh" = a forked child of a process that has imported the package and never called the API',
                     'global state = every attribute reachable from vars() of every yaml.* module and of every class defined there '
                     '(dicts, lists, sets, tuples, compiled patterns, functions by qualified name); C-level state of _yaml is not visible',
                     'pool documents / values stand for their classes (Api.tla Doc, Val); results are compared as digests',
                     'stream rule: error class of the first failing document, not its message']
    return v.finish()
