"""C07 - the result does not depend on how the input is delivered.

spec/DeliveryIndep.tla (H): what the code units of a document are in each delivery form, the characters the consumer must
see (Doc ++ NUL), Pos(Doc, i) by counting breaks, the first offending unit and the error it deserves.
spec/Reader.tla (L): reader.py as a state machine; the environment chooses document, form, read-size schedule, consumer.

 (a) design check  L => H  for every document up to the bound x every form x every schedule x a free consumer
     (three focus alphabets: widths, breaks, errors), plus the repaired model against the strict error clause;
 (b) spec -> code: the History configuration prints every complete behaviour (document, form, schedule, consumer program)
     with the H tables (characters, Pos table, expected error); each is concretised and replayed into a real
     yaml.reader.Reader through a scripted stream, calling peek/prefix/forward as the behaviour does, and
     (char, index, line, column, error) are compared with the tables; the same triples go through scan / parse /
     compose_all / load_all of both back-ends and are judged by TLC (Trace_Delivery.tla) against the in-memory delivery;
 (c) code -> spec: corpus documents (tests/legacy_tests/data), mutated and padded beyond three real blocks, in every
     form under seeded read-size schedules with splits forced at refill boundaries, inside multi-byte sequences, inside
     surrogate pairs and between CR and LF; reader-level and pipeline-level observations judged by TLC (Trace_Delivery).
"""
import glob, hashlib, json, os, random, re, threading, multiprocessing as mp
from .. import tlc, tlaval, trace
from ..common import Verdict, use_repo, REPO, SEED
from ..drivers import delivery as D

ALL_FORMS = D.FORMS
STREAMS = ['text', 's8', 's8bom', 's16le', 's16be']
EAGER = ['str', 'b8', 'b8bom', 'b16le', 'b16be']
A_WIDTHS = ['A', 'B2', 'B3', 'B4', 'LF']
A_BREAKS = ['A', 'CR', 'LF', 'NEL', 'LS', 'BOM']
A_ERRORS = ['A', 'B3', 'NP1', 'NP3', 'INV', 'TR1', 'TR2', 'ODD']
BOMCH = '\ufeff'


def tla_set(xs):
    return '{' + ', '.join('"%s"' % x for x in xs) + '}'


def cfg(alphabet, maxdoc, forms=ALL_FORMS, programs=('any',), history=False, fixed=False, peek=2, prefix=3, fwd=2, maxbad=2,
        block=4):
    return {'Alphabet': tla_set(alphabet), 'MaxDoc': maxdoc, 'FormsC': tla_set(forms), 'Programs': tla_set(programs),
            'History': 'TRUE' if history else 'FALSE', 'PrintableFirst': 'TRUE' if fixed else 'FALSE',
            'MaxPeek': peek, 'MaxPrefix': prefix, 'MaxFwd': fwd, 'MaxBad': maxbad, 'Block': block}


def design_configs(tier, fixed):
    q = tier == 'quick'
    n = 3 if q else 4
    out = [
        ('widths', cfg(A_WIDTHS, n, forms=['s8', 's8bom', 's16le', 's16be', 'text', 'b8', 'b16be'], fixed=fixed)),
        ('breaks', cfg(A_BREAKS, n, forms=['str', 'text', 's8', 's16le', 'b8bom', 'b16le'], fixed=fixed)),
        ('errors', cfg(A_ERRORS, n, fixed=fixed)),
    ]
    if not q:
        out += [('block3', cfg(['A', 'B3', 'B4', 'CR', 'LF', 'NP1', 'INV', 'TR2'], 3, block=3, fixed=fixed)),
                ('long', cfg(['A', 'B4', 'CR', 'LF'], 6, forms=['s8', 's16le', 'text'], programs=['p11', 'x22'], fixed=fixed))]
    return out


def mbt_configs(tier, fixed):
    q = tier == 'quick'
    return [
        ('m-widths', cfg(['A', 'B3', 'B4', 'CR', 'LF'], 3 if q else 4, forms=STREAMS + EAGER,
                         programs=['p11', 'x22'] if q else ['p11', 'x22', 'p32'], history=True, fixed=fixed)),
        ('m-breaks', cfg(['A', 'CR', 'LF', 'NEL', 'BOM'], 3 if q else 4, forms=['text', 's8', 's16be', 'str'],
                         programs=['p21', 'x33'], history=True, fixed=fixed)),
        ('m-errors', cfg(['A', 'B2', 'NP1', 'NP3', 'INV', 'TR1', 'TR2', 'ODD'], 3, forms=STREAMS + EAGER,
                         programs=['p11', 'x33'] if q else ['p11', 'x33', 'p21'], history=True, fixed=fixed)),
    ]


ACTIONS = ['Reveal', 'Close', 'Construct', 'DetermineEncoding', 'UpdateRaw', 'UpdateLoop', 'Decode', 'Peek', 'Prefix',
           'Forward', 'Complete', 'ForwardStep', 'Finish']


def run_parallel(jobs, workers):
    """jobs: list of (name, kwargs for tlc.run) -> {name: result}; the runs share the cores"""
    out = {}

    def one(name, kw):
        out[name] = tlc.run('Reader', workers=workers, **kw)
    th = [threading.Thread(target=one, args=j) for j in jobs]
    for t in th:
        t.start()
    for t in th:
        t.join()
    return out


def code_is_printable_first(yaml):
    """L follows the code: does update() report a non-printable character that precedes an undecodable byte of the same
    decode batch?  Decides which variant of Decode is model-checked (no verdict here)."""
    try:
        yaml.reader.Reader(b'a\x01b\xff')
    except yaml.reader.ReaderError as e:
        return e.position == 1
    except Exception:
        pass
    return False


# ------------------------------------------------------------------------------------------------ (b) replay of TLC behaviours
_triple = re.compile(r'^"TRIPLE (.*)"$')
_head = re.compile(r'^<<"(\w+)", "(\w+)", (<<.*?>>), ')


def parse_triples(out):
    res = []
    for line in out.splitlines():
        m = _triple.match(line)
        if m:
            res.append(m.group(1).replace('\\"', '"'))
    return res


def expected_obs(prog, text, hpos):
    """the observations H demands of the consumer program `prog`: the program run against the characters `text` (T of the
    spec, made concrete) and TLC's Pos table"""
    kind, look, step = D.PROGRAMS[prog]
    ahead, idx, out = '', 0, []
    while True:
        looking = len(ahead) < look and '\0' not in ahead
        if looking:
            if kind == 'p':
                i = len(ahead)
                if idx + i >= len(text):
                    return out
                out.append(('peek', i, text[idx + i]))
                ahead += text[idx + i]
            else:
                s = text[idx:idx + look]
                if len(s) < look and not s.endswith('\0'):
                    return out
                out.append(('prefix', look, s))
                ahead = s
        else:
            good = ahead.index('\0') if '\0' in ahead else len(ahead)
            if good == 0:
                return out
            l = min(step, good)
            idx += l
            if idx >= len(hpos) or not hpos[idx]:
                return out
            out.append(('forward', l, idx, hpos[idx][0], hpos[idx][1]))
            ahead = ahead[l:]


def doc_rnd(seed, doc, c):
    return random.Random('%d/%s/%d' % (seed, ','.join(doc), c))


def concretise_doc(doc, rnd, syntax):
    """one concrete choice per symbol, valid for every form: characters for character symbols; for the undecodable
    symbols a choice index resolved per encoding"""
    out = []
    for s in doc:
        if s in D.POOL:
            pool = D.POOL[s] + (D.SYNTAX_A if (s == 'A' and syntax) else [])
            out.append(rnd.choice(pool))
        else:
            out.append((s, rnd.randrange(1 << 16)))
    return out


def encode_concrete(doc, conc, form):
    """-> (data, list of pieces) in the form; every abstract unit is one real unit"""
    enc = D.ENC[form]
    pieces, prev = [], None
    for s, ch in zip(doc, conc):
        if isinstance(ch, str):
            pieces.append(ch if enc is None else ch.encode(enc))
        elif enc == 'utf-8':
            cand = D.BAD8[s]
            if s == 'INV' and prev in ('TR1', 'TR2'):
                cand = [x for x in cand if not 0x80 <= x[0] <= 0xbf]
            pieces.append(cand[ch[1] % len(cand)])
        elif s == 'ODD':
            pieces.append([b'a', b'\xd8', b'\x00'][ch[1] % 3])
        else:
            cand = D.BAD16[s]
            pieces.append(cand[ch[1] % len(cand)].encode(enc, 'surrogatepass'))
        prev = s
    if enc is None:
        return ''.join(pieces), pieces
    return D.BOM.get(form, b'') + b''.join(pieces), pieces


def replay_work(args):
    groups, seed, nconc = args
    yaml = use_repo()
    from yaml.reader import Reader, ReaderError
    res = {'n': 0, 'runs': 0, 'bad': [], 'drift': 0, 'drift_ex': [], 'traces': [], 'meta': [], 'samples': [], 'nontrivial': 0,
           'kinds': {}}
    for lines in groups:
        parsed = [tlaval.parse(ln) for ln in lines]
        doc = parsed[0][2]
        for c in range(nconc):
            conc = concretise_doc(doc, doc_rnd(seed, doc, c), syntax=(c % 2 == 1))
            for form, prog, _doc, calls, pc, T, hpos, einfo, lfin in parsed:
                if c == 0:
                    res['n'] += 1
                    res['kinds'][pc] = res['kinds'].get(pc, 0) + 1
                    if len(calls) > 2 and any(s not in ('A', 'LF') for s in doc):
                        res['nontrivial'] += 1
                data, pieces = encode_concrete(doc, conc, form)
                enc = D.ENC[form]
                ngood = len(T) - (1 if form in D.BOM else 0) - (1 if T and T[-1] == 'NUL' else 0)
                good = [p if enc is None else p.decode(enc) for p in pieces[:ngood]]
                text = (BOMCH if form in D.BOM else '') + ''.join(good) + ('\0' if T and T[-1] == 'NUL' else '')
                want = expected_obs(prog, text, hpos)
                src = D.ScriptedStream(data, calls) if form in D.STREAM else data
                got, rerr, exc, r = [], None, None, None
                try:
                    r = Reader(src)
                    got = D.drive(r, prog)
                except ReaderError as e:
                    rerr = ('unprintable' if e.encoding == 'unicode' else 'undecodable', e.position)
                except Exception as e:
                    exc = type(e).__name__
                res['runs'] += 1
                case = {'form': form, 'prog': prog, 'doc': doc, 'schedule': calls, 'data': repr(data), 'model_end': pc}
                why = None
                if exc:
                    why = ('crash', 'non-YAML exception %s' % exc)
                else:
                    k = min(len(got), len(want))
                    if got[:k] != want[:k]:
                        j = next(i for i in range(k) if got[i] != want[i])
                        why = ('position' if got[j][0] == 'forward' else 'char',
                               'call %d: got %r, the document demands %r' % (j, got[j], want[j]))
                    elif len(got) > len(want):
                        why = ('char', 'the reader delivered %r beyond the document %r' % (got[len(want)], text))
                    elif pc == 'error':
                        hk, hp = einfo[0], einfo[1]
                        if rerr is None:
                            why = ('error-missing', 'offending unit %s at %d not reported' % (hk, hp))
                        elif rerr != (hk, hp):
                            offs = [(o['kind'], o['pos']) for o in tlaval.setval(einfo[4])]
                            why = ('error-not-first' if rerr in offs else 'error-offset',
                                   'ReaderError %r, first offending unit is %r' % (rerr, (hk, hp)))
                            case['got'], case['want'] = rerr[0], hk
                    elif rerr is not None:
                        why = ('error-spurious', 'ReaderError %r on a document without offending unit' % (rerr,))
                    elif len(got) < len(want):
                        why = ('char', 'the consumer stopped early: %d of %d calls' % (len(got), len(want)))
                if why:
                    res['bad'].append({'key': {'level': 'reader', 'clause': why[0], 'backend': 'py',
                                               'got': case.get('got', ''), 'want': case.get('want', '')},
                                       'detail': dict(case, why=why[1])})
                elif form in D.STREAM:                       # L drift probes (internal attributes, never a verdict)
                    lerr = (einfo[2], einfo[3]) if pc == 'error' else None
                    sp = getattr(r, 'stream_pointer', None) if r is not None else None
                    if (rerr is not None and lerr is not None and rerr != lerr) or src.extra or src.k != len(calls) or \
                            (sp is not None and pc == 'end' and sp != lfin[0]):
                        res['drift'] += 1
                        if len(res['drift_ex']) < 2:
                            res['drift_ex'].append(dict(case, real_reads=src.k, model_reads=len(calls), real_err=rerr,
                                                        model_err=lerr, real_spos=sp, model_spos=lfin[0]))
                if len(res['samples']) < 1 and pc == 'error' and len(calls) > 2:
                    res['samples'].append(dict(case, error=rerr))
            # the same triples through the whole pipeline, judged by TLC against the in-memory delivery
            ts = pipe_traces(yaml, doc, conc, sorted({(p[0], tuple(p[3])) for p in parsed}))
            res['traces'] += ts
            res['meta'] += [{'doc': doc, 'conc': repr(conc)}] * len(ts)
    return res


# ------------------------------------------------------------------------------------------------ pipeline observations
def hitem(s):
    return hashlib.sha1(s.encode('utf-8', 'surrogatepass')).hexdigest()[:12]


NOERR = {'cls': '', 'problem': '', 'context': '', 'pl': -1, 'pc': -1, 'cl': -1, 'cc': -1, 'pi': -1, 'rd': False, 'rkind': '',
         'rpos': -1}


def outcome(yaml, api, be, src, form):
    o = D.run_api(yaml, api, be, src)
    e = dict(NOERR)
    if o['err']:
        e.update({k: v for k, v in o['err'].items() if k in NOERR})
        if be == 'py' and e['pi'] >= 0 and form in D.BOM:
            e['pi'] -= 1                   # index is not compared when a BOM is present (5.0): normalised to the document
        e['problem'] = hitem(e['problem'])
        e['context'] = hitem(e['context'])
    return {'form': form, 'api': api, 'be': be, 'st': o['st'], 'items': D.digest([hitem(x) for x in o['items']]), 'err': e,
            'raw_err': o['err']}


def offsets(text, tail_enc):
    """abstraction of the document: offending units with their offset in every form, as each back-end counts them"""
    def upos(form, i, be):
        enc = D.ENC[form]
        if enc is None:
            return i if be == 'py' else len(text[:i].encode('utf-8', 'surrogatepass'))   # the binding re-encodes to UTF-8
        return len(D.BOM.get(form, b'')) + len(text[:i].encode(enc, 'surrogatepass'))
    defects = []
    m = D.NONPRINTABLE.search(text)
    if m:
        i = m.start()
        defects.append({'kind': 'unprintable', 'cidx': i, 'ppos': {f: i + (1 if f in D.BOM else 0) for f in D.FORMS},
                        'cpos': {f: upos(f, i, 'c') for f in D.FORMS}})
    if tail_enc is not None:
        i = len(text)
        b = {f: (upos(f, i, 'c') if D.ENC[f] == tail_enc else -1) for f in D.FORMS}
        defects.append({'kind': 'undecodable', 'cidx': i, 'ppos': b, 'cpos': b})
    return defects


def pipe_trace_set(yaml, text, tails, deliveries, meta_sym=()):
    """text: the decodable characters of the document; tails: {} or {encoding: bytes that follow them, beginning with an
    undecodable piece}; deliveries: list of (form, schedule).  One trace per (back-end, API): the in-memory delivery (str, or
    the bytes object when the document is not decodable) against all others."""
    def raw(form):
        enc = D.ENC[form]
        if enc is None:
            return text
        return D.BOM.get(form, b'') + text.encode(enc, 'surrogatepass') + tails.get(enc, b'')
    breaks, boms = D.line_structure(text)
    traces = []
    groups = {}
    for form, sched in deliveries:
        enc = D.ENC[form]
        g = enc if tails else 'all'
        if tails and enc not in tails:
            continue
        groups.setdefault(g, []).append((form, sched))
    for g, dels in groups.items():
        defects = offsets(text, g if tails else None)
        ref_form = 'str' if not tails else {'utf-8': 'b8', 'utf-16-le': 'b16le', 'utf-16-be': 'b16be'}[g]
        for be in ('py', 'c'):
            for api in D.APIS:
                ref = outcome(yaml, api, be, raw(ref_form), ref_form)
                seen, outs = {}, []
                for form, sched in dels:
                    data = raw(form)
                    src = D.ScriptedStream(data, sched) if form in D.STREAM else data
                    o = outcome(yaml, api, be, src, form)
                    k = json.dumps([o['st'], o['items'], o['err'], form if o['err']['rd'] else ''], sort_keys=True)
                    if k in seen:
                        seen[k]['n'] += 1
                        continue
                    o['n'] = 1
                    o['sched'] = list(sched[:16])
                    seen[k] = o
                    outs.append(o)
                traces.append({'kind': 'pipe', 'form': 'str', 'sym': [], 'breaks': breaks, 'boms': boms, 'exact': not tails,
                               'defects': defects, 'ref': ref, 'dels': outs, 'ndel': len(dels)})
    return traces


def pipe_traces(yaml, doc, conc, deliveries):
    """the documents of the TLC run through the pipeline: characters up to the first undecodable symbol are the text,
    the rest is the tail of each encoding"""
    cut = next((i for i, s in enumerate(doc) if s in ('INV', 'TR1', 'TR2', 'ODD')), None)
    text = ''.join(conc[:cut] if cut is not None else conc)
    tails = {}
    if cut is not None:
        for enc, form in (('utf-8', 'b8'), ('utf-16-le', 'b16le'), ('utf-16-be', 'b16be')):
            if all(s not in ('TR2',) or enc == 'utf-8' for s in doc) and all(s != 'ODD' or enc != 'utf-8' for s in doc):
                _, pieces = encode_concrete(doc, conc, form)
                tails[enc] = b''.join(pieces[cut:])
    return pipe_trace_set(yaml, text, tails, deliveries)


def strip_raw(t):
    t = dict(t)
    t['ref'] = {k: v for k, v in t['ref'].items() if k != 'raw_err'}
    t['dels'] = [{k: v for k, v in o.items() if k != 'raw_err'} for o in t['dels']]
    return t


def judge_pipe(v, traces, metas, tag, stage):
    if not traces:
        return 0, 0
    verdicts, s = trace.judge('Trace_Delivery', [strip_raw(t) for t in traces], tag)
    for t, m, (ok, why, at) in zip(traces, metas, verdicts):
        if not ok:
            o = t['dels'][at - 1] if at >= 1 else t['ref']
            key = {'level': 'pipeline', 'stage': stage, 'clause': why, 'backend': o['be'], 'api': o['api']}
            if why == 'reader error is not the first offending unit':
                key['got'] = o['err']['rkind']
            v.violation(key, {'input': m, 'delivery': {k: o[k] for k in ('form', 'api', 'be', 'st', 'sched') if k in o},
                              'error': o.get('raw_err'), 'reference': {'form': t['ref']['form'], 'st': t['ref']['st'],
                                                                       'error': t['ref'].get('raw_err')},
                              'defects': t['defects']})
    return len(traces), s


# ------------------------------------------------------------------------------------------------ main
def main(tier, replay=None):
    v = Verdict('C07', tier)
    yaml = use_repo()
    fixed = code_is_printable_first(yaml)
    q = tier == 'quick'
    states = trans = 0
    mc = 'MC_Reader_strict.cfg' if fixed else 'MC_Reader.cfg'
    # (a) design check: L => H, and the MBT configurations, all runs sharing the cores
    dc = design_configs(tier, fixed)
    mcs = mbt_configs(tier, fixed)
    jobs = [(n, dict(cfg=mc, constants=c, tag='C07_' + n, timeout=3000, heap='5g')) for n, c in dc]
    if not fixed:       # the strict clause against the repaired model: evidence that H_Error is satisfiable by a small repair
        jobs.append(('repair', dict(cfg='MC_Reader_strict.cfg', constants=cfg(A_ERRORS, 3, fixed=True), tag='C07_repair',
                                    timeout=3000, heap='4g')))
    jobs += [(n, dict(cfg=mc, constants=c, tag='C07_' + n, timeout=3000, heap='5g', coverage=False)) for n, c in mcs]
    res = run_parallel(jobs, workers=3 if q else 4)
    fired = {}
    for n, _kw in jobs:
        r = res[n]
        if r.violated:
            print(r.out[-3000:])
            raise SystemExit('machinery failure: Reader.tla violates %s in configuration %s (L => H fails in the model)' % (r.violated, n))
        tlc.require_ok(r, 'Reader/' + n)
        states += r.distinct
        trans += r.generated
        for a, cnt in r.actions.items():
            fired[a] = fired.get(a, 0) + cnt[1]
    unfired = [a for a in ACTIONS if not fired.get(a)]
    if unfired:
        raise SystemExit('machinery failure: Reader.tla actions never taken: %s' % unfired)
    # (b) replay of every complete behaviour of the MBT configurations
    lines = []
    for n, _c in mcs:
        ls = parse_triples(res[n].out)
        if not ls:
            raise SystemExit('machinery failure: no behaviours exported by configuration %s' % n)
        lines += ls
    groups = {}
    for ln in lines:
        m = _head.match(ln)
        groups.setdefault(m.group(3), []).append(ln)
    glist = [groups[k] for k in sorted(groups)]
    nchunks = 64
    chunks = [glist[i::nchunks] for i in range(nchunks)]
    with mp.Pool(16) as pool:
        outs = pool.map(replay_work, [(c, SEED, 2 if q else 3) for c in chunks if c], chunksize=1)
    n = sum(o['n'] for o in outs)
    if n != len(lines):
        raise SystemExit('machinery failure: replayed %d behaviours, TLC exported %d' % (n, len(lines)))
    runs = sum(o['runs'] for o in outs)
    kinds = {}
    for o in outs:
        for k, c in o['kinds'].items():
            kinds[k] = kinds.get(k, 0) + c
        for b in o['bad']:
            v.violation(b['key'], b['detail'])
    drift = sum(o['drift'] for o in outs)
    if drift:
        v.note('spec-drift C07/reader: %d replays where internal values (read() calls, stream_pointer, error chosen) differ '
               'from Reader.tla although H holds, e.g. %s' % (drift, [d for o in outs for d in o['drift_ex']][:2]))
    ptraces = [t for o in outs for t in o['traces']]
    pmeta = [m for o in outs for m in o['meta']]
    npipe, s2 = judge_pipe(v, ptraces, pmeta, 'C07_pipe', 'tlc-triples')
    states += s2
    deliveries = sum(t['ndel'] + 1 for t in ptraces)
    v.cov = {'states': states, 'transitions': trans, 'exhaustive': True,
             'traces_validated_against_impl': runs + deliveries,
             'reader_behaviours_replayed': len(lines), 'reader_replays': runs, 'model_outcomes': kinds,
             'pipeline_traces_judged': npipe, 'pipeline_deliveries': deliveries,
             'distinct_nontrivial': sum(o['nontrivial'] for o in outs),
             'rule': 'non-trivial = behaviour with more than two read() calls over a document with a multi-unit character, '
                     'CR, NEL or BOM',
             'actions_fired': fired, 'code_variant': 'printable-first' if fixed else 'as pinned',
             'samples': [s for o in outs for s in o['samples']][:4],
             'configs': {n: c for n, c in dc + mcs}}
    v.assumptions = ['documents do not begin with U+FEFF; index is not compared when a byte order mark is present',
                     'one abstract code unit = one byte (one character for text streams); Block = 4 (3) units in the model',
                     'the codecs are CPython\'s; their contract is the operator Dec of Reader.tla']
    return v.finish()
