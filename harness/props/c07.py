"""C07 - the result does not depend on how the input is delivered.

spec/DeliveryIndep.tla (H): what the code units of a document are in each delivery form, the characters the consumer must
see (Doc ++ NUL), Pos(Doc, i) by counting breaks, the first offending unit and the error it deserves.
spec/Reader.tla (L): reader.py as a state machine; the environment chooses document, form, read-size schedule, consumer.

 (a) design check  L => H  for every document up to the bound x every form x every schedule x a free consumer
     (three focus alphabets: widths, breaks, errors), plus the repaired model against the strict error clause;
 (b) spec -> code: the History configuration prints every complete behaviour (document, form, schedule, consumer program)
     with the H tables (characters, Pos table, expected error); each is concretised and replayed into a real
     yaml.reader.Reader through a scripted stream, calling peek/prefix/forward as the behaviour does, and
     (char, index, line, column, error) are compared with the tables; the same triples go through scan / parse /
     compose_all / load_all of both back-ends and are judged by TLC (Trace_Delivery.tla) against the in-memory delivery;
 (c) code -> spec: corpus documents (tests/legacy_tests/data), mutated and padded beyond three real blocks, in every
     form under seeded read-size schedules with splits forced at refill boundaries, inside multi-byte sequences, inside
     surrogate pairs and between CR and LF; reader-level and pipeline-level observations judged by TLC (Trace_Delivery).
"""
import glob, json, os, random, re, threading, multiprocessing as mp
from .. import tlc, tlaval, trace
from ..common import Verdict, use_repo, REPO, SEED
from ..drivers import delivery as D

ALL_FORMS = D.FORMS
A_WIDTHS = ['A', 'B2', 'B3', 'B4', 'LF']
A_BREAKS = ['A', 'CR', 'LF', 'NEL', 'LS', 'BOM']
A_ERRORS = ['A', 'B3', 'NP1', 'NP3', 'INV', 'TR1', 'TR2', 'ODD']


def tla_set(xs):
    return '{' + ', '.join('"%s"' % x for x in xs) + '}'


def cfg(alphabet, maxdoc, forms=ALL_FORMS, programs=('any',), history=False, fixed=False, peek=2, prefix=3, fwd=2, maxbad=2,
        block=4):
    return {'Alphabet': tla_set(alphabet), 'MaxDoc': maxdoc, 'FormsC': tla_set(forms), 'Programs': tla_set(programs),
            'History': 'TRUE' if history else 'FALSE', 'PrintableFirst': 'TRUE' if fixed else 'FALSE',
            'MaxPeek': peek, 'MaxPrefix': prefix, 'MaxFwd': fwd, 'MaxBad': maxbad, 'Block': block}


def design_configs(tier, fixed):
    q = tier == 'quick'
    n = 3 if q else 4
    return [
        ('widths', cfg(A_WIDTHS, n, forms=['s8', 's8bom', 's16le', 's16be', 'text', 'b8', 'b16be'], fixed=fixed)),
        ('breaks', cfg(A_BREAKS, n, forms=['str', 'text', 's8', 's16le', 'b8bom', 'b16le'], fixed=fixed,
                       peek=2 if q else 2, prefix=3 if q else 3)),
        ('errors', cfg(A_ERRORS, n, fixed=fixed)),
    ] + ([] if q else [('block3', cfg(['A', 'B3', 'B4', 'CR', 'LF', 'NP1', 'INV', 'TR2'], 3, block=3, fixed=fixed)),
                       ('long', cfg(['A', 'B4', 'CR', 'LF'], 6, forms=['s8', 's16le', 'text'], programs=['p11', 'x22'],
                                    fixed=fixed))])


def mbt_configs(tier, fixed):
    q = tier == 'quick'
    streams = ['text', 's8', 's8bom', 's16le', 's16be']
    eager = ['str', 'b8', 'b8bom', 'b16le', 'b16be']
    return [
        ('m-widths', cfg(['A', 'B3', 'B4', 'CR', 'LF'], 3 if q else 4, forms=streams + eager, programs=['p11', 'x22'] if q else ['p11', 'x22', 'p32'],
                         history=True, fixed=fixed)),
        ('m-breaks', cfg(['A', 'CR', 'LF', 'NEL', 'BOM'], 3 if q else 4, forms=['text', 's8', 's16be', 'str'], programs=['p21', 'x33'],
                         history=True, fixed=fixed)),
        ('m-errors', cfg(['A', 'B2', 'NP1', 'NP3', 'INV', 'TR1', 'TR2', 'ODD'], 3, forms=streams + eager,
                         programs=['p11', 'x33'] if q else ['p11', 'x33', 'p21'], history=True, fixed=fixed)),
    ]


ACTIONS = ['Reveal', 'Close', 'Construct', 'DetermineEncoding', 'UpdateRaw', 'UpdateLoop', 'Decode', 'Peek', 'Prefix',
           'Forward', 'Complete', 'ForwardStep', 'Finish']


def run_parallel(jobs, workers):
    """jobs: list of (name, kwargs for tlc.run) -> {name: result}; the runs share the cores"""
    out = {}

    def one(name, kw):
        out[name] = tlc.run('Reader', cfg='MC_Reader.cfg', workers=workers, **kw)
    th = [threading.Thread(target=one, args=j) for j in jobs]
    for t in th:
        t.start()
    for t in th:
        t.join()
    return out


# ------------------------------------------------------------------------------------------------ probe: which variant of update()
def code_is_printable_first(yaml):
    """L follows the code: does update() report a non-printable character that precedes an undecodable byte of the same
    decode batch?  (decides which variant of Decode is model-checked against the weak / strict clause; no verdict here)"""
    try:
        yaml.reader.Reader(b'a\x01b\xff')
    except yaml.reader.ReaderError as e:
        return e.position == 1
    except Exception:
        pass
    return False


# ------------------------------------------------------------------------------------------------ (b) replay of TLC behaviours
_triple = re.compile(r'^"TRIPLE (.*)"$')


def parse_triples(out):
    res = []
    for line in out.splitlines():
        m = _triple.match(line)
        if m:
            res.append(m.group(1).replace('\\"', '"'))
    return res


def expected_obs(prog, text, hpos):
    """the observations H demands of the consumer program `prog` on the character sequence `text` (T of the spec, made
    concrete) with TLC's Pos table: the program is run against the ideal character sequence"""
    kind, look, step = D.PROGRAMS[prog]
    ahead, idx, out = '', 0, []
    while True:
        looking = len(ahead) < look and '\0' not in ahead
        if looking:
            if kind == 'p':
                i = len(ahead)
                if idx + i >= len(text):
                    return out, 'open'
                out.append(('peek', i, text[idx + i]))
                ahead += text[idx + i]
            else:
                s = text[idx:idx + look]
                if len(s) < look and not s.endswith('\0'):
                    return out, 'open'
                out.append(('prefix', look, s))
                ahead = s
        else:
            good = ahead.index('\0') if '\0' in ahead else len(ahead)
            if good == 0:
                return out, 'end'
            l = min(step, good)
            idx += l
            if idx >= len(hpos) or not hpos[idx]:
                return out, 'open'
            out.append(('forward', l, idx, hpos[idx][0], hpos[idx][1]))
            ahead = ahead[l:]


def replay_work(args):
    lines, seed, nconc, want_pipe = args
    yaml = use_repo()
    from yaml.reader import Reader, ReaderError
    rnd = random.Random(seed)
    res = {'n': 0, 'runs': 0, 'bad': [], 'drift': 0, 'drift_ex': [], 'pipe': [], 'samples': [], 'nontrivial': 0, 'kinds': {}}
    for ln in lines:
        form, prog, doc, calls, pc, T, hpos, einfo, lfin = tlaval.parse(ln)
        res['n'] += 1
        res['kinds'][pc] = res['kinds'].get(pc, 0) + 1
        if len(calls) > 2 or any(s in ('B2', 'B3', 'B4', 'CR', 'BOM', 'NEL') for s in doc):
            res['nontrivial'] += 1
        for c in range(nconc):
            data, pieces = D.concretise(doc, form, rnd, syntax=(c % 2 == 1))
            # the characters of T, concrete: byte order mark, the good prefix of the document, NUL if T has it
            enc = D.ENC[form]
            ngood = len(T) - (1 if form in D.BOM else 0) - (1 if T and T[-1] == 'NUL' else 0)
            good = [p if enc is None else p.decode(enc) for p in pieces[:ngood]]
            text = ('﻿' if form in D.BOM else '') + ''.join(good) + ('\0' if T and T[-1] == 'NUL' else '')
            want, wend = expected_obs(prog, text, hpos)
            src = D.ScriptedStream(data, calls) if form in D.STREAM else data
            got, rerr, exc = [], None, None
            r = None
            try:
                r = Reader(src)
                got = D.drive(r, prog)
            except ReaderError as e:
                rerr = ('unprintable' if e.encoding == 'unicode' else 'undecodable', e.position)
                if r is not None:
                    pass
            except Exception as e:
                exc = type(e).__name__
            res['runs'] += 1
            case = {'form': form, 'prog': prog, 'doc': doc, 'schedule': calls, 'data': repr(data), 'model_end': pc}
            # H verdicts
            why = None
            if exc:
                why = ('crash', 'non-YAML exception %s' % exc)
            else:
                k = min(len(got), len(want))
                if got[:k] != want[:k]:
                    j = next(i for i in range(k) if got[i] != want[i])
                    why = ('position' if got[j][0] == 'forward' else 'char',
                           'call %d: got %r, the document demands %r' % (j, got[j], want[j]))
                elif len(got) > len(want):
                    why = ('char', 'the reader delivered %r beyond the document %r' % (got[len(want)], text))
                elif pc == 'error':
                    hk, hp = einfo[0], einfo[1]
                    if rerr is None:
                        why = ('error-missing', 'offending unit %s at %d not reported' % (hk, hp))
                    elif rerr != (hk, hp):
                        offs = [(o['kind'], o['pos']) for o in tlaval.setval(einfo[4])]
                        why = ('error-not-first' if rerr in offs else 'error-offset',
                               'ReaderError %r, first offending unit is %r' % (rerr, (hk, hp)))
                        case['got'], case['want'] = rerr[0], hk
                else:
                    if rerr is not None:
                        why = ('error-spurious', 'ReaderError %r on a document without offending unit' % (rerr,))
                    elif len(got) < len(want):
                        why = ('char', 'the consumer stopped early: %d of %d calls' % (len(got), len(want)))
            if why:
                res['bad'].append({'key': {'level': 'reader', 'clause': why[0], 'backend': 'py',
                                           'got': case.get('got', ''), 'want': case.get('want', '')},
                                   'detail': dict(case, why=why[1])})
            # L drift probes (internal attributes, never a verdict)
            if why is None and form in D.STREAM:
                lerr = (einfo[2], einfo[3]) if pc == 'error' else None
                sp = getattr(r, 'stream_pointer', None) if r is not None else None
                if (rerr is not None and lerr is not None and rerr != lerr) or src.extra or src.k != len(calls) or \
                        (sp is not None and pc == 'end' and sp != lfin[0]):
                    res['drift'] += 1
                    if len(res['drift_ex']) < 3:
                        res['drift_ex'].append(dict(case, real_reads=src.k, model_reads=len(calls), real_err=rerr, model_err=lerr))
            if len(res['samples']) < 1 and pc == 'error' and len(calls) > 2:
                res['samples'].append(dict(case, error=rerr))
            if want_pipe:
                res['pipe'].append((doc, form, calls, c))
    return res


# ------------------------------------------------------------------------------------------------ pipeline observations
def hitem(s):
    import hashlib
    return hashlib.sha1(s.encode('utf-8', 'surrogatepass')).hexdigest()[:12]


NOERR = {'cls': '', 'problem': '', 'context': '', 'pl': -1, 'pc': -1, 'cl': -1, 'cc': -1, 'pi': -1, 'rd': False, 'rkind': '', 'rpos': -1}


def outcome(yaml, api, be, src, form, bomchars):
    o = D.run_api(yaml, api, be, src)
    e = dict(NOERR)
    if o['err']:
        e.update({k: v for k, v in o['err'].items() if k in NOERR})
        if be == 'py' and e['pi'] >= 0:
            e['pi'] -= bomchars            # index is excluded when a BOM is present (5.0): normalised to the document
        e['problem'] = hitem(e['problem'])
        e['context'] = hitem(e['context'])
    return {'form': form, 'api': api, 'be': be, 'st': o['st'], 'items': D.digest([hitem(x) for x in o['items']]), 'err': e}


def defects_of(units, text_ok):
    """abstraction of a concrete input: offending units with their offsets in every form.
    units: list of (piece, is_char) in document order, piece = str (a character) or bytes (an undecodable piece of the
    form's encoding; such documents exist in one encoding only)."""
    raise NotImplementedError


def pipe_trace(yaml, text, bad_at, deliveries, exact=True):
    """text: the decodable document (str); bad_at: None or (char index, bytes piece, encoding) for an undecodable piece
    inserted before text[char index] (then only forms of that encoding are delivered).
    deliveries: list of (form, schedule or None).  Returns the trace for Trace_Delivery.tla."""
    forms = sorted({f for f, _ in deliveries})

    def raw(form):
        if bad_at is None:
            return D.encode_form(text, form)
        i, piece, enc = bad_at
        return D.BOM.get(form, b'') + text[:i].encode(enc, 'surrogatepass') + piece + text[i:].encode(enc, 'surrogatepass')

    def upos(form, i, be):
        """offset of character i of the document in units of the form, as back-end `be` counts them"""
        enc = D.ENC[form]
        if be == 'py' and (enc is None):
            return i
        if enc is None:
            return len(text[:i].encode('utf-8', 'surrogatepass'))           # the binding re-encodes str input to UTF-8
        return len(D.BOM.get(form, b'')) + len(text[:i].encode(enc, 'surrogatepass'))
    defects = []
    m = D.NONPRINTABLE.search(text)
    if m:
        i = m.start()
        defects.append({'kind': 'unprintable', 'cidx': i,
                        'ppos': {f: (i + (1 if f in D.BOM else 0)) for f in D.FORMS},
                        'cpos': {f: upos(f, i, 'c') for f in D.FORMS}})
    if bad_at is not None:
        i = bad_at[0]
        defects.append({'kind': 'undecodable', 'cidx': i, 'ppos': {f: upos(f, i, 'c') if D.ENC[f] else -1 for f in D.FORMS},
                        'cpos': {f: upos(f, i, 'c') if D.ENC[f] else -1 for f in D.FORMS}})
        if m and m.start() >= i:
            defects = defects[1:]           # characters after the undecodable piece are not characters of the document
    breaks, boms = D.line_structure(text)
    sym = []
    traces = []
    for be in ('py', 'c'):
        for api in D.APIS:
            ref_form = 'str' if bad_at is None else {'utf-8': 'b8', 'utf-16-le': 'b16le', 'utf-16-be': 'b16be'}[bad_at[2]]
            if bad_at is not None and ref_form not in forms:
                ref_form = [f for f in forms if f not in D.STREAM][0]
            ref = outcome(yaml, api, be, raw(ref_form), ref_form, 1 if ref_form in D.BOM else 0)
            seen, dels = {}, []
            for form, sched in deliveries:
                data = raw(form)
                src = D.ScriptedStream(data, sched) if form in D.STREAM else data
                o = outcome(yaml, api, be, src, form, 1 if form in D.BOM else 0)
                k = json.dumps([o['st'], o['items'], o['err'], form if o['err']['rd'] else ''], sort_keys=True)
                if k in seen:
                    seen[k]['n'] += 1
                    continue
                o['n'] = 1
                o['sched'] = list(sched[:12]) if sched else []
                seen[k] = o
                dels.append(o)
            traces.append({'kind': 'pipe', 'form': 'str', 'sym': sym, 'breaks': breaks, 'boms': boms, 'exact': exact,
                           'defects': defects, 'ref': ref, 'dels': dels})
    return traces


def pipe_work(args):
    items, seed = args
    yaml = use_repo()
    rnd = random.Random(seed)
    out = []
    for doc, form, calls, c in items:
        # one concretisation of the document for all forms: decodable documents only (bad units are reader-level)
        out.append(None)
    return out


# ------------------------------------------------------------------------------------------------ main
def main(tier, replay=None):
    v = Verdict('C07', tier)
    yaml = use_repo()
    fixed = code_is_printable_first(yaml)
    q = tier == 'quick'
    states = trans = 0
    # (a) design check: L => H
    dc = design_configs(tier, fixed)
    jobs = [(n, dict(constants=c, tag='C07_' + n, timeout=1500 if q else 3000, heap='6g')) for n, c in dc]
    inv = 'H_Error' if fixed else 'H_ErrorWeak'
    for n, kw in jobs:
        kw['constants'] = dict(kw['constants'])
    res = run_parallel([(n, dict(kw, extra=())) for n, kw in jobs], workers=max(2, 16 // len(jobs)))
    fired = {}
    for n, _ in dc:
        r = res[n]
        if r.violated:
            print(r.out[-3000:])
            raise SystemExit('machinery failure: Reader.tla violates %s in configuration %s (L => H fails in the model)' % (r.violated, n))
        tlc.require_ok(r, 'Reader/' + n)
        states += r.distinct
        trans += r.generated
        for a, cnt in r.actions.items():
            fired[a] = fired.get(a, 0) + cnt[1]
    unfired = [a for a in ACTIONS if not fired.get(a)]
    if unfired:
        raise SystemExit('machinery failure: Reader.tla actions never taken: %s' % unfired)
    v.cov = {'states': states, 'transitions': trans}
    return v.finish()
