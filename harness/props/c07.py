"""C07 - the result does not depend on how the input is delivered.

spec/DeliveryIndep.tla (H): what the code units of a document are in each delivery form, the characters the consumer must
see (Doc ++ NUL), Pos(Doc, i) by counting breaks, the first offending unit and the error it deserves.
spec/Reader.tla (L): reader.py as a state machine; the environment chooses document, form, read-size schedule, consumer.

 (a) design check  L => H  for every document up to the bound x every form x every schedule x a free consumer
     (three focus alphabets: widths, breaks, errors), plus the repaired model against the strict error clause;
 (b) spec -> code: the History configuration prints every complete behaviour (document, form, schedule, consumer program)
     with the H tables (characters, Pos table, expected error); each is concretised and replayed into a real
     yaml.reader.Reader through a scripted stream, calling peek/prefix/forward as the behaviour does, and
     (char, index, line, column, error) are compared with the tables; the same triples go through scan / parse /
     compose_all / load_all of both back-ends and are judged by TLC (Trace_Delivery.tla) against the in-memory delivery;
 (c) code -> spec: corpus documents (tests/legacy_tests/data), mutated and padded beyond three real blocks, in every
     form under seeded read-size schedules with splits forced at refill boundaries, inside multi-byte sequences, inside
     surrogate pairs and between CR and LF; reader-level and pipeline-level observations judged by TLC (Trace_Delivery).
"""
import glob, hashlib, json, os, random, re, threading, time, zlib, multiprocessing as mp
from .. import tlc, tlaval, trace
from ..common import Verdict, use_repo, REPO, SEED
from ..drivers import delivery as D

ALL_FORMS = D.FORMS
STREAMS = ['text', 's8', 's8bom', 's16le', 's16be']
EAGER = ['str', 'b8', 'b8bom', 'b16le', 'b16be']
A_WIDTHS = ['A', 'B2', 'B3', 'B4', 'LF']
A_BREAKS = ['A', 'CR', 'LF', 'NEL', 'LS', 'BOM']
A_ERRORS = ['A', 'B3', 'NP1', 'NP3', 'INV', 'TR1', 'TR2', 'ODD']
BOMCH = '\ufeff'


def tla_set(xs):
    return '{' + ', '.join('"%s"' % x for x in xs) + '}'


def cfg(alphabet, maxdoc, forms=ALL_FORMS, programs=('any',), history=False, fixed=False, peek=2, prefix=3, fwd=2, maxbad=2,
        block=4):
    if 'any' not in programs:                 # scripted consumers need the bounds of their own calls
        peek, prefix, fwd = 3, 4, 3
    return {'Alphabet': tla_set(alphabet), 'MaxDoc': maxdoc, 'FormsC': tla_set(forms), 'Programs': tla_set(programs),
            'History': 'TRUE' if history else 'FALSE', 'PrintableFirst': 'TRUE' if fixed else 'FALSE',
            'MaxPeek': peek, 'MaxPrefix': prefix, 'MaxFwd': fwd, 'MaxBad': maxbad, 'Block': block}


def design_configs(tier, fixed):
    q = tier == 'quick'
    n = 3 if q else 4
    out = [
        ('widths', cfg(A_WIDTHS, n, forms=['s8', 's8bom', 's16le', 'text', 'b16be'] if q else ['s8', 's8bom', 's16le', 's16be', 'text', 'b16be', 'b8'], fixed=fixed,
                       peek=1 if q else 2, prefix=2 if q else 3)),
        ('breaks', cfg(A_BREAKS, n, forms=['str', 'text', 's8', 's16le'] if q else ['str', 'text', 's8', 's16le', 'b8bom'], fixed=fixed,
                       peek=1 if q else 2, prefix=2 if q else 3)),
        ('errors', cfg(A_ERRORS, n, forms=['str', 'b8', 'b16le', 'text', 's8', 's8bom', 's16le', 's16be'] if q else ALL_FORMS, fixed=fixed)),
    ]
    if not q:
        out += [('block3', cfg(['A', 'B3', 'B4', 'CR', 'LF', 'NP1', 'INV', 'TR2'], 3, block=3, fixed=fixed)),
                ('long', cfg(['A', 'B4', 'CR', 'LF'], 5, forms=['s8', 's16le', 'text'], programs=['p11', 'x22'], fixed=fixed))]
    return out


def mbt_configs(tier, fixed):
    """History configurations: every complete behaviour is exported and replayed"""
    q = tier == 'quick'
    h = dict(history=True, fixed=fixed)
    out = [
        ('m-w8', cfg(['A', 'B3', 'B4', 'CR', 'LF'], 3, forms=['s8', 'text', 'str', 'b8'], programs=['p11'], **h)),
        ('m-w16', cfg(['A', 'B4', 'CR', 'LF'], 2, forms=['s16le', 's16be', 'b16le', 'b16be'], programs=['p11', 'x22'], **h)),
        ('m-br', cfg(['A', 'CR', 'LF', 'NEL', 'BOM'], 3, forms=['text', 's8', 'str'], programs=['p21', 'x33'], **h)),
        ('m-br16', cfg(['A', 'CR', 'LF', 'NEL', 'BOM'], 2, forms=['s16be'], programs=['x33', 'p11'], **h)),
        ('m-er8', cfg(['A', 'B2', 'NP1', 'NP3', 'INV', 'TR1', 'TR2'], 3, forms=['s8', 's8bom', 'b8', 'text', 'str'], programs=['p11'], **h)),
        ('m-er16', cfg(['A', 'B4', 'NP1', 'INV', 'TR1', 'ODD'], 2, forms=['s16le', 's16be', 'b16le'], programs=['p11', 'x33'], **h)),
    ]
    if not q:
        out += [
            ('m-w8x', cfg(['A', 'B3', 'B4', 'CR', 'LF'], 2, forms=['s8bom', 's8', 'text'], programs=['x22', 'p32'], **h)),
            ('m-w8t', cfg(['A', 'B2', 'B4', 'LS', 'LF'], 3, forms=['s8bom', 'b8bom'], programs=['p32'], **h)),
            ('m-w16t', cfg(['A', 'B4', 'CR', 'LF'], 3, forms=['s16le'], programs=['p11'], **h)),
            ('m-er8t', cfg(['A', 'B3', 'NP1', 'NP2', 'INV', 'TR2'], 3, forms=['s8', 's8bom', 'b8bom'], programs=['x33', 'p21'], **h)),
            ('m-b3', cfg(['A', 'B3', 'CR', 'LF', 'INV'], 3, forms=['s8', 'text', 's16be'], programs=['p11'], block=3, **h)),
        ]
    return out


ACTIONS = ['Reveal', 'Close', 'Construct', 'DetermineEncoding', 'UpdateRaw', 'UpdateLoop', 'Decode', 'Peek', 'Prefix',
           'Forward', 'Complete', 'ForwardStep', 'Finish']


def run_parallel(jobs, workers, concurrent):
    """jobs: list of (name, kwargs for tlc.run) -> {name: result}; the runs share the cores"""
    out = {}
    sem = threading.Semaphore(concurrent)

    def one(name, kw):
        with sem:
            out[name] = tlc.run('Reader', workers=kw.pop('workers', workers), **kw)
    th = [threading.Thread(target=one, args=j) for j in jobs]
    for t in th:
        t.start()
    for t in th:
        t.join()
    return out


def code_is_printable_first(yaml):
    """L follows the code: does update() report a non-printable character that precedes an undecodable byte of the same
    decode batch?  Decides which variant of Decode is model-checked (no verdict here)."""
    try:
        yaml.reader.Reader(b'a\x01b\xff')
    except yaml.reader.ReaderError as e:
        return e.position == 1
    except Exception:
        pass
    return False


# ------------------------------------------------------------------------------------------------ (b) replay of TLC behaviours
_triple = re.compile(r'^"TRIPLE (.*)"$')
_head = re.compile(r'^<<"(\w+)", "(\w+)", (<<.*?>>), ')


def parse_triples(out):
    res = []
    for line in out.splitlines():
        m = _triple.match(line)
        if m:
            res.append(m.group(1).replace('\\"', '"'))
    return res


def expected_obs(prog, text, hpos):
    """the observations H demands of the consumer program `prog`: the program run against the characters `text` (T of the
    spec, made concrete) and TLC's Pos table"""
    kind, look, step = D.PROGRAMS[prog]
    ahead, idx, out = '', 0, []
    while True:
        looking = len(ahead) < look and '\0' not in ahead
        if looking:
            if kind == 'p':
                i = len(ahead)
                if idx + i >= len(text):
                    return out
                out.append(('peek', i, text[idx + i]))
                ahead += text[idx + i]
            else:
                s = text[idx:idx + look]
                if len(s) < look and not s.endswith('\0'):
                    return out
                out.append(('prefix', look, s))
                ahead = s
        else:
            good = ahead.index('\0') if '\0' in ahead else len(ahead)
            if good == 0:
                return out
            l = min(step, good)
            idx += l
            if idx >= len(hpos) or not hpos[idx]:
                return out
            out.append(('forward', l, idx, hpos[idx][0], hpos[idx][1]))
            ahead = ahead[l:]


def doc_rnd(seed, doc, c):
    return random.Random('%d/%s/%d' % (seed, ','.join(doc), c))


def concretise_doc(doc, rnd, syntax):
    """one concrete choice per symbol, valid for every form: characters for character symbols; for the undecodable
    symbols a choice index resolved per encoding"""
    out = []
    for s in doc:
        if s in D.POOL:
            pool = D.POOL[s] + (D.SYNTAX_A if (s == 'A' and syntax) else [])
            out.append(rnd.choice(pool))
        else:
            out.append((s, rnd.randrange(1 << 16)))
    return out


def encode_concrete(doc, conc, form):
    """-> (data, list of pieces) in the form; every abstract unit is one real unit"""
    enc = D.ENC[form]
    pieces, prev = [], None
    for s, ch in zip(doc, conc):
        if isinstance(ch, str):
            pieces.append(ch if enc is None else ch.encode(enc))
        elif enc == 'utf-8':
            cand = D.BAD8[s]
            if s == 'INV' and prev in ('TR1', 'TR2'):
                cand = [x for x in cand if not 0x80 <= x[0] <= 0xbf]    # a continuation byte would complete the sequence
            if s == 'INV' and prev == 'INV' and len(pieces) == 1:
                cand = [x for x in cand if x not in (b'\xff', b'\xfe')]    # FF FE / FE FF at the start IS a UTF-16 BOM
            pieces.append(cand[ch[1] % len(cand)])
        elif s == 'ODD':
            pieces.append([b'a', b'\xd8', b'\x00'][ch[1] % 3])
        else:
            cand = D.BAD16[s]
            pieces.append(cand[ch[1] % len(cand)].encode(enc, 'surrogatepass'))
        prev = s
    if enc is None:
        return ''.join(pieces), pieces
    return D.BOM.get(form, b'') + b''.join(pieces), pieces


def replay_work(args):
    groups, seed, nconc, maxsched = args
    yaml = use_repo()
    from yaml.reader import Reader, ReaderError
    res = {'n': 0, 'runs': 0, 'bad': [], 'drift': 0, 'drift_ex': [], 'traces': [], 'meta': [], 'samples': [], 'nontrivial': 0,
           'kinds': {}}
    for lines in groups:
        parsed = [tlaval.parse(ln) for ln in lines]
        doc = parsed[0][2]
        errs = {}
        for c in range(nconc):
            conc = concretise_doc(doc, doc_rnd(seed, doc, c), syntax=((zlib.crc32(','.join(doc).encode()) + c) % 2 == 1))
            for form, prog, _doc, calls, pc, T, hpos, einfo, lfin in parsed:
                if c == 0:
                    res['n'] += 1
                    res['kinds'][pc] = res['kinds'].get(pc, 0) + 1
                    if len(calls) > 2 and any(s not in ('A', 'LF') for s in doc):
                        res['nontrivial'] += 1
                data, pieces = encode_concrete(doc, conc, form)
                enc = D.ENC[form]
                ngood = len(T) - (1 if form in D.BOM else 0) - (1 if T and T[-1] == 'NUL' else 0)
                good = [p if enc is None else p.decode(enc) for p in pieces[:ngood]]
                text = (BOMCH if form in D.BOM else '') + ''.join(good) + ('\0' if T and T[-1] == 'NUL' else '')
                want = expected_obs(prog, text, hpos)
                src = D.ScriptedStream(data, calls) if form in D.STREAM else data
                got, rerr, exc, r = [], None, None, None
                try:
                    r = Reader(src)
                    got = D.drive(r, prog)
                except ReaderError as e:
                    rerr = (D.reader_kind(e), e.position)
                except Exception as e:
                    exc = type(e).__name__
                res['runs'] += 1
                case = {'form': form, 'prog': prog, 'doc': doc, 'schedule': calls, 'data': repr(data), 'model_end': pc}
                why = None
                if exc:
                    why = ('crash', 'non-YAML exception %s' % exc)
                else:
                    k = min(len(got), len(want))
                    if got[:k] != want[:k]:
                        j = next(i for i in range(k) if got[i] != want[i])
                        why = ('position' if got[j][0] == 'forward' else 'char',
                               'call %d: got %r, the document demands %r' % (j, got[j], want[j]))
                    elif len(got) > len(want):
                        why = ('char', 'the reader delivered %r beyond the document %r' % (got[len(want)], text))
                    elif pc == 'error':
                        hk, hp, hs = einfo[0], einfo[1], einfo[2]
                        if rerr is None:
                            why = ('error-missing', 'offending unit %s at %d not reported' % (hk, hp))
                        elif not (rerr[0] == hk and hp <= rerr[1] <= hp + hs):
                            offs = [o for o in tlaval.setval(einfo[5])
                                    if o['kind'] == rerr[0] and o['pos'] <= rerr[1] <= o['pos'] + o['span']]
                            why = ('error-not-first' if offs else 'error-offset',
                                   'ReaderError %r, first offending unit is %r' % (rerr, (hk, hp)))
                            case['got'], case['want'] = rerr[0], hk
                        else:                     # inside the span: the same unit under every schedule
                            first = errs.setdefault((form, c), (rerr, calls))
                            if first[0] != rerr:
                                why = ('error-schedule-dependent', 'ReaderError %r with read sizes %r but %r with %r'
                                       % (rerr, calls, first[0], first[1]))
                    elif rerr is not None:
                        why = ('error-spurious', 'ReaderError %r on a document without offending unit' % (rerr,))
                    elif len(got) < len(want):
                        why = ('char', 'the consumer stopped early: %d of %d calls' % (len(got), len(want)))
                if why:
                    res['bad'].append({'key': {'level': 'reader', 'clause': why[0], 'backend': 'py',
                                               'got': case.get('got', ''), 'want': case.get('want', '')},
                                       'detail': dict(case, why=why[1])})
                elif form in D.STREAM:                       # L drift probes (internal attributes, never a verdict)
                    lerr = (einfo[3], einfo[4]) if pc == 'error' else None
                    sp = getattr(r, 'stream_pointer', None) if r is not None else None
                    if (rerr is not None and lerr is not None and rerr != lerr) or src.extra or src.k != len(calls) or \
                            (sp is not None and pc == 'end' and sp != lfin[0]):
                        res['drift'] += 1
                        if len(res['drift_ex']) < 2:
                            res['drift_ex'].append(dict(case, real_reads=src.k, model_reads=len(calls), real_err=rerr,
                                                        model_err=lerr, real_spos=sp, model_spos=lfin[0]))
                if len(res['samples']) < 1 and pc == 'error' and len(calls) > 2:
                    res['samples'].append(dict(case, error=rerr))
            # the same triples through the whole pipeline, judged by TLC against the in-memory delivery
            byform = {}
            for p in parsed:
                byform.setdefault(p[0], set()).add(tuple(p[3]))
            dels = []
            for f in sorted(byform):          # the schedules of each form: all of them, or a seeded sample with the extremes
                ss = sorted(byform[f])
                if len(ss) > maxsched:
                    keep = {ss[0], ss[-1], min(ss, key=len), max(ss, key=len)}
                    rs = doc_rnd(seed, doc, 1000 + c)
                    keep |= set(rs.sample(ss, maxsched - len(keep)))
                    ss = sorted(keep)
                dels += [(f, x) for x in ss]
            ts = pipe_traces(yaml, doc, conc, dels)
            res['traces'] += ts
            res['meta'] += [{'doc': doc, 'conc': repr(conc)}] * len(ts)
    return res


# ------------------------------------------------------------------------------------------------ pipeline observations
def hitem(s):
    return hashlib.sha1(s.encode('utf-8', 'surrogatepass')).hexdigest()[:12]


NOERR = {'cls': '', 'problem': '', 'context': '', 'pl': -1, 'pc': -1, 'cl': -1, 'cc': -1, 'pi': -1, 'rd': False, 'rkind': '',
         'rpos': -1}


def outcome(yaml, api, be, src, form):
    o = D.run_api(yaml, api, be, src)
    e = dict(NOERR)
    if o['err']:
        e.update({k: v for k, v in o['err'].items() if k in NOERR})
        if be == 'py' and e['pi'] >= 0 and form in D.BOM:
            e['pi'] -= 1                   # index is not compared when a BOM is present (5.0): normalised to the document
        e['problem'] = hitem(e['problem'])
        e['context'] = hitem(e['context'])
    hs = [hitem(x) for x in o['items']]
    cum, last = [], ''
    if o['st'] == 'err':                  # what was yielded before the error, as running digests (prefix comparisons)
        for x in hs:
            last = hashlib.sha1((last + x).encode()).hexdigest()[:10]
            cum.append(last)
    return {'form': form, 'api': api, 'be': be, 'st': o['st'], 'items': D.digest(hs), 'n': len(cum), 'last': last, 'cum': cum,
            'err': e, 'raw_err': o['err']}


def offsets(text, tail_enc, span=0):
    """abstraction of the document: offending units with their offset in every form, as each back-end counts them"""
    def upos(form, i, be):
        enc = D.ENC[form]
        if enc is None:
            return i if be == 'py' else len(text[:i].encode('utf-8', 'surrogatepass'))   # the binding re-encodes to UTF-8
        return len(D.BOM.get(form, b'')) + len(text[:i].encode(enc, 'surrogatepass'))
    defects = []
    m = D.NONPRINTABLE.search(text)
    if m:
        i = m.start()
        defects.append({'kind': 'unprintable', 'cidx': i, 'span': 0, 'ppos': {f: i + (1 if f in D.BOM else 0) for f in D.FORMS},
                        'cpos': {f: upos(f, i, 'c') for f in D.FORMS}})
    if tail_enc is not None:
        i = len(text)
        b = {f: (upos(f, i, 'c') if D.ENC[f] == tail_enc else -1) for f in D.FORMS}
        defects.append({'kind': 'undecodable', 'cidx': i, 'span': span, 'ppos': b, 'cpos': b})
    return defects


def pipe_trace_set(yaml, text, tails, deliveries, spans=None, backends=('py', 'c')):
    """text: the decodable characters of the document; tails: {} or {encoding: bytes that follow them, beginning with an
    undecodable piece}; deliveries: list of (form, schedule).  One trace per (back-end, API): the in-memory delivery (str, or
    the bytes object when the document is not decodable) against all others."""
    def raw(form):
        enc = D.ENC[form]
        if enc is None:
            return text
        return D.BOM.get(form, b'') + text.encode(enc, 'surrogatepass') + tails.get(enc, b'')
    breaks, boms = D.line_structure(text)
    spans = spans or {}
    traces = []
    groups = {}
    for form, sched in deliveries:
        enc = D.ENC[form]
        g = enc if tails else 'all'
        if tails and enc not in tails:
            continue
        groups.setdefault(g, []).append((form, sched))
    for g, dels in groups.items():
        defects = offsets(text, g if tails else None, spans.get(g, 0) if tails else 0)
        ref_form = 'str' if not tails else {'utf-8': 'b8', 'utf-16-le': 'b16le', 'utf-16-be': 'b16be'}[g]
        for be in backends:
            for api in D.APIS:
                ref = outcome(yaml, api, be, raw(ref_form), ref_form)
                seen, outs = {}, []
                for form, sched in dels:
                    data = raw(form)
                    src = (D.CutStream(data, sched) if isinstance(sched, _CutSched) else D.ScriptedStream(data, sched)) \
                        if form in D.STREAM else data
                    o = outcome(yaml, api, be, src, form)
                    k = json.dumps([o['st'], o['items'], o['err'], form if o['err']['rd'] else ''], sort_keys=True)
                    if k in seen:
                        seen[k]['cnt'] += 1
                        continue
                    o['cnt'] = 1
                    o['sched'] = list(sched[:16])
                    seen[k] = o
                    outs.append(o)
                traces.append({'kind': 'pipe', 'form': 'str', 'sym': [], 'breaks': breaks, 'boms': boms, 'exact': not tails,
                               'defects': defects, 'ref': ref, 'dels': outs, 'ndel': len(dels)})
    return traces


def pipe_traces(yaml, doc, conc, deliveries):
    """the documents of the TLC run through the pipeline: characters up to the first undecodable symbol are the text,
    the rest is the tail of each encoding"""
    cut = next((i for i, s in enumerate(doc) if s in ('INV', 'TR1', 'TR2', 'ODD')), None)
    text = ''.join(conc[:cut] if cut is not None else conc)
    tails, spans = {}, {}
    if cut is not None:
        for enc, form in (('utf-8', 'b8'), ('utf-16-le', 'b16le'), ('utf-16-be', 'b16be')):
            if all(s not in ('TR2',) or enc == 'utf-8' for s in doc) and all(s != 'ODD' or enc != 'utf-8' for s in doc):
                _, pieces = encode_concrete(doc, conc, form)
                tails[enc] = b''.join(pieces[cut:])
                spans[enc] = len(pieces[cut])
    return pipe_trace_set(yaml, text, tails, deliveries, spans)


def strip_raw(t):
    t = dict(t)
    t['ref'] = {k: v for k, v in t['ref'].items() if k != 'raw_err'}
    t['dels'] = [{k: v for k, v in o.items() if k != 'raw_err'} for o in t['dels']]
    return t


def judge_pipe(v, traces, metas, tag, stage):
    if not traces:
        return 0, 0
    verdicts, s = trace.judge('Trace_Delivery', [strip_raw(t) for t in traces], tag)
    for t, m, (ok, why, at) in zip(traces, metas, verdicts):
        if not ok:
            o = t['dels'][at - 1] if at >= 1 else t['ref']
            key = {'level': 'pipeline', 'stage': stage, 'clause': why, 'backend': o['be'], 'api': o['api']}
            if why == 'reader error is not the first offence':
                key['got'] = o['err']['rkind']
            v.violation(key, {'input': m, 'delivery': {k: o[k] for k in ('form', 'api', 'be', 'st', 'sched') if k in o},
                              'error': o.get('raw_err'), 'reference': {'form': t['ref']['form'], 'st': t['ref']['st'],
                                                                       'error': t['ref'].get('raw_err')},
                              'defects': t['defects']})
    return len(traces), s


# ------------------------------------------------------------------------------------------------ (c) corpus, code -> spec
LINE_POOL = ['- key: value\n', '- "caf\xe9 \u20ac": [1, 2, \U0001F600]\r\n', '- {a: b, c: d}\r', '- \u044f\u0437\u044b\u043a # comment \U0001D11E\n',
             '- plain \xe9\xe9\xe9\xe9 text\x85', "- 'single \u4e2d\u6587'\u2028", '- |\n  literal \U0001F600\U0001F600\n  more\r\n', '- &a x\n',
             '- *a\n', '- ? k\n  : v\r\n', '-\r\n  - nested\r\n  - \U0010FFFF\n', '- "\\u00e9 \\x41"\n']


def big_document(rnd, size):
    out, n = [], 0
    while n < size:
        ln = rnd.choice(LINE_POOL)
        if ln == '- *a\n' and '- &a x\n' not in out:
            continue
        out.append(ln)
        n += len(ln)
    return ''.join(out)


def dense_document(nchars, shift):
    """few long lines of multi-byte characters: with shift 0, 1, 2 every byte offset of the UTF-8 form (every 2^k decode or
    refill block boundary, whatever the block size) lies inside a 3-byte sequence for two of the three shifts; every 50th
    character is a 2-byte or a 4-byte one (a surrogate pair in UTF-16) so that the other residues and UTF-16 pairs occur too"""
    out, n, k = ['#' + 'x' * shift + '\n'], 0, 0
    while n < nchars:
        run = ''.join('\u4e2d' if i % 50 else ('\xe9' if (i // 50) % 2 else '\U0001F600') for i in range(1, 1200))
        out.append('k%d: %s\n' % (k, run))
        n += len(out[-1])
        k += 1
    return ''.join(out)


def corpus_documents(tier, rnd):
    """(name, text, tails, spans): corpus files as they are, mutated (non-printable inserted, syntax damaged, undecodable bytes
    appended or inserted, truncated inside a sequence) and generated documents longer than three real blocks"""
    q = tier == 'quick'
    files = sorted(glob.glob(os.path.join(REPO, 'tests/legacy_tests/data/*')))
    texts = []
    for f in files:
        if f.endswith(('.code', '.py', '.pyc', '.detect')):
            continue
        b = open(f, 'rb').read()
        t = None
        for enc, bom in (('utf-16-le', b'\xff\xfe'), ('utf-16-be', b'\xfe\xff'), ('utf-8', b'\xef\xbb\xbf'), ('utf-8', b'')):
            if b.startswith(bom):
                try:
                    t = b[len(bom):].decode(enc)
                except UnicodeDecodeError:
                    t = None
                break
        if t is None or not t or t[0] == BOMCH:
            continue
        texts.append((os.path.basename(f), t))
    big = sorted(texts, key=lambda x: -len(x[1]))[:3 if q else 6]
    uni = [x for x in texts if x[0].endswith('.unicode')]
    rest = [x for x in texts if x not in big and x not in uni]
    rnd.shuffle(rest)
    chosen = big + uni + rest[:30 if q else 110]
    docs = [(n, t, {}, {}) for n, t in chosen]
    syn = ['[', ']', '{', '}', ':', '- ', '"', "'", '&a ', '*b', '\t', '%', '@', '`', '---\n', '...\n']
    for n, t in chosen[:len(chosen) if not q else 16]:
        k = rnd.randrange(len(t) + 1)
        np = rnd.choice(['\x01', '\x00', '\x7f', '\x80', '\ufffe', '\uffff', '\x9f'])
        docs.append((n + '~np', t[:k] + np + t[k:], {}, {}))
        j = rnd.randrange(len(t) + 1)
        docs.append((n + '~syn', t[:j] + rnd.choice(syn) + t[j:], {}, {}))
        # both: a syntax error and a non-printable character (several defects)
        docs.append((n + '~syn+np', t[:min(j, k)] + rnd.choice(syn) + t[min(j, k):max(j, k)] + np + t[max(j, k):], {}, {}))
        # undecodable: a bad piece at position k, then the rest of the text; per encoding
        tails, spans = {}, {}
        bad8 = rnd.choice([b'\xff', b'\xc3', b'\xe2\x82', b'\xf0\x9f\x98', b'\x80'])
        if not (bad8[0] >= 0xc0 and t[k:k + 1] and 0x80 <= t[k:].encode('utf-8', 'surrogatepass')[0] <= 0xbf):
            tails['utf-8'] = bad8 + t[k:].encode('utf-8', 'surrogatepass')
            spans['utf-8'] = len(bad8)
        for enc in ('utf-16-le', 'utf-16-be'):
            bad16 = rnd.choice(['\udc00', '\ud83d']).encode(enc, 'surrogatepass')
            rest_ = t[k:].encode(enc, 'surrogatepass')
            if bad16 == '\ud83d'.encode(enc, 'surrogatepass') and t[k:k + 1] and 0xdc00 <= ord(t[k]) <= 0xdfff:
                continue
            tails[enc] = bad16 + rest_
            spans[enc] = 2
        docs.append((n + '~bad', t[:k], tails, spans))
        # truncated at the very end, inside a sequence
        docs.append((n + '~trunc', t, {'utf-8': b'\xe2\x82', 'utf-16-le': b'\x3d', 'utf-16-be': b'\xd8\x3d'},
                     {'utf-8': 2, 'utf-16-le': 1, 'utf-16-be': 2}))
    # longer than three real blocks: 3 x 4096 for the Python reader, 3 x 16384 bytes for LibYAML's input handler
    sizes = [(13000, ('py', 'c'))] if q else [(9000, ('py', 'c')), (13000, ('py', 'c')), (17000, ('py', 'c')), (34000, ('c',))]
    for sz, bes in sizes:
        t = big_document(rnd, sz)
        k = rnd.randrange(len(t) // 2, len(t))
        docs.append(('generated-%d' % sz, t, {}, {}, bes))
        docs.append(('generated-%d~np' % sz, t[:k] + '\x01' + t[k:], {}, {}, bes))
        docs.append(('generated-%d~syn' % sz, t[:k] + ' ]\n' + t[k:], {}, {}, bes))
        docs.append(('generated-%d~bad' % sz, t[:k], {'utf-8': b'\xe2\x82' + t[k:].encode('utf-8'), 'utf-16-le': b'\x00\xdc' + t[k:].encode('utf-16-le')},
                     {'utf-8': 2, 'utf-16-le': 2}, bes))
    for sz in ([50500] if q else [50500, 70000]):
        t = big_document(rnd, sz)
        k = rnd.randrange(len(t) - 3000, len(t))
        docs.append(('generated-%d' % sz, t, {}, {}, ('c',)))
        docs.append(('generated-%d~bad' % sz, t[:k], {'utf-8': b'\xf0\x9f' + t[k:].encode('utf-8'), 'utf-16-be': b'\xdc\x00' + t[k:].encode('utf-16-be')},
                     {'utf-8': 2, 'utf-16-be': 2}, ('c',)))
        if not q:
            docs.append(('generated-%d~np' % sz, t[:k] + '\x7f' + t[k:], {}, {}, ('c',)))
    # in-memory and stream forms whose encoded length crosses 2^16 (UTF-8: 24 k characters = 72 KB; thorough also 2^17 and
    # 2^16 in UTF-16), every offset inside a character for some shift: both back-ends, every form
    for nchars in ([24000] if q else [24000, 46000]):
        for shift in (0, 1, 2):
            docs.append(('dense-%d-%d' % (nchars, shift), dense_document(nchars, shift), {}, {}, ('py', 'c')))
    return [d if len(d) == 5 else d + (('py', 'c'),) for d in docs]


def schedules_for(data, rnd, n, big):
    """cut offsets (absolute) for n deliveries of `data`: refill boundaries, inside multi-byte sequences / surrogate pairs,
    between CR and LF, fixed small pieces, random pieces"""
    ic = D.interesting_cuts(data)
    out = [[]]                                                            # full blocks
    L = len(data)
    for k in range(n - 1):
        m = k % 6
        if m == 0 and ic['multi']:
            out.append(sorted(rnd.sample(ic['multi'], min(len(ic['multi']), rnd.choice([1, 3, 40])))) + ic['refill'][:0])
        elif m == 1 and ic['crlf']:
            out.append(sorted(set(rnd.sample(ic['crlf'], min(len(ic['crlf']), 20)))))
        elif m == 2 and ic['refill']:
            base = rnd.choice([4096, 16384])
            d = rnd.choice([-1, 0, 1, 2, -2, 3])
            out.append([x for x in range(base + d, L, base) if x > 0] + rnd.sample(ic['multi'], min(len(ic['multi']), 5)))
        elif m == 3:
            c = rnd.choice([1, 2, 3, 5, 7]) if not big else rnd.choice([1000, 4095, 4097, 613, 16383])
            out.append(list(range(c, L, c)))
        elif m == 4:
            x, cuts = 0, []
            hi = rnd.choice([3, 9, 60]) if not big else rnd.choice([200, 5000, 20000])
            while x < L:
                x += rnd.randint(1, hi)
                cuts.append(x)
            out.append(cuts)
        else:
            out.append([1] + sorted(rnd.sample(ic['multi'] + ic['crlf'] + ic['refill'] + [2, 3],
                                               min(len(ic['multi'] + ic['crlf'] + ic['refill']) + 2, rnd.choice([2, 6])))))
    return out


def reader_trace(yaml, name, text, form, data, cuts, tail_span, rnd):
    """a real Reader over a CutStream (or the in-memory data), consumer p11 (peek, forward 1) with occasional prefix/peek
    look-aheads; the observation for Trace_Delivery (kind reader)"""
    from yaml.reader import Reader, ReaderError
    bom = 1 if form in D.BOM else 0
    m = D.NONPRINTABLE.search(text)
    good = text[:m.start()] if m else text
    complete = not m and tail_span is None
    ideal = (BOMCH if bom else '') + good + ('\0' if complete else '')
    cls = D.classes_of(ideal)
    want = {'kind': '-', 'pos': 0, 'span': 0}
    offs = []
    if m:
        offs.append({'kind': 'unprintable', 'pos': m.start() + bom, 'span': 0})
    if tail_span is not None and D.ENC[form]:
        offs.append({'kind': 'undecodable', 'pos': len(D.BOM.get(form, b'')) + len(text.encode(D.ENC[form], 'surrogatepass')),
                     'span': tail_span})
    if offs:
        want = offs[0]
    src = D.CutStream(data, cuts) if form in D.STREAM else data
    got, obs, err = [], [], {'kind': '-', 'pos': 0}
    marks = set()
    if form in D.STREAM and cuts:          # sample positions next to the cuts (in characters, roughly) and every 499th
        pass
    try:
        r = Reader(src)
        n = 0
        while True:
            ch = r.peek()
            got.append(ch)
            if ch == '\0':
                break
            if n % 7 == 3:
                p = r.prefix(3)
                if p[:1] != ch:
                    got.append('?')
            r.forward()
            n += 1
            if n < 24 or n % 211 == 0 or (ch in '\r\n\x85\u2028\u2029\ufeff' and len(obs) < 300) or rnd.random() < 0.01:
                obs.append([r.index, r.line, r.column])
    except ReaderError as e:
        err = {'kind': D.reader_kind(e), 'pos': e.position}
    except Exception as e:
        err = {'kind': 'exception:' + type(e).__name__, 'pos': 0}
    if len(obs) > 120:
        obs = obs[:40] + rnd.sample(obs[40:], 80)
    gcls = D.classes_of(''.join(got))

    def blocks(s):
        k = len(s) - len(s) % 64
        return [s[i:i + 64] for i in range(0, k, 64)], list(s[k:])
    cb, ct = blocks(cls)
    gb, gt = blocks(gcls)
    if len(gb) < len(cb):                  # stopped early (error): compare the partial block letter by letter
        ct = list(cls[len(gb) * 64:len(gb) * 64 + 64])
    breaks, boms = D.line_structure(ideal)
    sym = []
    return {'kind': 'reader', 'form': form, 'sym': sym, 'cls': cb, 'ctail': ct, 'got': gb, 'gtail': gt, 'breaks': breaks,
            'boms': boms, 'obs': obs, 'want': want, 'offs': offs, 'err': err}


def corpus_work(args):
    docs, seed, tier = args
    yaml = use_repo()
    q = tier == 'quick'
    out = {'rtraces': [], 'rmeta': [], 'ptraces': [], 'pmeta': [], 'deliveries': 0}
    for name, text, tails, spans, backends in docs:
        rnd = random.Random('%d/%s' % (seed, name))
        big = len(text) > 8000
        nsched = (3 if big else 4) if q else (6 if big else 10)
        deliveries = []
        forms = D.FORMS if not tails else [f for f in D.FORMS if D.ENC[f] in tails]
        for form in forms:
            enc = D.ENC[form]
            data = text if enc is None else D.BOM.get(form, b'') + text.encode(enc, 'surrogatepass') + tails.get(enc, b'')
            if form in D.STREAM:
                for cuts in schedules_for(data, rnd, nsched, big):
                    deliveries.append((form, cuts, data))
            else:
                deliveries.append((form, [], data))
        # pipeline level
        dl = [(f, _CutSched(c)) for f, c, _ in deliveries]
        ts = pipe_trace_set(yaml, text, tails, dl, spans, backends)
        out['ptraces'] += ts
        out['pmeta'] += [{'input': name, 'chars': len(text)}] * len(ts)
        out['deliveries'] += sum(t['ndel'] + 1 for t in ts)
        # reader level
        if 'py' not in backends:
            continue
        rsel = [d for i, d in enumerate(deliveries) if d[0] not in D.STREAM or i % (4 if big or not q else 2) == 0]
        for form, cuts, data in rsel:
            t = reader_trace(yaml, name, text, form, data, cuts, spans.get(D.ENC[form]) if tails else None, rnd)
            out['rtraces'].append(t)
            out['rmeta'].append({'input': name, 'form': form, 'cuts': cuts[:20], 'chars': len(text)})
    return out


class _CutSched(tuple):
    """a schedule given as absolute cut offsets (marks the delivery for pipe_trace_set)"""
    cuts = True


# ------------------------------------------------------------------------------------------------ main
def main(tier, replay=None):
    v = Verdict('C07', tier)
    yaml = use_repo()
    fixed = code_is_printable_first(yaml)
    q = tier == 'quick'
    states = trans = 0
    mc = 'MC_Reader_strict.cfg' if fixed else 'MC_Reader.cfg'
    # (a) design check: L => H, and the MBT configurations, all runs sharing the cores
    dc = design_configs(tier, fixed)
    mcs = mbt_configs(tier, fixed)
    jobs = [(n, dict(cfg=mc, constants=c, tag='C07_' + n, timeout=3000, heap='5g')) for n, c in dc]
    if not q:                         # the two large configurations first and with more workers
        for n, kw in jobs:
            if n in ('widths', 'breaks'):
                kw['workers'] = 8
    if not fixed:       # the strict clause against the repaired model: evidence that H_Error is satisfiable by a small repair
        jobs.append(('repair', dict(cfg='MC_Reader_strict.cfg', constants=cfg(A_ERRORS, 3, forms=['b8', 's8', 's16be'], fixed=True), tag='C07_repair',
                                    timeout=3000, heap='4g')))
    jobs += [(n, dict(cfg=mc, constants=c, tag='C07_' + n, timeout=3000, heap='5g', coverage=False)) for n, c in mcs]
    t0 = time.time()
    res = run_parallel(jobs, workers=3 if q else 4, concurrent=6 if q else 5)
    phases = {'tlc': round(time.time() - t0, 1)}
    t0 = time.time()
    fired = {}
    for n, _kw in jobs:
        r = res[n]
        if r.violated:
            print(r.out[-3000:])
            raise SystemExit('machinery failure: Reader.tla violates %s in configuration %s (L => H fails in the model)' % (r.violated, n))
        tlc.require_ok(r, 'Reader/' + n)
        states += r.distinct
        trans += r.generated
        for a, cnt in r.actions.items():
            fired[a] = fired.get(a, 0) + cnt[1]
    unfired = [a for a in ACTIONS if not fired.get(a)]
    if unfired:
        raise SystemExit('machinery failure: Reader.tla actions never taken: %s' % unfired)
    # (b) replay of every complete behaviour of the MBT configurations
    lines = []
    for n, _c in mcs:
        ls = parse_triples(res[n].out)
        if not ls:
            raise SystemExit('machinery failure: no behaviours exported by configuration %s' % n)
        lines += ls
    groups = {}
    for ln in lines:
        m = _head.match(ln)
        groups.setdefault(m.group(3), []).append(ln)
    glist = [groups[k] for k in sorted(groups)]
    nchunks = 64
    chunks = [glist[i::nchunks] for i in range(nchunks)]
    with mp.Pool(16) as pool:
        outs = pool.map(replay_work, [(c, SEED, 1 if q else 2, 12 if q else 32) for c in chunks if c], chunksize=1)
    phases['replay'] = round(time.time() - t0, 1)
    t0 = time.time()
    n = sum(o['n'] for o in outs)
    if n != len(lines):
        raise SystemExit('machinery failure: replayed %d behaviours, TLC exported %d' % (n, len(lines)))
    runs = sum(o['runs'] for o in outs)
    kinds = {}
    for o in outs:
        for k, c in o['kinds'].items():
            kinds[k] = kinds.get(k, 0) + c
        for b in o['bad']:
            v.violation(b['key'], b['detail'])
    drift = sum(o['drift'] for o in outs)
    if drift:
        v.note('spec-drift C07/reader: %d replays where internal values (read() calls, stream_pointer, error chosen) differ '
               'from Reader.tla although H holds, e.g. %s' % (drift, [d for o in outs for d in o['drift_ex']][:2]))
    ptraces = [t for o in outs for t in o['traces']]
    pmeta = [m for o in outs for m in o['meta']]
    npipe, s2 = judge_pipe(v, ptraces, pmeta, 'C07_pipe', 'tlc-triples')
    states += s2
    phases['judge_pipe'] = round(time.time() - t0, 1)
    deliveries = sum(t['ndel'] + 1 for t in ptraces)
    # (c) code -> spec: corpus documents under seeded schedules, judged by TLC
    t0 = time.time()
    docs = corpus_documents(tier, random.Random(SEED))
    docs.sort(key=lambda d: -len(d[1]))
    nch = 48
    with mp.Pool(16) as pool:
        couts = pool.map(corpus_work, [(docs[i::nch], SEED, tier) for i in range(nch) if docs[i::nch]], chunksize=1)
    phases['corpus'] = round(time.time() - t0, 1)
    t0 = time.time()
    rtraces = [t for o in couts for t in o['rtraces']]
    rmeta = [m for o in couts for m in o['rmeta']]
    verdicts, s3 = trace.judge('Trace_Delivery', rtraces, 'C07_rcorpus')
    states += s3
    for t, m, (ok, why, at) in zip(rtraces, rmeta, verdicts):
        if not ok:
            clause = 'error-not-first' if why == 'reader error is not the first offence' else why
            v.violation({'level': 'reader', 'stage': 'corpus', 'clause': clause, 'backend': 'py',
                         'got': t['err']['kind'] if clause == 'error-not-first' else '',
                         'want': t['want']['kind'] if clause == 'error-not-first' else ''},
                        {'input': m, 'error': t['err'], 'first_offending_unit': t['want'], 'at': at})
    cptraces = [t for o in couts for t in o['ptraces']]
    cpmeta = [m for o in couts for m in o['pmeta']]
    ncp, s4 = judge_pipe(v, cptraces, cpmeta, 'C07_pcorpus', 'corpus')
    states += s4
    cdel = sum(o['deliveries'] for o in couts)
    phases['judge_corpus'] = round(time.time() - t0, 1)
    v.cov = {'states': states, 'transitions': trans, 'exhaustive': True,
             'traces_validated_against_impl': runs + deliveries + len(rtraces) + cdel,
             'corpus_documents': len(docs), 'corpus_reader_traces_judged': len(rtraces), 'corpus_pipeline_traces_judged': ncp,
             'corpus_pipeline_deliveries': cdel, 'corpus_largest_document_chars': max(len(d[1]) for d in docs),
             'reader_behaviours_replayed': len(lines), 'reader_replays': runs, 'model_outcomes': kinds,
             'pipeline_traces_judged': npipe, 'pipeline_deliveries': deliveries,
             'distinct_nontrivial': sum(o['nontrivial'] for o in outs),
             'rule': 'non-trivial = behaviour with more than two read() calls over a document with a multi-unit character, '
                     'CR, NEL or BOM',
             'actions_fired': fired, 'code_variant': 'printable-first' if fixed else 'as pinned',
             'samples': [s for o in outs for s in o['samples']][:4],
             'configs': {n: c for n, c in dc + mcs}, 'phase_seconds': phases}
    v.assumptions = ['documents do not begin with U+FEFF; index is not compared when a byte order mark is present',
                     'one abstract code unit = one byte (one character for text streams); Block = 4 (3) units in the model',
                     'the codecs are CPython\'s; their contract is the operator Dec of Reader.tla']
    return v.finish()
