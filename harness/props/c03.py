"""C03 - reading never fails with anything but a YAML error.

spec/Scanner.tla is the L model of scanner.py (+ the reader's printable check) over an abstract alphabet; H is
H_YamlErrorOnly / H_Terminates / H_TokenMarks / H_ErrorMarks / H_TokenGrammar (invariants checked by TLC for all
strings up to the bound), and spec/Trace_Outcome.tla for observations of the real code.

  (a) design check: Scanner.tla, one step per method (Fine = TRUE), all invariants, every action fires;
  (b) spec -> code: Scanner.tla in enumeration mode (Fine = FALSE), every input of every configuration is concretised
      (several representatives per class, VERIF_SEED) and fed to yaml.scan / parse / compose_all as str, UTF-8 bytes and
      through a stream with both back-ends in watchdog-supervised worker processes; the real tokens / error are compared
      with the model's prediction (L: drift note only), the observation records are judged by TLC (H: verdict);
  (c) code -> spec: truncations and single-symbol mutations of the repository's data files, break-style / alignment
      variants of long streams, seeded random byte strings and random strings over the concrete alphabet: the same
      records, judged by TLC against Trace_Outcome.tla.
A model state whose outcome is "crash" (a Python exception that is not a YAMLError) is a TLC counterexample to
H_YamlErrorOnly; it is concretised and replayed like every other state: if the real code raises the non-YAML exception
too it is a VIOLATION (or a known finding), if not it is spec drift.
"""
import glob, io, json, os, random, re, sys, traceback, zlib
from .. import tlc, trace, tlaval, mbt
from ..common import Verdict, use_repo, REPO, SEED, BUILD
from ..drivers import scanmodel as sm, watchdog

INVS = ['H_YamlErrorOnly', 'H_Terminates', 'H_TokenMarks', 'H_ErrorMarks', 'H_TokenGrammar', 'H_Monotone', 'L_Sane']
# rows of FocusTable in spec/Scanner.tla (prefix, alphabet and the two bounds of each focus are defined there)
FOCUSES = ['struct', 'struct2', 'block', 'indic', 'breaks', 'docs', 'dquote', 'escape', 'hex', 'squote', 'yamldir', 'dir', 'tagdir', 'tag',
           'verbatim', 'literal', 'folded', 'seqlit', 'mapblock', 'anchors', 'longkey', 'flowkeys', 'cont', 'numbers', 'indentless',
           'reflow1', 'reflow2', 'reflow3']
# long runs (a bulk of > 1200 characters of one class, or > 1200 repetitions of a token-producing unit) at every position of
# short strings in every context; a state of these rows without a run repeats a state of the rows above and is not replayed
RUN_FOCUSES = ['rtop', 'rflow', 'rvalue', 'rcomment', 'rdq', 'rsq', 'rlit', 'rlitbody', 'rfold', 'ryaml', 'ryaml2', 'rdir', 'rprops',
               'rescape', 'runits', 'runitsf', 'runitsb', 'runitsq', 'runitsd']
DESIGN = ['dstruct', 'dindic', 'drun']    # design check (Fine = TRUE): one step per method, every action must fire
FETCHERS = ['StreamEnd', 'Directive', 'DocumentStart', 'DocumentEnd', 'FlowSequenceStart', 'FlowMappingStart',
            'FlowSequenceEnd', 'FlowMappingEnd', 'FlowEntry', 'BlockEntry', 'Key', 'Value', 'Alias', 'Anchor', 'Tag',
            'Literal', 'Folded', 'Single', 'Double', 'Plain', 'NoToken']
# set an entry to True when the corresponding fix_proposals/<id>.diff has been applied to /repo (the model then describes the
# repaired code; with a stale flag the check still passes and prints a spec-drift note)
MODEL_FIXES = {'FixD1': True, 'FixD10': True}     # /repo commits 58d44d5, a14b348
WORKERS = int(os.environ.get('VERIF_C03_WORKERS', '16'))      # development aids (shared machine): TLC workers, replay processes
PROCS = int(os.environ.get('VERIF_C03_PROCS', '16'))
LIMIT = 60.0           # watchdog: seconds without a result for one input (inputs take milliseconds); confirmed by a second run


def tla_set(xs):
    return '{' + ', '.join('"%s"' % x for x in xs) + '}'


# ------------------------------------------------------------------ observing the real code
def line_structure(text):
    """indices at which a line starts, and positions of zero-width U+FEFF (a projection of the input only)"""
    breaks, boms, i, n = [0], [], 0, len(text)
    while i < n:
        ch = text[i]
        if ch == '\r' and i + 1 < n and text[i + 1] == '\n':
            i += 2
            breaks.append(i)
            continue
        if ch in '\r\n\x85\u2028\u2029':
            breaks.append(i + 1)
        elif ch == '\ufeff':
            boms.append(i)
        i += 1
    return breaks, boms


def decode_like_reader(raw):
    try:
        if raw.startswith(b'\xff\xfe'):
            return raw.decode('utf-16-le')
        if raw.startswith(b'\xfe\xff'):
            return raw.decode('utf-16-be')
        return raw.decode('utf-8')
    except UnicodeDecodeError:
        return None


def site_of(exc, pkgdir):
    """innermost frame that belongs to the yaml package: 'file.py:function'"""
    site = None
    for fr in traceback.extract_tb(exc.__traceback__):
        fn = fr.filename
        if os.path.dirname(os.path.abspath(fn)) == pkgdir or fn.endswith('_yaml.pyx'):
            site = '%s:%s' % (os.path.basename(fn), fr.name)
    return site or 'outside-package'


def recursion_site(exc, pkgdir):
    """the function of the yaml package that occurs most often in the traceback of a RecursionError (the innermost frame is
    wherever the stack happened to end)"""
    cnt = {}
    for fr in traceback.extract_tb(exc.__traceback__)[-400:]:
        fn = fr.filename
        if os.path.dirname(os.path.abspath(fn)) == pkgdir or fn.endswith('_yaml.pyx'):
            k = '%s:%s' % (os.path.basename(fn), fr.name)
            cnt[k] = cnt.get(k, 0) + 1
    return max(sorted(cnt), key=lambda k: cnt[k]) if cnt else 'outside-package'


ENTRIES = ('scan', 'parse', 'compose_all')


def nesting_bound(data):
    """an upper bound of the nesting depth of the node graph of an input: every collection that contains another node is
    opened by one of the indicators [ { - ? : (a projection of the input alone; str, bytes or a byte stream's content)"""
    if isinstance(data, io.BytesIO):
        data = data.getvalue()
    if isinstance(data, bytes):
        return sum(data.count(c) for c in (b'[', b'{', b'-', b'?', b':'))
    return sum(data.count(c) for c in '[{-?:')


class ShortReads:
    """a stream whose read(n) returns fewer units than asked for, following a fixed (seeded) schedule of sizes; the
    empty str / bytes at the end.  Chunk boundaries therefore fall inside every kind of token."""

    def __init__(self, data, sizes):
        self.data, self.sizes, self.pos, self.i = data, sizes, 0, 0

    def read(self, n=-1):
        if self.pos >= len(self.data):
            return self.data[:0]
        k = self.sizes[self.i % len(self.sizes)]
        self.i += 1
        if n is not None and n >= 0:
            k = min(k, n)
        chunk = self.data[self.pos:self.pos + k]
        self.pos += k
        return chunk


def make_forms(text, raw, extra_forms=False, rnd=None, kmax=3):
    """delivery forms of one input -> [(form, factory)] ; text: str or None, raw: bytes or None.
    short-*: streams with seeded short reads of 1..kmax units (needs rnd)"""
    forms = []
    sizes = [rnd.randrange(1, kmax + 1) for _ in range(7)] if rnd is not None else None
    if text is not None:
        forms.append(('str', lambda: text))
        forms.append(('stream-str', lambda: io.StringIO(text)))
        if sizes:
            forms.append(('short-str', lambda: ShortReads(text, sizes)))
        try:
            b = text.encode('utf-8')
        except UnicodeEncodeError:
            b = None
        if b is not None and raw is None:
            forms.append(('bytes', lambda: b))
            forms.append(('stream-bytes', lambda: io.BytesIO(b)))
            if sizes:
                forms.append(('short-bytes', lambda: ShortReads(b, sizes)))
            if extra_forms:
                enc = ('utf-16-le', b'\xff\xfe') if (rnd.random() < 0.5) else ('utf-16-be', b'\xfe\xff')
                b16 = enc[1] + text.encode(enc[0])
                forms.append(('bytes-' + enc[0], lambda: b16))
                forms.append(('short-bytes-' + enc[0], lambda: ShortReads(b16, sizes)))
    if raw is not None:
        forms.append(('bytes', lambda: raw))
        forms.append(('stream-bytes', lambda: io.BytesIO(raw)))
        if sizes:
            forms.append(('short-bytes', lambda: ShortReads(raw, sizes)))
    return forms


def observe(yaml, pkgdir, text, raw, entries=ENTRIES, extra_forms=False, rnd=None, only_forms=None, kmax=3):
    """-> list of (record, meta): one record per entry point x delivery form x back-end"""
    out = []
    for form, mk in make_forms(text, raw, extra_forms, rnd, kmax):
        if only_forms and form not in only_forms:
            continue
        sample = mk()
        if isinstance(sample, ShortReads):
            sample = sample.data
        if isinstance(sample, (bytes, io.BytesIO)):
            rawb = sample if isinstance(sample, bytes) else sample.getvalue()
            dec = decode_like_reader(rawb)
            lenb = len(rawb)
        else:
            dec = text
            lenb = len(text)
        lenc = len(dec) if dec is not None else -1
        breaks, boms = line_structure(dec) if dec is not None else ([0], [])
        lenb_c = lenb
        if isinstance(sample, (str, io.StringIO)):
            lenb_c = len(text.encode('utf-8', 'surrogatepass'))       # the binding converts str input to UTF-8
        for backend, L in (('py', yaml.Loader), ('c', yaml.CLoader)):
            for entry in entries:
                rec = {'outcome': 'ok', 'lenc': lenc, 'lenb': lenb_c if backend == 'c' else lenb, 'marks': [], 'rpos': -1, 'runit': 'c',
                       'exact': backend == 'py' and dec is not None, 'breaks': breaks, 'boms': boms,
                       'entry': '-', 'backend': '-', 'nest': 0, 'reclimit': 0}       # filled in for a RecursionError only
                meta = {'backend': backend, 'entry': entry, 'form': form, 'exc': None, 'site': None}
                try:
                    for _ in getattr(yaml, entry)(mk(), Loader=L):
                        pass
                except yaml.YAMLError as e:
                    rec['outcome'] = 'yamlerror'
                    meta['exc'] = type(e).__name__
                    if isinstance(e, yaml.reader.ReaderError) or hasattr(e, 'position'):
                        rec['rpos'] = e.position if isinstance(e.position, int) else -2
                        rec['runit'] = 'b' if (isinstance(getattr(e, 'character', None), bytes) or backend == 'c') else 'c'
                    for m in (getattr(e, 'context_mark', None), getattr(e, 'problem_mark', None)):
                        if m is not None:
                            rec['marks'].append({'i': m.index, 'l': m.line, 'c': m.column})
                except RecursionError as e:
                    # the statement excludes nesting beyond the recursion limit for the pure-Python composer only: H decides
                    # from the entry point, the back-end and an upper bound of the nesting depth of this input
                    rec.update(outcome='recursion', entry=entry, backend=backend, reclimit=sys.getrecursionlimit(),
                               nest=nesting_bound(dec if dec is not None else sample))
                    meta['exc'] = 'RecursionError'
                    meta['site'] = recursion_site(e, pkgdir)
                except Exception as e:                         # noqa
                    rec['outcome'] = 'exception'
                    meta['exc'] = type(e).__name__
                    meta['site'] = site_of(e, pkgdir)
                    meta['msg'] = str(e)[:100]
                out.append((rec, meta))
    return out


class Bag:
    """distinct observation records with a count and one sample each (the TLC judgement is per distinct record)"""

    def __init__(self):
        self.d = {}

    def add(self, rec, meta, inp):
        k = json.dumps(rec, sort_keys=True) + '|' + '%s|%s|%s' % (meta['backend'], meta['exc'], meta['site'])
        e = self.d.get(k)
        if e is None:
            self.d[k] = [1, rec, dict(meta, input=inp)]
        else:
            e[0] += 1

    def merge(self, other):
        for k, e in other.items():
            x = self.d.get(k)
            if x is None:
                self.d[k] = e
            else:
                x[0] += e[0]


def _init():
    yaml = use_repo()
    return yaml, os.path.dirname(os.path.abspath(yaml.__file__))


# ------------------------------------------------------------------ (b) replay of enumerated states
def new_res():
    return {'states': 0, 'ends': 0, 'focus': {}, 'outcomes': {}, 'paths': {}, 'errkinds': {}, 'drift': {}, 'ndrift': 0, 'runs': 0, 'lcompared': 0,
            'runs_long': 0}


def replay_state(yaml, pkgdir, st, nrep, tier, res, bag):
    res['ends'] += 1
    res['focus'][st['focus']] = res['focus'].get(st['focus'], 0) + 1
    res['outcomes'][st['res']] = res['outcomes'].get(st['res'], 0) + 1
    for p in st['path']:
        res['paths'][p] = res['paths'].get(p, 0) + 1
    if st['res'] in ('error', 'crash'):
        k = st['err']['kind']
        res['errkinds'][k] = res['errkinds'].get(k, 0) + 1
    syms = st['inp']
    rnd = random.Random(zlib.crc32(('%d|%s' % (SEED, ' '.join(syms))).encode()))
    run = st['focus'] in RUN_FOCUSES
    if run:
        res['runs_long'] += 1
        nrep = 1
    for k in range(nrep):
        text, parts = sm.concretise(syms, rnd)
        if st['res'] != 'unmodelled':
            d = sm.compare(st, syms, parts, sm.observe_scan(yaml, text, yaml.Loader))
            res['lcompared'] += 1
        else:
            d = None
        if d:
            res['ndrift'] += 1
            key = re.sub(r'[\[(\'"].*', '', d)[:50]
            res['drift'].setdefault(key, {'symbols': syms, 'text': text[:80], 'what': d[:300]})
        # first representative: str / bytes / text stream x scan, parse, compose_all; further ones: the other delivery forms
        # quick: 16 runs per input: str x three entry points and a byte stream with short reads for the first representative;
        # a text stream with short reads and UTF-16 for the second.  (bytes and whole-read streams: corpus phase, thorough tier)
        if run:
            # a long run: str x the three entry points, and a byte stream with short reads (scan), both back-ends
            obs = observe(yaml, pkgdir, text, None, only_forms=('str',))
            obs += observe(yaml, pkgdir, text, None, rnd=rnd, kmax=rnd.choice([3, 64, 1000]), entries=('scan',) if tier == 'quick' else ENTRIES,
                           only_forms=('short-bytes',) if tier == 'quick' else ('short-bytes', 'short-str'))
        elif k == 0:
            obs = observe(yaml, pkgdir, text, None, only_forms=('str',))
            obs += observe(yaml, pkgdir, text, None, rnd=rnd, kmax=3, entries=('scan', 'compose_all'),
                           only_forms=('short-bytes',) if tier == 'quick' else ('short-bytes', 'bytes', 'stream-str'))
        else:
            obs = observe(yaml, pkgdir, text, None, rnd=rnd, kmax=3, entries=('scan', 'compose_all'), only_forms=('short-str',))
            obs += observe(yaml, pkgdir, text, None, extra_forms=True, rnd=rnd, kmax=3, entries=('scan',) if tier == 'quick' else ('scan', 'compose_all'),
                           only_forms=('short-bytes-utf-16-le', 'short-bytes-utf-16-be'))
        res['runs'] += len(obs)
        short = text if len(text) <= 60 else text[:60] + '...(%d)' % len(text)
        for rec, meta in obs:
            bag.add(rec, meta, {'symbols': syms, 'text': short, 'model': st['res'] + '/' + st['err']['kind']})


def wanted(st):
    return st['focus'] not in RUN_FOCUSES or sm.has_run(st['inp'])


def replay_states(ctx, item):
    """item: (dumpfile, from, to, nrep, tier) - a chunk of the TLC dump - or ('one', state, nrep, tier)"""
    yaml, pkgdir = ctx
    bag = Bag()
    res = new_res()
    if item[0] == 'one':
        replay_state(yaml, pkgdir, item[1], item[2], item[3], res, bag)
    else:
        path, a, b, nrep, tier = item
        for st in mbt.chunk_states(path, a, b):
            res['states'] += 1
            if st['pc'] == 'end' and wanted(st):
                replay_state(yaml, pkgdir, st, nrep, tier, res, bag)
    res['bag'] = bag.d
    return res


def design_work(states, extra):
    pcs, fired = {}, {}
    for st in states:
        pcs[st['pc']] = pcs.get(st['pc'], 0) + 1
        if st['path']:
            fired[st['path'][-1]] = fired.get(st['path'][-1], 0) + 1
    return pcs, fired


# ------------------------------------------------------------------ (c) corpus, mutations, random
def mutation_symbols():
    """every abstract symbol through every representative, plus multi-character lexemes"""
    out = []
    for s, reps in sm.REPS.items():
        if s in sm.BULK_BASE or s in sm.UNITS:
            continue
        if s in ('L', 'DBIG'):
            out.append(reps[0])
            continue
        for r in reps:
            out.append(('"\\' + r + '"') if s in ('X2', 'U4', 'U4s', 'U8', 'U8s', 'U8big', 'U8huge') else r)
            if s in ('X2', 'U4', 'U4s', 'U8', 'U8s', 'U8big', 'U8huge'):
                out.append('\\' + r)
    # what int() tolerates but the scanner's own digit tests must not: sign, underscore, blank, non-ASCII digit - in every place
    # where the scanner converts digits (URI escapes, \x \u \U escapes, %YAML version, block scalar indentation indicator)
    lenient = ['-1', '+1', ' 1', '1 ', '1_', '_1', '1_0', '\uff11\uff12', '\u0661', '-f', '+A']
    for pre, post in (('%', ''), ('!%', ' x'), ('!<%', '> x'), ('"\\x', '"'), ('"\\u00', '"'), ('"\\U000000', '"'), ('%YAML ', '.1\n--- x'),
                      ('%YAML 1.', '\n--- x'), ('|', '\n x'), ('>-', '\n x'), ('%TAG !e! tag:%', '\n--- !e!x y')):
        out += [pre + b + post for b in lenient]
    out += ['%YAML 1.1\n', '%YAML 1.2\n', '%YAML 2.0\n', '%TAG ! tag:x,2000:\n', '%TAG !e! tag:e,2000:\n', '%FOO bar\n', '---', '...',
            '--- ', '\n--- ', '\n...\n', '&a ', '*a ', '!t ', '!!str ', '!<x> ', '!e!x ', '|\n ', '>-\n ', '|2+\n', '\r\n', ': ', '- ',
            '? ', ', ', '\\x', '\\u', '\\U', '\ud800', '\udfff', '"\\', '\\\n', '# c\n', '\t', '<<: ', '%', '!<', '!<%', '%4', '|0', '|10', '!%00', '%00', '!<%00>']
    return out


def corpus_items(tier, rnd):
    files = sorted(glob.glob(os.path.join(REPO, 'tests/legacy_tests/data/*')))
    muts = mutation_symbols()
    items = []
    nmut = 3 if tier == 'quick' else 60
    badunits = [b'\xff', b'\xc3', b'\x80', b'\xed\xa0\x80', b'\xf8\x88\x80\x80\x80', b'\x00', b'\xef\xbb\xbf', b'\xff\xfe', b'\xfe\xff',
                b'\x00\xd8', b'\xc0\xaf', b'\xf4\x90\x80\x80', b'\xe2\x82']
    for f in files:
        try:
            raw = open(f, 'rb').read()
        except OSError:
            continue
        if len(raw) > 20000:
            continue
        name = os.path.basename(f)
        items.append((name, None, raw))                               # the file as it is (bytes)
        text = decode_like_reader(raw)
        for j in range(nmut):
            op = rnd.randrange(5 if text is not None else 2)
            if op == 0:                                               # byte-level truncation
                k = rnd.randrange(len(raw) + 1)
                items.append(('%s~trunc%d' % (name, k), None, raw[:k]))
            elif op == 1:                                             # byte-level: bad UTF-8 / UTF-16 unit inserted or replacing
                k = rnd.randrange(len(raw) + 1)
                u = rnd.choice(badunits)
                items.append(('%s~unit%d' % (name, k), None, raw[:k] + u + raw[k + rnd.randrange(2):]))
            else:                                                     # character-level insert / replace / delete
                k = rnd.randrange(len(text) + 1)
                m = rnd.choice(muts)
                if op == 2:
                    t2 = text[:k] + m + text[k:]
                elif op == 3:
                    t2 = text[:k] + m + text[k + 1:]
                else:
                    t2 = text[:k] + text[k + 1 + rnd.randrange(3):]
                items.append(('%s~%s%d' % (name, 'ird'[op - 2], k), t2, None))
    # a long run (beyond the recursion limit) of one character class or of one token-producing unit inserted at a seeded position
    # of a data file: the contexts the files offer x the classes of Scanner.tla's run symbols (every 3rd file in quick)
    runs = [' ', '\t', '\n', '\r', '\r\n', '\x85', '\u2028', '\u2029', '#', '-', '.', ':', '?', ',', '0', '7', 'k', '\xe9', '\ufeff', '- ', ': ', '? ',
            ', ', 'a, ', '---\n', '...\n', '&a ', '!t ', '*a ', '"', "'", "''", '\\', '\\n', '%', '|', '>', '|\n', '-\n', '# c\n', '%FOO b\n', '!', '&', ']', '}']
    for fi, f in enumerate(files):
        if tier == 'quick' and fi % 3 != SEED % 3:
            continue
        try:
            raw = open(f, 'rb').read()
        except OSError:
            continue
        text = decode_like_reader(raw)
        if text is None or len(raw) > 20000:
            continue
        for j in range(1 if tier == 'quick' else 6):
            u = rnd.choice(runs)
            k = rnd.randrange(len(text) + 1)
            items.append(('longrun-%s~%r@%d' % (os.path.basename(f), u, k), text[:k] + u * 1200 + text[k:], None))
    # every alignment of a line break relative to the reader's block: long streams in every break style
    bodies = ['a: b', '- [x, y]', 'k: "v w"', "? 'q'"]
    for bi, body in enumerate(bodies if tier != 'quick' else bodies[:2]):
        for brk in ('\r', '\r\n', '\n', '\x85', '\u2028'):
            per = len(body) + len(brk)
            for pad in range(per):
                t = '#' * pad + brk + (body + brk) * (13000 // per)
                items.append(('long-%d-%r-%d' % (bi, brk, pad), t, None))
    bodies2 = ['# c c', 'k: v # c', '%FOO b', '|  # c'] if tier == 'quick' else ['# c c', 'k: v # c', '%FOO b', '|  # c', '- &a !t x', "- 'q' : \"d\""]
    for bi, body in enumerate(bodies2):                              # the same for lines made of comments / directives / properties
        for brk in ('\n', '\r\n'):
            per = len(body) + len(brk)
            for pad in range(0, per, 1 if tier != 'quick' else 2):
                t = '#' * pad + brk + (body + brk) * (13000 // per)
                items.append(('long-x%d-%r-%d' % (bi, brk, pad), t, None))
    # one long lexeme of every token kind (longer than two reader blocks), so that a block border falls inside it
    N = 9000
    lexemes = [('comment', '# ' + 'c' * N), ('comment-after', 'a: b # ' + 'c' * N), ('reserved-directive', '%FOO ' + 'p' * N + '\n--- a'),
               ('directive-comment', '%YAML 1.1 # ' + 'c' * N + '\n--- a'), ('tag-directive', '%TAG !e! tag:' + 'x' * N + '\n--- !e!a b'),
               ('plain', 'w' * N), ('plain-words', 'word ' * (N // 5)), ('single', "'" + 's' * N + "'"), ('double', '"' + 'd' * N + '"'),
               ('double-escapes', '"' + '\\x41\\n' * (N // 6) + '"'), ('anchor', '&' + 'a' * N + ' x'), ('alias', '- &a x\n- *' + 'a' * N),
               ('tag', '!' + 't' * N + ' x'), ('verbatim-tag', '!<' + 't' * N + '> x'), ('tag-escapes', '!' + '%41' * (N // 3) + ' x'),
               ('literal', '|\n ' + 'l' * N), ('literal-lines', '|\n' + ' l\n' * (N // 3)), ('header-comment', '| # ' + 'c' * N + '\n x'),
               ('folded', '>\n ' + 'f ' * (N // 2)), ('spaces', 'a:' + ' ' * N + 'b'), ('blank-lines', 'a:\n' + '\n' * N + ' b'),
               ('key', 'k' * N + ': v'), ('flow', '[' + 'a, ' * (N // 3) + ']'), ('entries', '- a\n' * (N // 4)),
               ('document-markers', '--- a\n...\n' * (N // 10)), ('crlf', 'a: b\r\n' * (N // 6)), ('bom', '\ufeff' + 'a ' * (N // 2))]
    for name, t in lexemes:
        items.append(('lex-' + name, t, None))
    # long numbers of every base / numeric form followed by one foreign character (every implicit resolver sees them in compose)
    digits = {'0x': '0123456789abcdefABCDEF', '0X': '0123456789abcdef', '0b': '01', '0o': '01234567', '0': '01234567', '': '0123456789',
              '-': '0123456789', '+': '0123456789', '1.': '0123456789', '.': '0123456789', '1e': '0123456789', '1e+': '0123456789',
              '1:': '012345', '2001-01-01T': '0123456789', '2001-': '0123456789', '0x_': '0123456789abcdef_', '1_': '0123456789_',
              '1:59:': '0123456789:', '.inf': 'f', '~': '~', 'tru': 'e', '<': '<', '=': '='}
    nlen = (40, 200) if tier == 'quick' else (24, 40, 64, 200, 1000)
    for pre, ds in digits.items():
        for ln in nlen:
            run = ''.join(rnd.choice(ds) for _ in range(ln))
            for suf in ('', 'z', '-rc', '_', ':', '.', 'g', ' #c'):
                ctx = rnd.choice(['%s', '- %s', 'k: %s', '[%s]', '%s: v', '{%s: 1}'])
                items.append(('num-%s%d%s' % (pre, ln, suf), ctx % (pre + run + suf), None))
        # beyond CPython's 4300-digit limit of int(), in the variants a digit counter can tell apart: significant digits only,
        # zeros only, leading zeros and then significant digits
        sig = [d for d in ds if d not in '0_:'] or list(ds)
        for vname, run in (('sig', ''.join(rnd.choice(sig) for _ in range(4400))), ('zeros', ds[0] * 4400),
                           ('lead', ds[0] * 4395 + ''.join(rnd.choice(sig) for _ in range(5)))):
            for suf in ('', 'z') if tier == 'quick' else ('', 'z', '_', ':', '.', ' #c'):
                ctx = rnd.choice(['%s', '- %s', 'k: %s', '[%s]', '%s: v', '{%s: 1}'])
                items.append(('num-%s4400%s%s' % (pre, vname, suf), ctx % (pre + run + suf), None))
    # seeded random byte strings and random strings over the concrete alphabet
    nrand = 900 if tier == 'quick' else 40000
    pool = [r for s, rs in sm.REPS.items() if s not in ('L', 'DBIG') and s not in sm.BULK_BASE and s not in sm.UNITS for r in rs]
    weighted = [b'-', b':', b' ', b'\n', b'[', b']', b'{', b'}', b',', b'"', b"'", b'\\', b'!', b'&', b'*', b'|', b'>', b'%', b'#', b'?',
                b'a', b'1', b'\r', b'\t', b'\xc3\xa9', b'\xff', b'\x00', b'\xef\xbb\xbf', b'\xc2\x85', b'\xe2\x80\xa8', b'x', b'U', b'u',
                b'F', b'0', b'.', b'<', b'@', b'`']
    for j in range(nrand):
        n = rnd.randrange(1, 24)
        if j % 3 == 0:
            items.append(('randbytes%d' % j, None, bytes(rnd.randrange(256) for _ in range(n))))
        elif j % 3 == 1:
            items.append(('randweighted%d' % j, None, b''.join(rnd.choice(weighted) for _ in range(n))))
        else:
            items.append(('randsyms%d' % j, ''.join(rnd.choice(pool) for _ in range(n)), None))
    for j in range(60 if tier == 'quick' else 400):                 # UTF-16 with BOM, valid and truncated
        t = ''.join(rnd.choice(pool) for _ in range(rnd.randrange(1, 12)))
        try:
            b = (b'\xff\xfe' + t.encode('utf-16-le')) if j % 2 else (b'\xfe\xff' + t.encode('utf-16-be'))
        except UnicodeEncodeError:
            continue
        items.append(('utf16-%d' % j, None, b if j % 4 < 2 else b[:rnd.randrange(len(b) + 1)]))
    return items


def corpus_work(ctx, chunk):
    yaml, pkgdir = ctx
    bag = Bag()
    runs = 0
    for name, text, raw in chunk:
        rnd = random.Random(zlib.crc32(('%d|%s' % (SEED, name)).encode()))
        if name.startswith('longrun-'):
            obs = observe(yaml, pkgdir, text, raw, only_forms=('str', 'short-bytes'), rnd=rnd, kmax=rnd.choice([7, 64, 1000]))
        elif name.startswith(('long-', 'lex-')):
            # whole-block reads (the reader's own 4096 blocks) and short reads of 1000..3000 units
            obs = observe(yaml, pkgdir, text, raw, only_forms=('stream-str', 'stream-bytes', 'short-str', 'short-bytes'),
                          entries=('scan', 'compose_all'), rnd=rnd, kmax=3000)
        else:
            # short reads of 1..kmax units instead of one read that returns everything
            obs = observe(yaml, pkgdir, text, raw, only_forms=('str', 'bytes', 'short-str', 'short-bytes'), rnd=rnd,
                          kmax=rnd.choice([1, 2, 5, 17, 64]) if len(text if text is not None else raw) < 400 else rnd.choice([17, 64, 500]))
        runs += len(obs)
        shown = text if text is not None else raw
        for rec, meta in obs:
            bag.add(rec, meta, {'name': name, 'data': repr(shown if len(shown) < 200 else shown[:200])})
    return {'bag': bag.d, 'runs': runs, 'inputs': len(chunk)}


# ------------------------------------------------------------------ main
def wd(o):
    return o.get('__watchdog__') if isinstance(o, dict) else None


def supervised(v, fn, items, expand, describe):
    """run fn over chunk-items under the watchdog; a chunk without result is expanded into single inputs to find the input.
    After two confirmed hangs / deaths the rest is skipped (the verdict is already decided).  -> (results, skipped)"""
    out = watchdog.run(fn, items, procs=PROCS, limit=LIMIT, init=_init, abort_after=2)
    good, skipped, expanded = [], 0, False
    for it, o in zip(items, out):
        k = wd(o)
        if k is None:
            good.append(o)
        elif k == 'skipped':
            skipped += 1
        elif expanded:
            skipped += 1
        else:
            expanded = True
            singles = expand(it)
            found = False
            for s1, o1 in zip(singles, watchdog.run(fn, singles, procs=min(8, PROCS), limit=LIMIT, init=_init, chunk=8, abort_after=2)):
                k1 = wd(o1)
                if k1 is None:
                    good.append(o1)
                elif k1 in ('hang', 'died'):
                    found = True
                    v.violation({'clause': 'hang' if k1 == 'hang' else 'interpreter crash', 'backend': '?', 'exc': None,
                                 'site': describe(s1)[0]}, {'input': describe(s1)[1], 'watchdog': o1})
            if not found:
                v.violation({'clause': 'hang' if k == 'hang' else 'interpreter crash', 'backend': '?', 'exc': None, 'site': 'chunk'},
                            {'watchdog': o, 'note': 'no single input of the chunk reproduces it alone'})
    return good, skipped


def run_tlc(tag, focuses, tier, fine, with_crash_inv):
    consts = {'Focuses': tla_set(focuses), 'Thorough': 'FALSE' if tier == 'quick' else 'TRUE', 'Fine': 'TRUE' if fine else 'FALSE'}
    consts.update({k: 'TRUE' if b else 'FALSE' for k, b in MODEL_FIXES.items()})
    r = tlc.run('Scanner', cfg='MC_Scanner.cfg' if with_crash_inv else 'MC_Scanner_enum.cfg', tag='C03_' + tag,
                dump=True, coverage=False, timeout=3000, constants=consts, workers=WORKERS)
    bad = [x for x in r.violated if x != 'H_YamlErrorOnly']
    if bad or (not r.ok and not r.violated):
        sys.stdout.write(r.out[-4000:])
        raise SystemExit('machinery failure: Scanner.tla (%s) violates %s: the model is wrong (L => H fails in the model)' % (tag, bad or r.rc))
    return r


_T = {}


def _lap(name, t0):
    import time
    _T[name] = round(_T.get(name, 0) + time.time() - t0, 1)
    return time.time()


def main(tier, replay=None):
    import time
    t0 = time.time()
    v = Verdict('C03', tier)
    sm.configure(tier != 'quick')                     # widths of the long runs (Thorough of Scanner.tla); workers are forked later
    states = trans = 0
    cov = {}
    # (a) design check, one step per method
    fired = {}
    steps = {'Need': 0, 'Take': 0, 'ScanToNextToken': 0, 'StalePossibleSimpleKeys': 0, 'UnwindIndent': 0}
    r = run_tlc('design', DESIGN, tier, True, True)
    if r.violated:
        raise SystemExit('machinery failure: H_YamlErrorOnly fails in the design-check configurations, where no crash is modelled')
    states += r.distinct
    trans += r.generated
    pcs = {}
    for p_, f_ in mbt.pmap(design_work, r.dump, procs=PROCS):
        for k_, n_ in p_.items():
            pcs[k_] = pcs.get(k_, 0) + n_
        for k_, n_ in f_.items():
            fired[k_] = fired.get(k_, 0) + n_
    os.remove(r.dump)
    # a state with pc = X is the result of the step that leads to X
    for pcv, act in (('scan', 'Need'), ('take', 'Need'), ('stale', 'ScanToNextToken'), ('unwind', 'StalePossibleSimpleKeys'),
                     ('fetch', 'UnwindIndent'), ('need', 'Take')):
        steps[act] += pcs.get(pcv, 0)
    t0 = _lap('design_tlc+count', t0)
    cov['design'] = {'focuses': DESIGN, 'states': r.distinct, 'tlc_s': round(r.wall, 1)}
    unfired = [a for a in FETCHERS if not fired.get(a)] + [a for a, n in steps.items() if not n]
    if unfired:
        raise SystemExit('machinery failure: actions of Scanner.tla never taken in the design check: %s' % unfired)
    cov['actions_fired'] = dict(steps, **{'Fetch' + k: n for k, n in fired.items()})
    # (b) enumeration + replay
    bag = Bag()
    tot = {'ends': 0, 'runs': 0, 'lcompared': 0, 'ndrift': 0, 'runs_long': 0}
    outcomes, errkinds, drift = {}, {}, {}
    nrep = 2
    only = os.environ.get('VERIF_C03_ONLY')          # development aid: comma-separated focus names
    # two enumeration runs side by side: the short strings, and the strings with a long run (their replay costs 10-1000 times
    # more per input, so they go first and in small chunks: the watchdog limit is per chunk)
    groups = [('runs', [f for f in RUN_FOCUSES if not only or f in only.split(',')]),
              ('enum', [f for f in FOCUSES if not only or f in only.split(',')])]
    groups = [g for g in groups if g[1]]
    from concurrent.futures import ThreadPoolExecutor
    with ThreadPoolExecutor(max_workers=2) as ex:
        rs = list(ex.map(lambda g: run_tlc(g[0], g[1], tier, False, False), groups))
    items = []
    for (gname, _f), r in zip(groups, rs):
        states += r.distinct
        trans += r.generated
        per = max(64, r.distinct // 12) if gname == 'runs' else max(128, r.distinct // 400)      # number of chunks
        items += [(r.dump, a, b, nrep, tier) for a, b in mbt.split_dump(r.dump, per)]
    t0 = _lap('enum_tlc', t0)
    def expand_chunk(it):
        return [('one', st, nrep, tier) for st in mbt.chunk_states(*it[:3]) if st['pc'] == 'end' and wanted(st)]

    todo_merge, skipped = supervised(v, replay_states, items, expand_chunk, lambda s1: (' '.join(s1[1]['inp']), {'symbols': s1[1]['inp']}))
    n = 0
    for r in rs:
        os.remove(r.dump)
    perfocus = {}
    for o in todo_merge:
        n += o['states']
        for k in tot:
            tot[k] += o[k]
        for d, src in ((outcomes, o['outcomes']), (errkinds, o['errkinds']), (perfocus, o['focus'])):
            for k, c in src.items():
                d[k] = d.get(k, 0) + c
        for k, ex in o['drift'].items():
            drift.setdefault(k, ex)
        bag.merge(o['bag'])
    if n != sum(r.distinct for r in rs) and not v.violations:
        raise SystemExit('machinery failure: dump/state count mismatch (%d != %d)' % (n, sum(r.distinct for r in rs)))
    cov['skipped_after_hang'] = skipped
    cov['enumeration'] = {'focuses': perfocus, 'states': sum(r.distinct for r in rs), 'tlc_s': [round(r.wall, 1) for r in rs],
                          'bounds': 'n (quick) / m (thorough) of FocusTable',
                          'long_runs': {'inputs': tot['runs_long'], 'bulk_width': sm.BULK_W, 'digit_bulk_width': sm.DIGIT_BULK_W,
                                        'unit_repetitions': sm.UNIT_N, 'unmodelled (unit runs: generated, judged by H only)': outcomes.get('unmodelled', 0)}}
    if tot['ndrift']:
        v.note('spec-drift C03/scanner: %d of %d concretised inputs where yaml.scan differs from Scanner.tla, e.g. %s'
               % (tot['ndrift'], tot['lcompared'], json.dumps(list(drift.items())[:3], default=str)[:900]))
    t0 = _lap('enum_replay', t0)
    # (c) corpus
    rnd = random.Random(SEED)
    items = corpus_items(tier, rnd)
    nch = max(128, len(items) // 60)
    chunks = [items[i::nch] for i in range(nch)]
    if any(x['key']['clause'] in ('hang', 'interpreter crash') for x in v.violations):
        chunks = []                                   # the verdict is decided; do not wait for more watchdog limits
        cov['corpus_skipped_after_hang'] = True
    cout, cskipped = supervised(v, corpus_work, chunks, lambda ch: [[x] for x in ch],
                                lambda s1: (s1[0][0].split('~')[0], repr(s1[0])[:400]))
    cruns = 0
    for o in cout:
        bag.merge(o['bag'])
        cruns += o['runs']
    cov['skipped_after_hang'] += cskipped
    t0 = _lap('corpus', t0)
    # (d) judgement of all distinct records by TLC
    keys = list(bag.d)
    verdicts, s2 = trace.judge('Trace_Outcome', [bag.d[k][1] for k in keys], 'C03_outcome')
    states += s2
    bad = 0
    grouped = {}
    for k, (ok, why, _at) in zip(keys, verdicts):
        if ok:
            continue
        cnt, rec, meta = bag.d[k]
        bad += 1
        key = {'clause': why, 'backend': meta['backend'], 'exc': meta['exc'], 'site': meta['site']}
        g = grouped.setdefault(json.dumps(key, sort_keys=True), {'key': key, 'records': 0, 'runs': 0, 'samples': []})
        g['records'] += 1
        g['runs'] += cnt
        if len(g['samples']) < 4:
            g['samples'].append({'entry': meta['entry'], 'form': meta['form'], 'input': meta['input'], 'record': rec, 'message': meta.get('msg')})
    for g in grouped.values():
        v.violation(g['key'], {'distinct_records': g['records'], 'runs': g['runs'], 'samples': g['samples']})
    cov['records_rejected_by_tlc'] = bad
    t0 = _lap('judge_tlc', t0)
    nobs = tot['runs'] + cruns
    v.cov = dict(cov, phase_seconds=dict(_T), states=states, transitions=trans, exhaustive=True,
                 traces_validated_against_impl=nobs, distinct_records_judged_by_tlc=len(keys),
                 enumerated_inputs=tot['ends'], concretisations_compared_with_model=tot['lcompared'], drift=tot['ndrift'],
                 model_outcomes=outcomes, model_error_kinds=errkinds,
                 model_states_violating_H_YamlErrorOnly=outcomes.get('crash', 0), corpus_inputs=len(items), corpus_runs=cruns,
                 distinct_nontrivial=len(keys),
                 rule='every string of every configuration (prefix + all strings <= MaxLen over its alphabet) scanned by Scanner.tla; '
                      'each concretised %d times and run through scan/parse/compose_all x str/bytes/stream x Loader/CLoader; '
                      'records judged by TLC (Trace_Outcome.tla)' % nrep,
                 samples=[{'input': bag.d[k][2]['input'], 'backend': bag.d[k][2]['backend'], 'entry': bag.d[k][2]['entry'],
                           'outcome': bag.d[k][1]['outcome'], 'exc': bag.d[k][2]['exc']} for k in keys[:4]])
    v.assumptions = ['inputs are str, bytes or streams returning one of the two consistently (DESIGN 5.0)',
                     'a RecursionError is accepted only from compose_all of the pure-Python back-end on an input with >= reclimit / 4 collection indicators [ { - ? : (Trace_Outcome.tla, FramesPerLevel)',
                     'class partition of the abstract alphabet: tested by several representatives per class',
                     'LibYAML marks: range only; pure-Python marks: index in range and line/column = Pos(input, index)',
                     'watchdog limit %ds without a result, confirmed by a second run, counts as a hang' % int(LIMIT)]
    return v.finish()
