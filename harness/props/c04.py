"""C04 - full loading never imports, calls or instantiates what a document names (spec/Construct.tla, H_Confinement.tla)."""
from . import c01


def main(tier, replay=None):
    return c01.main(tier, replay, pid='C04', classes=('Full',))
