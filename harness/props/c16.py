"""C16 - dumping is deterministic and stable.

spec/Represent.tla (shared with C02): every state is an abstract value with one insertion / iteration order; L has
the nondeterministic iteration order, `sorted` with its TypeError fallback and the anchor numbering of the
serializer; TLC checks on every state that with sort_keys and comparable keys the event stream is the same for ALL
re-orderings of the value (SortDeterminism), that without sort_keys mappings keep insertion order (InsertionOrder),
that Dump(Load(Dump(x))) = Dump(x) whatever order re-loaded sets iterate in (FixedPoint) and that the events of a
document do not depend on the document before it (AnchorsOfDocumentAlone).
spec -> code / code -> spec: every state (and seeded random larger values, many with homogeneous keys) is rebuilt
in SEPARATE interpreters started with different PYTHONHASHSEED, in several insertion orders, dumped by both dumpers;
the first interpreter also re-dumps after loading (four pairings), dumps the value as second document of a stream,
and records key orders.  Only digests are recorded; spec/Trace_Determinism.tla decides which clause of the statement
applies to a value (comparable keys, no unsorted multi-element set) and judges the equalities."""
import json, os, random, subprocess, sys, threading, zlib, multiprocessing as mp
from concurrent.futures import ThreadPoolExecutor
from .. import tlc, mbt
from .. import c02_util as U
from ..common import Verdict, use_repo, child_env, SEED, BUILD, PY, VERIF, ensure_dir
from . import c02

TIERS = {'quick': ['order1', 'tz2', 'mixed2', 'mixed3'], 'thorough': ['order1', 'order2', 'mixed2', 'mixed3', 'dates3', 'tz3']}
RANDOM_VALUES = {'quick': 1500, 'thorough': 20000}
VARIANTS = {'quick': [0, 1], 'thorough': [0, 1, 2]}
INVARIANTS = ['SortDeterminism', 'InsertionOrder', 'FixedPoint', 'AnchorsOfDocumentAlone', 'AnchorsWellFormed']


def recipes_of(states, extra):
    name = extra['config']
    out = []
    for st in states:
        out.append(st['last'])
        rseed = c02.state_seed(name, st)
        sets = c02.option_sets(st, rseed, extra['extra_opts'])
        # the same value again under another option set (allow_unicode and width changed), dumped before or after
        # the first one depending on the interpreter: the text for (value, options) must not depend on that history
        twin = dict(sets[0], allow_unicode=True, width=20)
        if extra.get('twin_every', 1) > 1 and rseed % extra['twin_every']:
            twin = None                                     # thorough: a twin for every second state
        for opts in sets + ([twin] if twin else []):
            out.append({'kind': 'state', 'config': name, 'heap': st['heap'], 'root': st['root'], 'rseed': rseed,
                        'opts': U.opts_json(opts), 'sortdet': st['lres']['sortdet'], 'alias': any(e['k'] == 'alias' for e in st['lres']['ev'])})
        if twin:
            out[-1]['light'] = True
    return out


def run_children(recipes, hashseeds, variants, tag):
    """-> results[hashseed_index][recipe_index]"""
    d = ensure_dir(os.path.join(BUILD, 'c16'))
    nchunks = max(1, min(16, len(recipes) // 40))
    bounds = [(len(recipes) * i // nchunks, len(recipes) * (i + 1) // nchunks) for i in range(nchunks)]
    files = []
    for ci, (a, b) in enumerate(bounds):
        for full in (True, False):
            p = os.path.join(d, '%s_in_%d_%d.json' % (tag, ci, full))
            json.dump({'recipes': recipes[a:b], 'variants': variants, 'full': full}, open(p, 'w'))
            files.append(p)
    results = [[None] * len(recipes) for _ in hashseeds]

    def go(job):
        hi, ci = job
        full = hi == 0
        inp = os.path.join(d, '%s_in_%d_%d.json' % (tag, ci, full))
        outp = os.path.join(d, '%s_out_%d_%d.json' % (tag, hi, ci))
        p = subprocess.run([PY, '-m', 'harness.drivers.c16_child', inp, outp, str(hi)], cwd=VERIF, capture_output=True, text=True,
                           env=child_env(PYTHONHASHSEED=hashseeds[hi]), timeout=3000)
        if p.returncode != 0:
            return 'child failed (hashseed %s): %s' % (hashseeds[hi], (p.stdout + p.stderr)[-2000:])
        res = json.load(open(outp))
        a, b = bounds[ci]
        results[hi][a:b] = res
        os.remove(outp)
        return None
    with ThreadPoolExecutor(16) as ex:
        errs = [e for e in ex.map(go, [(hi, ci) for hi in range(len(hashseeds)) for ci in range(nchunks)]) if e]
    for p in files:
        os.remove(p)
    if errs:
        print(errs[0])
        raise SystemExit('machinery failure: a C16 child interpreter failed')
    return results


def rename(seq_of_lists):
    """digests -> short names, consistently inside one record"""
    names = {}

    def nm(x):
        if isinstance(x, list):
            return [nm(y) for y in x]
        if x not in names:
            names[x] = 'o%d' % len(names)
        return names[x]
    return nm(seq_of_lists)


def records_of(rec, results, variants):
    """the H-level records of one recipe from the outputs of all interpreters"""
    value, opts = U.rebuild(rec)
    (h, r), = U.rename_digests(U.project(value))
    hkey = json.dumps(h, sort_keys=True)
    sort = bool(opts.get('sort_keys', True))
    base = {'sort': sort, 'outs': [], 'ins': [], 'doc': [], 'load': []}
    out = []
    for dumper in U.DUMPERS:
        allouts = [res['outs']['%d/%s' % (v, dumper)] for res in results for v in variants]
        out.append((dict(base, kind='contents', outs=rename(allouts)), {'dumper': dumper}))
        for v in variants:
            same = [res['outs']['%d/%s' % (v, dumper)] for res in results]
            out.append((dict(base, kind='process', outs=rename(same)), {'dumper': dumper, 'variant': v}))
        if dumper in results[0]['anchors']:
            out.append((dict(base, kind='anchors', outs=results[0]['anchors'][dumper]), {'dumper': dumper}))
    for k, pair in results[0]['fixed'].items():
        dumper, loader = k.split('/')
        out.append((dict(base, kind='fixed', outs=rename(pair)), {'dumper': dumper, 'loader': loader}))
    for k, o in results[0]['order'].items():
        dumper, loader = k.split('/')
        n = rename([o['ins'], o['doc'], o['load']])
        out.append((dict(base, kind='order', ins=n[0], doc=n[1], load=n[2]), {'dumper': dumper, 'loader': loader}))
    return hkey, out


def records_work(job):
    a, recs, ress, variants = job
    uniq, order, n = {}, [], 0
    for j, rec in enumerate(recs):
        hkey, out = records_of(rec, [r[j] for r in ress], variants)
        for t, meta in out:
            n += 1
            if t['kind'] == 'order':
                plain = t['ins'] == t['doc'] == t['load']
                k = ('', json.dumps(t, sort_keys=True))
            else:
                plain = all(x == t['outs'][0] for x in t['outs'])
                k = (hkey, json.dumps(t, sort_keys=True))
            if plain:
                uniq.setdefault(k, (a + j, meta))
            else:
                order.append((k, a + j, meta))
    return uniq, order, n



def render_det(part):
    """file text for Trace_Determinism: {heaps: table of the distinct values of the part, recs: records referring to it}"""
    table, recs = {}, []
    for hkey, t in part:
        idx = 0
        if hkey:
            idx = table.get(hkey)
            if idx is None:
                idx = table[hkey] = len(table) + 1
        recs.append('%s,"h":%d}' % (t[:-1], idx))
    return '{"heaps":[' + ','.join(table) + '],"recs":[' + ','.join(recs) + ']}'


def judge_det(traces, tag):
    return U.judge_parallel('Trace_Determinism', traces, tag, chunk=15000, render=render_det)


def classify(yaml, rec, t, meta, results, variants):
    """key of a rejected record: which clause, which back-end, and - when the cause is that the value does not
    survive dump/load (the defects C02 reports) - the input class of that failure"""
    value, opts = U.rebuild(rec)
    key = {'clause': t['kind'], 'dumper': meta['dumper']}
    if 'loader' in meta:
        key['loader'] = meta['loader']
    if t['kind'] in ('fixed', 'order'):
        (l, outcome, text, back), = U.observe(yaml, value, opts, meta['dumper'], [meta['loader']])
        if outcome != 'ok' or U.first_difference(value, back, not opts.get('sort_keys', True)) is not None:
            k2 = U.classify(yaml, value, opts, meta['dumper'], meta['loader'], outcome, text, back, 'round-trip')
            key['cause'] = 'value does not round-trip'
            for f in ('feature', 'style', 'allow_unicode', 'types'):
                if f in k2:
                    key[f] = k2[f]
            return key
        key['cause'] = 're-dump differs'
    elif t['kind'] in ('contents', 'process'):
        outs = {}
        for hi, res in enumerate(results):
            for v in variants:
                outs.setdefault(res['outs']['%d/%s' % (v, meta['dumper'])], []).append((hi, v))
        groups = sorted(outs.values())
        per_interp_same = all(len({res['outs']['%d/%s' % (v, meta['dumper'])] for v in variants}) == 1 for res in results)
        key['varies_with'] = 'insertion order' if t['kind'] == 'contents' and not per_interp_same else \
            'interpreter (hash seed or history of earlier dumps)'
        kinds = sorted({type(k).__name__ for k in iter_keys(value)})
        key['key_types'] = kinds
    return key


def iter_keys(value):
    seen = set()

    def go(x):
        t = type(x)
        if t in (list, dict, set):
            if id(x) in seen:
                return
            seen.add(id(x))
            if t is dict:
                for k, v in x.items():
                    yield k
                    yield from go(v)
            elif t is set:
                yield from x
            else:
                for y in x:
                    yield from go(y)
    yield from go(value)


# ---------------------------------------------------------------- load order of written documents (clause "order", load side)
# pairwise unequal after construction by every loader (the plain '=' becomes the str '=': no quoted '=' next to it)
KEYTEXTS = ['a', 'b c', '7', '1.5', 'true', '~', '2001-01-01', '=', '"<<"', '0x1F', '.inf', '? x', '? "q r"']


def written_documents(tier):
    """mappings without merge keys whose keys are one plain text of every resolver class (incl. '=' and a quoted / tagged '<<'),
    every ordered triple (quick: every ordered pair plus a third key), block and flow style; the value of a key is its position"""
    docs = []
    ks = [k for k in KEYTEXTS if not k.startswith('? ')]
    if tier == 'quick':
        triples = [(a, b, 'z') for a in ks for b in ks if a != b] + [('z', a, b) for a in ks for b in ks if a != b]
    else:
        triples = [(a, b, c) for a in ks for b in ks for c in ks if len({a, b, c}) == 3]
    for t in triples:
        docs.append(('block', t, ''.join('%s: %d\n' % (k, i) for i, k in enumerate(t))))
        docs.append(('flow', t, '{' + ', '.join('%s: %d' % (k, i) for i, k in enumerate(t)) + '}\n'))
        docs.append(('nested', t, 'top:\n- ' + ''.join('%s%s: %d\n' % ('  ' if i else '', k, i) for i, k in enumerate(t))))
    for a in ks:                                   # complex keys next to it
        docs.append(('qkey', ('? x', a, '? "q r"'), '? x\n: 0\n%s: 1\n? "q r"\n: 2\n' % a))
    return docs


def written_order_work(docs):
    yaml = use_repo()
    loaders = ['SafeLoader', 'CSafeLoader', 'FullLoader', 'CFullLoader', 'UnsafeLoader', 'CUnsafeLoader', 'BaseLoader', 'CBaseLoader']
    out = []
    for style, keys, text in docs:
        for ln in loaders:
            L = getattr(yaml, ln, None)
            if L is None:
                continue
            try:
                d = yaml.load(text, Loader=L)
                if style == 'nested':
                    d = d['top'][0]
                load = ['p%s' % x for x in d.values()]
            except Exception as e:       # noqa
                load = ['error:' + type(e).__name__]
            pos = ['p%d' % i for i in range(len(keys))]
            out.append(({'kind': 'order', 'sort': False, 'outs': [], 'ins': [pos], 'doc': [pos], 'load': [load]},
                        {'loader': ln, 'style': style, 'keys': list(keys), 'text': text}))
    return out


def main(tier, replay=None):
    v = Verdict('C16', tier)
    yaml = use_repo()
    import datetime
    probe = datetime.datetime(2001, 1, 1, tzinfo=datetime.timezone(datetime.timedelta(seconds=1)))
    try:
        d7fixed = '+00:00:01' not in yaml.dump(probe, Dumper=yaml.SafeDumper)
    except Exception:
        d7fixed = False
    import time
    phases, t0 = {}, time.time()
    variants = VARIANTS[tier]
    hashseeds = [0, 1, 4242 + SEED]
    if replay:
        recipes = [x['detail']['recipe'] for x in json.load(open(replay))['violations']]
        states = trans = 0
        per_config, lasts = {}, {'replay': len(recipes)}
    else:
        names = os.environ['VERIF_DEV_CONFIGS'].split(',') if os.environ.get('VERIF_DEV_CONFIGS') else TIERS[tier]   # development aid
        runs = c02.run_configs(names, d7fixed, 'C16_', 16 if tier == 'thorough' else 6)
        states = trans = 0
        recipes, per_config, lasts = [], {}, {}
        for name in names:
            r = runs[name]
            if r.violated:
                print(r.out[-3000:])
                raise SystemExit('machinery failure: Represent.tla violates %s in configuration %s (L does not refine H in the model)' % (r.violated, name))
            tlc.require_ok(r, 'Represent/' + name)
            states += r.distinct
            trans += r.generated
            n = 0
            for part in mbt.pmap(recipes_of, r.dump, {'config': name, 'extra_opts': 0.25, 'twin_every': 1 if tier == 'quick' else 2}):
                for x in part:
                    if isinstance(x, str):
                        n += 1
                        lasts[x] = lasts.get(x, 0) + 1
                    else:
                        recipes.append(x)
            if n != r.distinct:
                raise SystemExit('machinery failure: read %d values, TLC found %d states' % (n, r.distinct))
            per_config[name] = {'states': r.distinct, 'tlc_s': round(r.wall, 1)}
            os.remove(r.dump)
        for k in ['init', 'item', 'entry', 'member']:
            if not lasts.get(k):
                raise SystemExit('machinery failure: no state was produced by step %s (vacuous)' % k)
        nstate_recipes = len(recipes)
        for i in range(RANDOM_VALUES[tier]):
            rng = random.Random('opts%d/%d' % (SEED, i))
            opts = U.random_options(rng)
            if rng.random() < 0.3:
                opts = {'sort_keys': opts['sort_keys'], 'default_flow_style': opts['default_flow_style']}
            recipes.append({'kind': 'random', 'seed': SEED, 'index': i, 'homog': 0.8 if i % 3 else 0.0, 'opts': U.opts_json(opts)})
            recipes.append(dict(recipes[-1], opts=U.opts_json(dict(opts, allow_unicode=not opts.get('allow_unicode'))), light=True))
    phases['tlc_model_checking_and_recipes_s'] = round(time.time() - t0, 1)
    t0 = time.time()
    results = run_children(recipes, hashseeds, variants, 'C16_%s' % tier)
    phases['child_interpreters_s'] = round(time.time() - t0, 1)
    t0 = time.time()
    # records -> TLC
    chunk = max(50, len(recipes) // 64)
    jobs = [(a, recipes[a:a + chunk], [results[hi][a:a + chunk] for hi in range(len(hashseeds))], variants)
            for a in range(0, len(recipes), chunk)]
    with mp.Pool(16) as pool:
        parts = pool.map(records_work, jobs, chunksize=1)
    uniq, order, nrec = {}, [], 0
    for pu, po, pn in parts:
        nrec += pn
        order += po                               # suspects are judged and classified one by one
        for k, x in pu.items():
            uniq.setdefault(k, x)                 # identical records are judged once
    traces = order + [(k, i, meta) for k, (i, meta) in uniq.items()]
    verdicts, tstates = judge_det([t for t, _, _ in traces], 'C16_td')
    phases['records_and_tlc_trace_judgement_s'] = round(time.time() - t0, 1)
    # load side of the order clause on written documents (keys of every resolver class; dump never writes a plain '=')
    wdocs = written_documents(tier) if not replay else []
    with mp.Pool(16) as pool:
        wrecs = [x for part in pool.map(written_order_work, [wdocs[i::32] for i in range(32)]) for x in part]
    wverd, wstates = judge_det([('', json.dumps(t, sort_keys=True)) for t, _ in wrecs], 'C16_written') if wrecs else ([], 0)
    tstates += wstates
    wrej = 0
    for (t, meta), (ok, why, at) in zip(wrecs, wverd):
        if not ok:
            wrej += 1
            v.violation({'clause': 'order', 'side': 'load of a written document', 'loader': meta['loader'], 'style': meta['style']},
                        {'document': meta['text'], 'keys': meta['keys'], 'loaded_positions': t['load'][0]})
    applies = {}
    rejected = 0
    for (t, i, meta), (ok, why, at) in zip(traces, verdicts):
        if why != 'n/a':
            applies[why] = applies.get(why, 0) + 1
        if not ok:
            rejected += 1
            t = json.loads(t[1])
            rec = recipes[i]
            per = [results[hi][i] for hi in range(len(hashseeds))]
            key = classify(yaml, rec, t, meta, per, variants)
            if rec['kind'] == 'state':
                key['config'] = rec['config']
            value, opts = U.rebuild(rec)
            v.violation(key, {'recipe': {k: x for k, x in rec.items() if k not in ('sortdet', 'alias')}, 'value': repr(value)[:400],
                              'record': {k: t[k] for k in ('kind', 'sort', 'outs')}, 'meta': meta})
    if not replay:
        for k in ['contents', 'process', 'fixed', 'order', 'anchors']:
            if not applies.get(k):
                raise SystemExit('machinery failure: no record to which clause "%s" applies (vacuous)' % k)
    runs_total = len(recipes) * len(hashseeds) * len(variants) * 2 + len(recipes) * 2 * (2 + 2)
    samples = []
    for rec in recipes[:400:80] + recipes[-3:]:
        value, opts = U.rebuild(rec)
        samples.append({'value': repr(value)[:140], 'options': rec['opts']})
    v.cov = {'phases': phases, 'states': states + tstates, 'transitions': trans, 'model_states': states, 'traces_validated_against_impl': runs_total,
             'values': len(recipes), 'interpreters_hashseeds': hashseeds, 'insertion_order_variants': variants,
             'records_judged_by_tlc': nrec + len(wrecs), 'written_documents_loaded_for_key_order': len(wdocs), 'written_document_records_rejected': wrej, 'distinct_records': len(traces), 'rejected_by_tlc': rejected,
             'records_where_clause_applies': applies, 'exhaustive': True,
             'distinct_nontrivial': sum(1 for r in recipes if r.get('alias') or r['kind'] == 'random'),
             'rule': 'one trace = one yaml.dump / dump(load(dump)) / dump_all of a value in one interpreter; a record groups the digests of '
                     'the runs of one value (hash seeds x insertion orders x process) and is judged by Trace_Determinism.tla; non-trivial = '
                     'model value whose document has an alias, or random value',
             'samples': samples[:8], 'steps': lasts, 'configs': per_config, 'invariants': INVARIANTS}
    v.assumptions = ['values as in C02; NaN keys and keys of different kinds are not "mutually comparable"',
                     'fixed-point / process-independence clauses are applied when every mapping and set is written sorted, or sort_keys is off '
                     'and the value has no set of two or more members (DESIGN.md 5.0)',
                     'insertion-order variants are built by re-inserting the same key objects into new dicts / sets']
    return v.finish()
