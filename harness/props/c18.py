"""C18 - streams are consumed incrementally, documents are delivered as they complete.

spec/Lazy.tla (H): requested <= end_k + 2*Block at delivery; documents before a malformed one are delivered before the
error (reader errors block-granular); abandoning the iteration disposes the loader.
spec/LazyPipe.tla (L): pull model API generator -> parser -> scanner -> reader -> stream.read with lazily chosen stream
content, read sizes and decoder tails; the bound is a consequence of need_more_tokens / one token of parser look-ahead /
refill on demand, not an assumption.

 (a) design check L => H for all abstract streams within the bounds x all read-size schedules x scan / parse / load,
     every action fired; three known-bad designs (eager tokenising, parser looking past '...', reader refilling while an
     undecoded tail remains) must violate H (negative controls: the oracle is not vacuous);
 (b) code -> spec: seeded multi-document streams (sizes from empty to several blocks, 1..50 documents, '---' / '...' /
     end-of-stream terminators, gaps of comments after '...', ASCII and multi-byte fillers, text / UTF-8 / UTF-16 streams,
     one malformed document per stream at most) under seeded read-size schedules through yaml.scan / parse / compose_all /
     load_all of both back-ends over instrumented streams; Block is the observed read(n) argument; the records
     [k, requested when delivered, end_k, block, yield/raise order, disposal, what survives of loader and stream once an
     abandoned generator is dropped - with the cycle collector disabled] are judged by TLC (Trace_Lazy.tla).
"""
import gc, io, os, random, shutil, threading, time, weakref, multiprocessing as mp
from .. import tlc, trace
from ..common import Verdict, use_repo, SEED, BUILD, REPO, ensure_dir

ACTIONS = ['Start', 'AbandonNew', 'Unwind', 'DetEnc', 'Refill', 'ScanStale', 'ScanReady', 'Skip', 'FetchEnd', 'FetchMarker', 'FetchTok',
           'FetchDirective', 'ScalarStart', 'ScalarMeasure', 'ScalarEol', 'ScalarNext', 'ParseDocStart0',
           'ParseDocStart', 'ParseContent', 'ParseDocEnd', 'ApiStep', 'ApiNext', 'Abandon']
ALLMODES = '{"scan", "parse", "load"}'
ALLSTYLES = '{"plain", "quoted", "block", "word"}'
HCLAUSES = ('H_Bound', 'H_Order', 'H_ReaderOrder', 'H_Dispose', 'H_Release', 'H_CallBound')


def design_configs(tier):
    base = dict(Block=4, MaxKey=3, TermLen=1, MaxTail=1, MaxDocs=2, MaxSize=6, MaxGap=9, Modes=ALLMODES, TrackBoundary='FALSE',
                Styles='{}', MaxTok=1, Directives='TRUE', Variant='"code"')
    # token extents: lexemes of up to MaxTok units (more than two blocks), measured the way the scanning routines do
    tok = dict(base, Styles=ALLSTYLES, MaxTok=9, MaxSize=10, MaxGap=2, Modes='{"load"}', Directives='FALSE')
    if tier == 'quick':
        return [('b4', base), ('b4tok', tok),
                # what sits at the read boundary (a CR or not) as a dimension of the environment
                ('b4cr', dict(base, TrackBoundary='TRUE', MaxSize=3, MaxGap=4, Modes='{"load"}', Directives='FALSE'))]
    return [('b4', dict(base, MaxDocs=3, MaxSize=12, MaxGap=12, MaxKey=4)),
            ('b4tok', dict(tok, Modes=ALLMODES, MaxTok=10, MaxSize=11)),
            ('b4tokcr', dict(tok, TrackBoundary='TRUE', MaxTok=6, MaxSize=7, Styles='{"plain", "block"}')),
            ('b4cr', dict(base, TrackBoundary='TRUE', Directives='FALSE')),
            ('b4t2', dict(base, MaxTail=2, MaxSize=8)),
            ('b8', dict(base, Block=8, TermLen=3, MaxTail=3, MaxKey=6, MaxSize=9, MaxGap=17, Modes='{"load", "scan"}'))]


# known-bad designs: (variant, constants on top of the quick base, the H clause the design is expected to break first)
NEGATIVE = [('early', {}, 'H_Release'), ('eager', {}, 'H_Order'), ('depeek', {}, 'H_Order'), ('greedy', {}, 'H_ReaderOrder'),
            ('shadow', {}, 'H_Release'), ('crjoin', dict(TrackBoundary='TRUE'), 'H_ReaderOrder'),
            ('window', dict(Styles='{"block", "plain"}', MaxTok=9, MaxSize=10, Modes='{"load"}'), 'H_Bound'),
            ('dirtable', dict(Directives='TRUE'), 'H_Release')]


def run_all(jobs, workers, concurrent):
    out = {}
    sem = threading.Semaphore(concurrent)

    def one(name, kw):
        with sem:
            out[name] = tlc.run('LazyPipe', workers=workers, **kw)
    th = [threading.Thread(target=one, args=j) for j in jobs]
    for t in th:
        t.start()
    for t in th:
        t.join()
    return out


# ------------------------------------------------------------------------------------------------ instrumented stream
class LogStream:
    """read(n) hands out the data according to a rule and logs (asked, got, offset)"""

    def __init__(self, data, rule, seed=0):
        self.data, self.pos, self.rule = data, 0, rule
        self.rnd = random.Random(seed)
        self.asked = 0            # largest n seen
        self.calls = 0
        self.name = '<logged>'

    def read(self, n=-1):
        self.calls += 1
        want = n if n is not None and n >= 0 else len(self.data)
        self.asked = max(self.asked, want)
        kind = self.rule[0]
        if kind == 'full':
            k = want
        elif kind == 'chunk':
            k = min(want, self.rule[1])
        else:
            k = self.rnd.randint(1, max(1, min(want, self.rule[1])))
        piece = self.data[self.pos:self.pos + k]
        self.pos += len(piece)
        return piece


def observed_block(yaml, be):
    """the read size the back-end asks for: measured, not assumed (a tree on which even this probe fails is judged with
    what the probe was asked for before it failed, or the documented size)"""
    s = LogStream(b'a: 1\n', ('full',))
    try:
        L = yaml.SafeLoader if be == 'py' else yaml.CSafeLoader
        for _ in yaml.scan(s, Loader=L):
            pass
    except Exception:
        pass
    return s.asked if s.asked > 0 else {'py': 4096, 'c': 16384}[be]


# ------------------------------------------------------------------------------------------------ stream generator
FILL = {'ascii': 'x', 'b2': '\u044f', 'b3': '\u20ac', 'b4': '\U0001F600'}


def filler(rnd, n, cls, longline):
    """n characters of comment lines (never a token)"""
    if n <= 0:
        return ''
    ch = FILL[cls]
    if n < 3:
        return '\n' * n
    out = []
    left = n
    while left > 0:
        ln = left if longline else min(left, rnd.choice([30, 77, 200]))
        if ln < 3:
            out.append('\n' * ln)
        else:
            out.append('#' + (' ' if rnd.random() < 0.5 else '') + ch * (ln - 2 - (1 if out and False else 0)))
            out[-1] = out[-1][:ln - 1] + '\n'
        left -= ln
    return ''.join(out)


def body(rnd, i, n, cls, longline):
    """about n characters of a block mapping (document i), padded with comment lines"""
    if n <= 0:
        return ''
    ch = FILL[cls]
    # every feature of the scanner / parser: plain, quoted (single, double, multi-line), literal and folded block scalars,
    # block and flow collections, anchors and aliases, tags, complex keys
    lines = ['k%d: v%s\n' % (i, ch), 'seq:\n  - a\n  - %s\n' % (ch * 3), '"q%s": [1, 2]\n' % ch, 's: &a%d text\nr: *a%d\n' % (i, i),
             'b: |\n  text %s\n\n  more\n' % ch, 'o: >-\n  folded %s\n  text\n' % ch, 'f: {a: 1, b: [x, %s], c: }\n' % ch,
             't: !!str 12\n', "g: 'it''s %s'\n" % ch, 'm: "two\\t%s\n  lines"\n' % ch, '? c%d\n: !!seq [d]\n' % i]
    out, used = [], 0
    for ln in lines:
        if used + len(ln) <= n and rnd.random() < 0.8:
            out.append(ln)
            used += len(ln)
    if not out:                       # too small for an entry: an empty document with comments
        return filler(rnd, n, cls, longline)
    pad = filler(rnd, n - used, cls, longline)
    k = rnd.randrange(len(out) + 1)
    # comment lines between entries (never inside the nested sequence)
    return ''.join(out[:k]) + pad + ''.join(out[k:])


BADLINE = {'scanner': '@bad\n', 'parser': ']\n', 'composer': 'u: *undefined\n', 'constructor': 'w: !nosuchtag x\n',
           'reader': 'n: a\x01b\n'}
RAISES = {'scanner': ('scan', 'parse', 'compose_all', 'load_all'), 'parser': ('scan', 'parse', 'compose_all', 'load_all'),
          'composer': ('compose_all', 'load_all'), 'constructor': ('load_all',),
          'reader': ('scan', 'parse', 'compose_all', 'load_all')}


def build_stream(rnd, block, ndocs, maxblocks):
    """-> (text, ends [character offsets], bad (kind, doc index 1.., character offset) or None)"""
    cls = rnd.choice(['ascii', 'ascii', 'b2', 'b3', 'b4'])
    sizes = []
    budget = maxblocks * block
    for i in range(ndocs):
        r = rnd.random()
        if r < 0.15:
            s = 0
        elif r < 0.55 or budget < block:
            s = rnd.randint(1, 60)
        elif r < 0.7:
            s = rnd.randint(block // 2, block)
        elif r < 0.85:
            s = block + rnd.randint(-3, 3)
        else:
            s = int(block * rnd.choice([1.5, 2.2, 3.1]))
        s = min(s, max(0, budget))
        budget -= s
        sizes.append(s)
    badkind = rnd.choice([None, None, 'scanner', 'parser', 'composer', 'constructor', 'reader'])
    badkdoc = rnd.randrange(ndocs) if badkind else None
    parts, ends, bad = [], [], None
    pos = 0
    open_doc = False

    def emit(s):
        nonlocal pos
        parts.append(s)
        pos += len(s)
    for i, s in enumerate(sizes):
        b = body(rnd, i, s, cls, longline=rnd.random() < 0.4)
        has_token = any(ln and not ln.startswith('#') for ln in b.split('\n'))
        # only the first document may be implicit, and only if it has content (comments alone are no document)
        explicit = i > 0 or rnd.random() < 0.7 or not has_token
        if open_doc:                 # the previous document is terminated by this '---'
            ends.append(pos)
        if explicit:
            if not open_doc and rnd.random() < 0.5:      # directives: at the start of the stream or after '...' (and its gap)
                emit(rnd.choice(['%YAML 1.1\n', '%TAG !e! tag:example.com,2000:app/\n',
                                 '%YAML 1.1\n%TAG ! tag:example.com,2000:\n%TAG !e! tag:e.org,1:\n', '%YAML 1.1 # c\n']))
            emit('---\n' if rnd.random() < 0.8 or s == 0 else '--- # c\n')
        if badkdoc == i:
            cut = rnd.choice([0, len(b)]) if b else 0
            line = BADLINE[badkind]
            bad = (badkind, i + 1, pos + cut + (line.index('\x01') if badkind == 'reader' else 0))
            b = b[:cut] + line + b[cut:]
        emit(b)
        open_doc = True
        if rnd.random() < 0.35:      # explicit end marker, then a gap of comments / blank lines
            ends.append(pos)
            emit('...\n')
            open_doc = False
            g = rnd.choice([0, 0, rnd.randint(1, 50), int(block * rnd.choice([0.6, 2.6, 3.3]))])
            g = min(g, max(0, budget))
            budget -= g
            emit(filler(rnd, g, cls, longline=rnd.random() < 0.5))
    if open_doc:
        if rnd.random() < 0.3:
            emit(filler(rnd, rnd.randint(1, 40), cls, False))
        ends.append(pos)
    return ''.join(parts), ends, bad


def to_units(text, ends, bad, form):
    """the stream in units of its form (characters, or bytes of the encoding) and the offsets converted (one pass)"""
    if form == 'text':
        return text, list(ends), (bad[2] if bad else 0)
    enc, bom = ('utf-8', b'') if form == 'utf-8' else ('utf-16-le', b'\xff\xfe')
    want = sorted(set(ends) | ({bad[2]} if bad else set()))
    off, pos, j = {}, len(bom), 0
    for i, ch in enumerate(text):
        while j < len(want) and want[j] == i:
            off[i] = pos
            j += 1
        o = ord(ch)
        pos += (1 if o < 0x80 else 2 if o < 0x800 else 3 if o < 0x10000 else 4) if enc == 'utf-8' else (2 if o < 0x10000 else 4)
    for w in want[j:]:
        off[w] = pos
    return bom + text.encode(enc), [off[e] for e in ends], (off[bad[2]] if bad else 0)


# ------------------------------------------------------------------------------------------------ long lexemes
# What a document ends with is a dimension of its own: one lexeme of every kind the scanner has a routine for, n units long,
# n around and well above the refill block, and more documents behind it.  The scanner must not look further beyond the end
# of a lexeme than a constant, whatever its length (LazyPipe.tla: ScalarMeasure / ScalarEol / ScalarNext).
TAILKINDS = {
    'literal': lambda x, n: '--- |\n  ' + x * n + '\n',
    'folded': lambda x, n: '--- >\n  ' + x * n + '\n',
    'literal-last-line': lambda x, n: '--- |\n  a\n\n  b\n  ' + x * n + '\n',
    'literal-keep': lambda x, n: '---\nk: |+\n  ' + x * n + '\n\n',
    'plain': lambda x, n: '--- ' + x * n + '\n',
    'plain-value': lambda x, n: '---\nk: ' + x * n + '\n',
    'plain-continued': lambda x, n: '---\nk: a\n  ' + x * n + '\n',
    'plain-item': lambda x, n: '---\n- a\n- ' + x * n + '\n',
    'complex-key': lambda x, n: '---\n? ' + x * n + '\n: v\n',
    'single': lambda x, n: "--- '" + x * n + "'\n",
    'double': lambda x, n: '--- "' + x * n + '"\n',
    'double-blanks': lambda x, n: '--- "a' + ' ' * n + 'b"\n',
    'double-continued': lambda x, n: '--- "a\n  ' + x * n + '"\n',
    'flow-plain': lambda x, n: '--- [a, ' + x * n + ']\n',
    'comment': lambda x, n: '--- a\n#' + x * n + '\n',
    'comment-inline': lambda x, n: '--- a #' + x * n + '\n',
    'comment-indented': lambda x, n: '---\nk:\n  - a\n  #' + x * n + '\n',
    'tag': lambda x, n: '--- !' + 'x' * n + ' v\n',
    'tag-verbatim': lambda x, n: '--- !<' + 'x' * n + '> v\n',
    'tag-alone': lambda x, n: '--- !!' + 'x' * n + '\n',
    'anchor': lambda x, n: '--- &' + 'x' * n + ' v\n',
    'alias': lambda x, n: '---\n- &' + 'x' * n + ' v\n- *' + 'x' * n + '\n',
    'blanks': lambda x, n: '--- a' + ' ' * n + '\n',
    'blank-line': lambda x, n: '--- a\n' + ' ' * n + '\n',
    'empty-lines': lambda x, n: '--- a\n' + '\n' * n,
    'indentation': lambda x, n: '---\nk:\n' + ' ' * n + 'v\n',
    'directive-behind': lambda x, n: '--- a\n...\n%TAG !e! tag:' + 'x' * n + '\n',
    'directive-comment-behind': lambda x, n: '--- a\n...\n%YAML 1.1 #' + x * n + '\n',
}
TAILTAGGED = ('tag', 'tag-verbatim', 'tag-alone')            # unknown tags: load_all raises a ConstructorError for this document
TAILLENS = [('b-2', lambda b: b - 2), ('b+1', lambda b: b + 1), ('2b-1', lambda b: 2 * b - 1), ('2b+2', lambda b: 2 * b + 2),
            ('3b+5', lambda b: 3 * b + 5), ('5b+1', lambda b: 5 * b + 1), ('9b+3', lambda b: 9 * b + 3), ('17b+1', lambda b: 17 * b + 1)]


def build_tail(rnd, block, kind, n, cls):
    """-> (text, ends, bad): a small document, the document that ends with the lexeme, four small documents, one long one"""
    lead = '--- # head\nk0: v\n' + filler(rnd, rnd.choice([0, 7, block // 3, block - 9, block + 1]), cls, False)
    docs = [lead, TAILKINDS[kind](FILL[cls], n)]
    docs += ['---\nk%d: v\n' % i for i in range(4)]
    docs.append('---\nlast: v\n' + filler(rnd, 3 * block + 77, cls, False))
    text = ''.join(docs)
    ends, pos = [], 0
    for i, d in enumerate(docs):
        pos += len(d)
        ends.append(pos)
    if '...\n' in docs[1]:                 # this document ends at its '...'
        ends[1] = len(docs[0]) + docs[1].index('...\n')
    bad = ('constructor', 2, len(docs[0])) if kind in TAILTAGGED else None
    return text, ends, bad


# ------------------------------------------------------------------------------------------------ record-structured streams
BREAKS = ['\r\n', '\r', '\n', '\x85', '\u2028']
WHERE = ['first', 'last', 'char', 'mid']
COMBOS = [(b_, w_) for b_ in BREAKS for w_ in WHERE if not (len(b_) == 1 and w_ == 'last')]


def build_records(block, form, brk, where, nblocks):
    """fixed-width records, one document each ('--- digits' + break), whose width in units of the stream divides the block
    size, behind a header line padded so that the SAME unit of every record's line break sits at offset k*block - 1 for
    every k: the last unit of the first break character ('first': a CR LF pair straddles the boundary), the last unit of
    the break ('last': the pair ends exactly at it), the unit before the break ('char': control) or a unit inside a
    multi-unit break character ('mid').  -> (data, ends in units, description) or None if the layout is impossible"""
    enc = {'text': None, 'utf-8': 'utf-8', 'utf-16-le': 'utf-16-le'}[form]
    ulen = (lambda x: len(x)) if enc is None else (lambda x: len(x.encode(enc)))
    bom = 2 if form == 'utf-16-le' else 0
    for W in (16, 32, 64, 8, 128):
        if block % W:
            continue
        fixed, one = ulen('--- ' + brk), ulen('0')
        if W <= fixed or (W - fixed) % one:
            continue
        nd = (W - fixed) // one
        s0 = W - ulen(brk)
        p = {'first': s0 + ulen(brk[0]) - 1, 'last': W - 1, 'char': s0 - 1, 'mid': s0}[where]
        if where == 'mid' and ulen(brk[0]) == 1:
            return None
        hfix, hone = ulen('#' + brk), ulen('x')
        m = next((m for m in range(0, 2 * W + 2) if (bom + hfix + m * hone + p) % W == (block - 1) % W), None)
        if m is None:
            continue
        header = '#' + 'x' * m + brk
        H = bom + hfix + m * hone
        n = max(3, (nblocks * block - H) // W)
        lo = 10 ** (nd - 1) if nd > 1 else 1
        text = header + ''.join('--- %0*d%s' % (nd, (lo + i) % (10 ** nd), brk) for i in range(n))
        data = text if enc is None else (b'\xff\xfe' if bom else b'') + text.encode(enc)
        ends = [H + W * (i + 1) for i in range(n - 1)] + [len(data)]
        assert len(data) == H + W * n
        return data, ends, 'records W=%d header=%d unit@boundary=%s of %r' % (W, H, where, brk)
    return None


# ------------------------------------------------------------------------------------------------ real file objects
FILEKINDS = ['raw', 'rb', 'text']


def open_file(kind, path, enc):
    if kind == 'raw':
        return open(path, 'rb', buffering=0)              # io.FileIO
    if kind == 'rb':
        return open(path, 'rb')                           # io.BufferedReader
    return open(path, 'r', encoding=enc, newline='')      # io.TextIOWrapper, no newline translation


def file_slack(kind, path, enc, block):
    """the file object's own read-ahead, measured without PyYAML while the file is read in read(block) calls: 0 if the
    descriptor never runs ahead of what was handed out (raw file); otherwise the largest advance of the descriptor seen
    in one call - what a buffered / decoding file object fetches at a time bounds what it can hold back"""
    f = open_file(kind, path, enc)
    fd = f.fileno()
    total = ahead = step = last = 0
    while True:
        r = f.read(block)
        if not r:
            break
        total += len(r) if isinstance(r, bytes) else len(r.encode(enc, 'surrogatepass'))
        pos = os.lseek(fd, 0, os.SEEK_CUR)
        ahead = max(ahead, pos - total)
        step = max(step, pos - last)
        last = pos
    f.close()
    return step if ahead > 0 else 0


# ------------------------------------------------------------------------------------------------ one observed iteration
_SEEN = {'disposals': 0, 'refs': []}
_LC = {}


def loader_class(yaml, be):
    """SafeLoader / CSafeLoader subclass that counts dispose() calls and hands out weak references to its instances"""
    if be not in _LC:
        base = yaml.SafeLoader if be == 'py' else yaml.CSafeLoader

        class L(base):
            def __init__(self, stream):
                _SEEN['refs'].append(weakref.ref(self))
                base.__init__(self, stream)

            def dispose(self):
                _SEEN['disposals'] += 1
                base.dispose(self)
        _LC[be] = L
    return _LC[be]


CRASHED = {'yields': [], 'outcome': 'exception', 'disposals': 0, 'readsAfter': 0, 'atcall': 0, 'built': 0, 'alive': [], 'held': '',
           'block': 0, 'calls': 0, 'nitems': 0}


def iterate(yaml, api, be, data, rule, seed, abandon, fileof=None):
    """total: whatever the tree under test does inside an iteration is an observation (outcome "exception"), never a crash
    of the check"""
    try:
        return _iterate(yaml, api, be, data, rule, seed, abandon, fileof)
    except Exception as e:
        return dict(CRASHED, errclass=type(e).__name__)


def _iterate(yaml, api, be, data, rule, seed, abandon, fileof=None):
    """abandon: None | ('doc', k) after the k-th delivered document | ('item', j) after the j-th yielded item.
    Release is observed by its effect: with the cyclic garbage collector disabled, weak references to the loader and to
    the stream must be dead as soon as the generator has been closed and dropped (reference counting frees what no cycle
    holds)."""
    seen = _SEEN
    seen['disposals'], seen['refs'] = 0, []
    assert not gc.isenabled()          # the worker runs with the cycle collector off (collect() between batches)
    L = loader_class(yaml, be)
    if True:
        if fileof is None:
            stream = LogStream(data, rule, seed)
            where = lambda: stream.pos
            nreads = lambda: stream.calls
        else:               # a real file object: consumption is observed from outside, at the file descriptor
            stream = open_file(*fileof)
            fd = os.dup(stream.fileno())
            where = lambda: os.lseek(fd, 0, os.SEEK_CUR)
            nreads = where
        sref = weakref.ref(stream)
        yields, outcome, err = [], 'done', ''
        open_doc = False
        nitems = 0
        item = gen = None
        atcall = 0
        try:
            # the call is the first step of the iteration: whatever it reads or raises is an observation
            gen = getattr(yaml, api)(stream, Loader=L)
            atcall = where()
            if abandon is not None and abandon[1] == 0:           # dropped before the first item is asked for (k = 0)
                outcome = 'abandoned'
            for item in (gen if outcome == 'done' else ()):
                nitems += 1
                delivered = False
                if api in ('load_all', 'compose_all'):
                    delivered = True
                elif api == 'parse':
                    delivered = isinstance(item, yaml.DocumentEndEvent)
                else:
                    if isinstance(item, yaml.DocumentStartToken):
                        delivered, open_doc = open_doc, True
                    elif isinstance(item, (yaml.DocumentEndToken, yaml.StreamEndToken)):
                        delivered, open_doc = open_doc, False
                    elif not isinstance(item, (yaml.StreamStartToken, yaml.DirectiveToken)):     # directives precede a document
                        open_doc = True
                if delivered:
                    yields.append({'k': len(yields) + 1, 'req': where()})
                if abandon is not None and ((abandon[0] == 'doc' and delivered and len(yields) >= abandon[1]) or
                                            (abandon[0] == 'item' and nitems >= abandon[1])):
                    outcome = 'abandoned'
                    break
        except yaml.YAMLError as e:
            outcome, err = 'raised', ('reader' if isinstance(e, yaml.reader.ReaderError) else type(e).__name__)
        except Exception as e:
            outcome, err = 'exception', type(e).__name__
        item = None
        calls_before = nreads()
        try:
            if gen is not None:
                gen.close()
        except Exception as e:          # close() runs the finally clause of the code under test
            if outcome in ('done', 'abandoned'):
                outcome, err = 'exception', 'close:' + type(e).__name__
        del gen
        reads_after = nreads() - calls_before
        block, calls = (stream.asked, stream.calls) if fileof is None else (0, 0)
        if fileof is not None:
            os.close(fd)
            keep = stream           # closed by us below; whether the file object dies is not ours to observe then
        del stream
        # the effect of release, cycle collector out of the picture
        alive, held = [], ''
        for r in seen['refs']:
            o = r()
            if o is not None:
                alive.append('loader')
                st = getattr(o, 'state', None)            # diagnosis only (internal attribute)
                held = 'state=%s states=%d' % (getattr(st, '__name__', st), len(getattr(o, 'states', None) or []))
                del o
                break
        if fileof is None and sref() is not None:
            alive.append('stream')
        if fileof is not None:
            keep.close()
            del keep
    if alive:
        gc.collect()
    return {'yields': yields, 'outcome': outcome, 'errclass': err, 'disposals': seen['disposals'], 'readsAfter': reads_after,
            'atcall': atcall, 'built': len(seen['refs']),
            'alive': alive, 'held': held, 'block': block, 'calls': calls, 'nitems': nitems}


def maxwidth(text, enc):
    return max([len(ch.encode(enc, 'surrogatepass')) for ch in set(text)] or [1])


APIS = ('scan', 'parse', 'compose_all', 'load_all')
NOBAD = {'kind': '-', 'doc': 0, 'at': 0}


def points(n, tier):
    """the abandonment points tried for an iteration of n items: every one of 0..n (0: before the first item is asked
    for; n: after the last one, the generator not yet exhausted) up to a cap, beyond it the first ones and an even spread"""
    cap = 16 if tier == 'quick' else 120
    if n <= cap:
        return list(range(n + 1))
    h = cap // 2
    return sorted(set(range(h)) | {h + ((n - h) * i) // h for i in range(h + 1)})


def work(args):
    jobs, tier, blocks = args
    yaml = use_repo()
    traces, meta = [], []
    tmp = ensure_dir(os.path.join(BUILD, 'c18_files', str(os.getpid())))
    gc.collect()
    gc.disable()            # release is observed by its effect, the cycle collector out of the picture (see iterate)

    def record(o, api, be, uends, bad, ubad, block, slack, m):
        b = {'kind': '-', 'doc': 0, 'at': 0}
        if bad and api in RAISES[bad[0]]:
            b = {'kind': 'reader' if bad[0] == 'reader' else 'other', 'doc': bad[1], 'at': ubad}
        traces.append({'judge': 'all', 'block': block, 'slack': slack, 'api': api, 'be': be, 'ends': uends, 'yields': o['yields'],
                       'outcome': o['outcome'], 'bad': b, 'disposals': o['disposals'], 'readsAfter': o['readsAfter'],
                       'alive': o['alive'], 'atcall': o['atcall'], 'built': o['built'], 'abandons': []})
        meta.append(dict(m, be=be, api=api, ndocs=len(uends), held=o['held'], errclass=o['errclass']))

    def through_file(sd, be, rnd, text, ends, bad, apis, m):
        """the same stream through a real file object; positions of the descriptor, in bytes"""
        kind = FILEKINDS[sd % 3]
        enc = 'utf-16-le' if m.get('form') == 'utf-16-le' else 'utf-8'
        if isinstance(text, bytes):
            data, uends, ubad = text, ends, 0
            maxw = maxwidth(data.decode(enc, 'surrogatepass'), enc)
        else:
            data, uends, ubad = to_units(text, ends, bad, enc)
            maxw = maxwidth(text, enc)
        path = os.path.join(tmp, 's%d_%s' % (sd, be))
        with open(path, 'wb') as f:
            f.write(data)
        asked = blocks[be]
        slack = file_slack(kind, path, enc, asked)
        block = asked * (maxw if kind == 'text' else 1)       # read(n) of a text file asks for n characters
        for i, api in enumerate(apis):
            for ab in ([None, ('doc', 0)] if i == 0 else [None]):
                o = iterate(yaml, api, be, None, None, sd, ab, fileof=(kind, path, enc))
                record(o, api, be, uends, bad, ubad, block, slack,
                       dict(m, file=kind, units=len(data), slack=slack, abandon_after=list(ab) if ab else None))
        os.remove(path)

    def release(data, m):
        """every abandonment point of every entry point of both back-ends over one stream: one trace per iteration, the
        abandoned repetitions as its `abandons`"""
        for be in ('py', 'c'):
            for api in APIS:
                full = iterate(yaml, api, be, data, ('full',), 0, None)
                ab = []
                for j in points(full['nitems'], tier):
                    o = iterate(yaml, api, be, data, ('full',), 0, ('item', j))
                    if o['outcome'] == 'abandoned':
                        ab.append({'at': j, 'built': o['built'], 'disposals': o['disposals'], 'readsAfter': o['readsAfter'],
                                   'alive': o['alive'], 'held': o['held']})
                traces.append({'judge': 'release', 'block': 0, 'slack': 0, 'api': api, 'be': be, 'ends': [], 'yields': [],
                               'outcome': full['outcome'], 'bad': NOBAD, 'disposals': full['disposals'],
                               'readsAfter': full['readsAfter'], 'alive': full['alive'], 'atcall': full['atcall'],
                               'built': full['built'], 'abandons': ab})
                meta.append(dict(m, be=be, api=api, ndocs=0, held=full['held'], errclass=full['errclass'], items=full['nitems'],
                                 abandon_after=None))

    def tail(idx):
        """a document that ends with a long lexeme: kind x length enumerated by index; stream form, read rule, filler and
        alignment seeded"""
        names = sorted(TAILKINDS)
        kind, (lname, lfun) = names[idx % len(names)], TAILLENS[idx // len(names)]
        rnd = random.Random(SEED * 7919 + idx)
        form = ['text', 'utf-8', 'utf-16-le'][(idx + idx // len(names) + SEED) % 3]
        cls = rnd.choice(['ascii', 'ascii', 'b2', 'b3', 'b4'])
        for be in ('py', 'c'):
            block = blocks[be]
            text, ends, bad = build_tail(rnd, block, kind, lfun(block), cls)
            data, uends, ubad = to_units(text, ends, bad, form)
            rule = rnd.choice([('full',), ('full',), ('chunk', block // 2), ('chunk', 1000), ('rand', block)])
            m = {'seed': idx, 'form': form, 'rule': list(rule), 'units': len(data), 'bad': list(bad) if bad else None,
                 'tail': kind, 'length': lname, 'text_head': text[:60]}
            for api in APIS:
                ab = ('doc', 5)              # what follows the lexeme matters, not how long the iteration goes on
                o = iterate(yaml, api, be, data, rule, idx, ab)
                record(o, api, be, uends, bad, ubad, block, 0, dict(m, asked=o['block'], abandon_after=list(ab)))

    for job, sd in jobs:
        if job == 'tail':
            tail(sd)
            gc.collect()
            continue
        if job == 'corpus':
            with open(sd, 'rb') as f:
                data = f.read()
            release(data, {'seed': 0, 'form': 'corpus', 'source': os.path.basename(sd), 'units': len(data), 'bad': None})
            gc.collect()
            continue
        rnd = random.Random(sd)
        if job == 'gen':
            # a small generated stream with every feature (and possibly one malformed document), every abandonment point
            text, ends, bad = build_stream(rnd, 200, rnd.choice([1, 2, 3, 4, 6]), 3)
            data = to_units(text, ends, bad, rnd.choice(['text', 'utf-8', 'utf-16-le']))[0]
            release(data, {'seed': sd, 'form': 'generated', 'units': len(data), 'bad': list(bad) if bad else None,
                           'text_head': text[:120]})
            gc.collect()
            continue
        for be in ('py', 'c'):
            block = blocks[be]
            if sd % 4 == 3:
                # record-structured stream: which unit of the line break sits at every block boundary is enumerated
                j = sd // 4
                brk, where = COMBOS[j % len(COMBOS)]
                form = ['text', 'utf-8', 'utf-16-le'][(j // len(COMBOS) + j) % 3]
                rule = [('full',), ('chunk', block // 2), ('chunk', block // 4), ('full',)][(j // len(COMBOS)) % 4]
                r = build_records(block, form, brk, where, 5 if be == 'py' else 4)
                if r is None:
                    r = build_records(block, form, brk, 'first', 5 if be == 'py' else 4)
                data, uends, desc = r
                m = {'seed': sd, 'form': form, 'rule': list(rule), 'units': len(data), 'bad': None, 'break': brk,
                     'layout': desc, 'abandon_after': None}
                full_api = ('scan', 'parse', 'compose_all', 'load_all')[j % 4]
                for api in ('scan', 'parse', 'compose_all', 'load_all'):
                    ab = None if (api == full_api and len(uends) <= 1500) else \
                        ('doc', min(len(uends), (300 + sd % 200) if api == full_api else (40 + sd % 50)))
                    o = iterate(yaml, api, be, data, rule, sd, ab)
                    record(o, api, be, uends, None, 0, block, 0, dict(m, asked=o['block'], abandon_after=list(ab) if ab else None))
                o = iterate(yaml, full_api, be, data, rule, sd, ('doc', 0))
                record(o, full_api, be, uends, None, 0, block, 0, dict(m, asked=o['block'], abandon_after=['doc', 0]))
                if j % 2 == 0:
                    through_file(sd, be, rnd, data, uends, None, [full_api], m)
                continue
            ndocs = rnd.choice([1, 2, 2, 3, 3, 4, 6, 10, 25, 50])
            maxblocks = rnd.choice([2, 5, 9]) if be == 'py' else rnd.choice([2, 5, 7])
            text, ends, bad = build_stream(rnd, block, ndocs, maxblocks)
            brk = rnd.choice(['\n', '\n', '\r\n', '\r'])          # line break style of the whole stream
            if brk != '\n':
                if brk == '\r\n':
                    shift = [0]
                    for ch in text:
                        shift.append(shift[-1] + (1 if ch == '\n' else 0))
                    ends = [e + shift[e] for e in ends]
                    if bad:
                        bad = (bad[0], bad[1], bad[2] + shift[bad[2]])
                text = text.replace('\n', brk)
            form = rnd.choice(['text', 'utf-8', 'utf-8', 'utf-16-le'])
            data, uends, ubad = to_units(text, ends, bad, form)
            rule = rnd.choice([('full',), ('full',), ('chunk', rnd.choice([1000, 17, block - 1, block // 2, 4096])),
                               ('rand', rnd.choice([50, 3000, block]))])
            if rule[0] == 'chunk' and rule[1] < 64 and len(data) > 30000:
                rule = ('chunk', 1000)
            m = {'seed': sd, 'form': form, 'rule': list(rule), 'units': len(data), 'bad': list(bad) if bad else None,
                 'break': brk, 'text_head': text[:120]}
            apis = ('scan', 'parse', 'compose_all', 'load_all')
            for api in apis:
                plans = [None]
                if len(ends) >= 1 and rnd.random() < 0.5:
                    plans.append(('doc', rnd.randint(1, len(ends))))
                if rnd.random() < 0.3:                                      # before the first item is asked for
                    plans.append(('doc', 0))
                if api in ('scan', 'parse') and rnd.random() < 0.4:        # in the middle of a document
                    plans.append(('item', rnd.randint(1, 4 + 6 * len(ends))))
                for ab in plans:
                    o = iterate(yaml, api, be, data, rule, sd, ab)
                    record(o, api, be, uends, bad, ubad, block, 0, dict(m, asked=o['block'], abandon_after=list(ab) if ab else None))
            if sd % 2 == 0:          # "the stream" is also a real file: text / buffered / raw, observed at the descriptor
                through_file(sd, be, rnd, text, ends, bad, rnd.sample(apis, 2), m)
        gc.collect()
    gc.enable()
    shutil.rmtree(tmp, ignore_errors=True)
    return traces, meta


# ------------------------------------------------------------------------------------------------ main
def observe(parts, tier, blocks, procs=int(os.environ.get('VERIF_C18_PROCS', '12'))):
    """work() over the parts in a pool; a worker process that dies (the tree under test took the interpreter down) is an
    observation too: the part is repeated job by job, each in a process of its own, and the job that cannot be finished
    yields one record with outcome "exception" """
    from concurrent.futures import ProcessPoolExecutor
    from concurrent.futures.process import BrokenProcessPool
    outs, lost = [], []
    try:
        with ProcessPoolExecutor(procs) as ex:
            outs = list(ex.map(work, [(p_, tier, blocks) for p_ in parts], chunksize=1))
        return outs
    except BrokenProcessPool:
        pass
    outs = []
    for job in [j_ for p_ in parts for j_ in p_]:
        try:
            with ProcessPoolExecutor(1) as ex:
                outs.append(ex.submit(work, ([job], tier, blocks)).result())
        except BrokenProcessPool:
            t = dict(CRASHED, judge='all', block=blocks['py'], slack=0, api='load_all', be='py', ends=[1], bad=NOBAD, abandons=[])
            t.pop('held'), t.pop('calls'), t.pop('nitems')
            outs.append(([t], [{'seed': job[1], 'form': str(job[0]), 'bad': None, 'be': 'py', 'api': 'load_all', 'ndocs': 1,
                                'held': '', 'errclass': 'worker process died', 'abandon_after': None}]))
    return outs


def main(tier, replay=None):
    v = Verdict('C18', tier)
    q = tier == 'quick'
    t0 = time.time()
    # (a) design check and negative controls
    dc = design_configs(tier)
    qbase = design_configs('quick')[0][1]
    jobs = [(n, dict(cfg='MC_LazyPipe.cfg', constants=c, tag='C18_' + n, timeout=3000, heap='3g' if q else '5g')) for n, c in dc]
    # the controls are checked against the H clauses only (MC_LazyPipeH.cfg)
    jobs += [('neg-' + var, dict(cfg='MC_LazyPipeH.cfg', constants=dict(dict(qbase, MaxGap=10, Directives='FALSE'), Variant='"%s"' % var, **extra),
                                tag='C18_neg_' + var, timeout=900, heap='2g', coverage=False)) for var, extra, _ in NEGATIVE]
    res = {}
    tw, tc = [int(x) for x in os.environ.get('VERIF_C18_TLC', '4,5' if q else '5,4').split(',')]      # workers per TLC run, runs side by side
    th = threading.Thread(target=lambda: res.update(run_all(jobs, workers=tw, concurrent=tc)))
    th.start()
    # (b) run the real code while TLC works
    try:
        yaml = use_repo()
        blocks = {'py': observed_block(yaml, 'py'), 'c': observed_block(yaml, 'c')}
    except Exception as e:                 # a tree that cannot even be imported delivers nothing
        yaml, blocks = None, {'py': 4096, 'c': 16384}
        v.note('the package under test cannot be imported: %s: %s' % (type(e).__name__, e))
    nstreams = 160 if q else 1600
    work_jobs = [('seed', SEED * 1000003 + i) for i in range(nstreams)]
    ntail = len(TAILKINDS) * (6 if q else len(TAILLENS))
    work_jobs += [('tail', i) for i in range(ntail)]
    cdir = os.path.join(REPO, 'tests', 'legacy_tests', 'data')
    corpus = sorted(f for f in (os.listdir(cdir) if os.path.isdir(cdir) else []) if os.path.isfile(os.path.join(cdir, f)))
    work_jobs += [('corpus', os.path.join(cdir, f)) for f in corpus]
    ngen = 60 if q else 600
    work_jobs += [('gen', SEED * 1000003 + 5000000 + i) for i in range(ngen)]
    nch = 96
    if yaml is None:
        t = dict(CRASHED, judge='all', block=4096, slack=0, api='load_all', be='py', ends=[1], bad=NOBAD, abandons=[])
        t.pop('held'), t.pop('calls'), t.pop('nitems')
        outs = [([t], [{'seed': 0, 'form': 'import', 'bad': None, 'be': 'py', 'api': 'load_all', 'ndocs': 1, 'held': '',
                        'errclass': 'ImportError', 'abandon_after': None}])]
    else:
        outs = observe([work_jobs[i::nch] for i in range(nch) if work_jobs[i::nch]], tier, blocks)
    th.join()
    phases = {'tlc+observe': round(time.time() - t0, 1)}
    states = trans = 0
    fired = {}
    for n, _c in dc:
        r = res[n]
        if r.violated:
            print(r.out[-3000:])
            raise SystemExit('machinery failure: LazyPipe.tla violates %s in configuration %s (L => H fails in the model)' % (r.violated, n))
        tlc.require_ok(r, 'LazyPipe/' + n)
        states += r.distinct
        trans += r.generated
        for a, cnt in r.actions.items():
            fired[a] = fired.get(a, 0) + cnt[1]
    unfired = [a for a in ACTIONS if not fired.get(a)]
    if unfired:
        raise SystemExit('machinery failure: LazyPipe.tla actions never taken: %s' % unfired)
    controls = {}
    for var, _x, inv in NEGATIVE:
        r = res['neg-' + var]
        controls[var] = r.violated
        states += r.distinct
        trans += r.generated
        if not set(r.violated) & set(HCLAUSES):
            raise SystemExit('machinery failure: the known-bad design "%s" satisfies H_Lazy in LazyPipe.tla (vacuous oracle)' % var)
    t0 = time.time()
    traces = [t for o in outs for t in o[0]]
    meta = [m for o in outs for m in o[1]]
    verdicts, s2 = trace.judge('Trace_Lazy', traces, 'C18_obs', batch=4000)      # record streams carry thousands of yields
    states += s2
    phases['judge'] = round(time.time() - t0, 1)
    worst = {'py': 0, 'c': 0}
    for t in traces:
        for y in t['yields']:
            if y['k'] <= len(t['ends']):
                worst[t['be']] = max(worst[t['be']], y['req'] - t['slack'] - t['ends'][y['k'] - 1])
    # Block is ONE number per back-end (the statement: "a fixed number of characters"), measured by a probe; a read(n)
    # argument that varies with the stream is reported
    varying = sorted({(t['be'], m['asked']) for t, m in zip(traces, meta) if m.get('asked') and m['asked'] > blocks[t['be']]})
    if varying:
        v.note('spec-drift C18/block: read(n) was called with a larger n than the probe saw %s: %s' % (blocks, varying[:6]))
    for t, m, (ok, why, at) in zip(traces, meta, verdicts):
        if not ok:
            v.violation({'clause': why, 'backend': t['be'], 'api': t['api'], 'form': m['form'],
                         'bad': (m['bad'] or [None])[0]},
                        {'input': m, 'block': t['block'], 'ends': t['ends'][:60], 'yields': t['yields'][:60],
                         'outcome': t['outcome'], 'at': at, 'disposals': t['disposals'], 'readsAfter': t['readsAfter'],
                         'alive': t['alive'], 'abandons_not_released': [a for a in t['abandons'] if a['alive'] or not a['disposals']][:5]})
    # beyond the statement (errors / complete iterations): what survived is reported, never a verdict
    unreleased = {}
    for t, m in zip(traces, meta):
        if t['alive'] and t['outcome'] != 'abandoned' and m['errclass'] != 'ConstructorError':   # see LazyPipe!Referrers
            k = '%s/%s/%s' % (t['outcome'], t['be'], m['errclass'] or '-')
            unreleased[k] = unreleased.get(k, 0) + 1
    if unreleased:
        v.note('spec-drift C18/release: loader or stream not freed by reference counting after an iteration that was not '
               'abandoned (LazyPipe.tla: L_ReleaseOnError): %s' % unreleased)
    early = sum(1 for t, m in zip(traces, meta) if t['atcall'] > 0 and 'file' not in m)
    if early:
        v.note('spec-drift C18/call: %d iterations requested input at call time, before the first item was asked for '
               '(LazyPipe.tla: L_NothingAtCall)' % early)
    nontrivial = sum(1 for t in traces if len(t['ends']) >= 2 and t['ends'][-1] > 3 * t['block'])
    kinds = {}
    for t in traces:
        k = t['outcome'] + ('/' + t['bad']['kind'] if t['bad']['kind'] != '-' else '')
        kinds[k] = kinds.get(k, 0) + 1
    fam = {}
    for t, m in zip(traces, meta):
        f = 'long-lexeme' if 'tail' in m else m['form'] if m['form'] in ('corpus', 'generated') else 'records' if 'layout' in m else 'seeded'
        x = fam.setdefault(f, {'iterations': 0, 'abandoned': 0})
        x['iterations'] += 1 + len(t['abandons'])
        x['abandoned'] += len(t['abandons']) + (t['outcome'] == 'abandoned')
    v.cov = {'states': states, 'transitions': trans, 'exhaustive': True,
             'traces_validated_against_impl': len(traces) + sum(len(t['abandons']) for t in traces),
             'streams': nstreams * 2 + ntail * 2 + len(corpus) + ngen, 'families': fam, 'observed_block': blocks, 'largest_overshoot_units': worst, 'outcomes': kinds,
             'negative_controls_violate': controls, 'abandoned_iterations': sum(len(t['abandons']) + (t['outcome'] == 'abandoned') for t in traces), 'actions_fired': fired, 'distinct_nontrivial': nontrivial,
             'rule': 'non-trivial = at least two documents and more than three blocks of input',
             'samples': [dict(meta[i], yields=traces[i]['yields'][:4], ends=traces[i]['ends'][:4]) for i in range(0, min(len(meta), 400), 137)],
             'configs': {n: c for n, c in dc}, 'phase_seconds': phases}
    v.assumptions = ['a document ends where the token that terminates it starts; requested = units handed out by the stream',
                     'reader errors are block-granular (DESIGN.md 5.0): they may pre-empt documents ending < 2 blocks before them',
                     'Block = 4 (8) units, MaxKey = 3..6, markers of 1 (3) units in the model; 4096 / 16384 observed in the code']
    return v.finish()
