"""C18 - streams are consumed incrementally, documents are delivered as they complete.

spec/Lazy.tla (H): requested <= end_k + 2*Block at delivery; documents before a malformed one are delivered before the
error (reader errors block-granular); abandoning the iteration disposes the loader.
spec/LazyPipe.tla (L): pull model API generator -> parser -> scanner -> reader -> stream.read with lazily chosen stream
content, read sizes and decoder tails; the bound is a consequence of need_more_tokens / one token of parser look-ahead /
refill on demand, not an assumption.

 (a) design check L => H for all abstract streams within the bounds x all read-size schedules x scan / parse / load,
     every action fired; three known-bad designs (eager tokenising, parser looking past '...', reader refilling while an
     undecoded tail remains) must violate H (negative controls: the oracle is not vacuous);
 (b) code -> spec: seeded multi-document streams (sizes from empty to several blocks, 1..50 documents, '---' / '...' /
     end-of-stream terminators, gaps of comments after '...', ASCII and multi-byte fillers, text / UTF-8 / UTF-16 streams,
     one malformed document per stream at most) under seeded read-size schedules through yaml.scan / parse / compose_all /
     load_all of both back-ends over instrumented streams; Block is the observed read(n) argument; the records
     [k, requested when delivered, end_k, block, yield/raise order, disposal, what survives of loader and stream once an
     abandoned generator is dropped - with the cycle collector disabled] are judged by TLC (Trace_Lazy.tla).
"""
import gc, io, os, random, shutil, threading, time, weakref, multiprocessing as mp
from .. import tlc, trace
from ..common import Verdict, use_repo, SEED, BUILD, ensure_dir

ACTIONS = ['Start', 'AbandonNew', 'Unwind', 'DetEnc', 'Refill', 'ScanStale', 'ScanReady', 'Skip', 'FetchEnd', 'FetchMarker', 'FetchTok', 'ParseDocStart0',
           'ParseDocStart', 'ParseContent', 'ParseDocEnd', 'ApiStep', 'ApiNext', 'Abandon']
ALLMODES = '{"scan", "parse", "load"}'


def design_configs(tier):
    base = dict(Block=4, MaxKey=3, TermLen=1, MaxTail=1, MaxDocs=2, MaxSize=6, MaxGap=9, Modes=ALLMODES, TrackBoundary='FALSE',
                Variant='"code"')
    if tier == 'quick':
        return [('b4', base),
                # what sits at the read boundary (a CR or not) as a dimension of the environment
                ('b4cr', dict(base, TrackBoundary='TRUE', MaxSize=3, MaxGap=4, Modes='{"load"}'))]
    return [('b4', dict(base, MaxDocs=3, MaxSize=12, MaxGap=12, MaxKey=4)),
            ('b4cr', dict(base, TrackBoundary='TRUE')),
            ('b4t2', dict(base, MaxTail=2, MaxSize=8)),
            ('b8', dict(base, Block=8, TermLen=3, MaxTail=3, MaxKey=6, MaxSize=9, MaxGap=17, Modes='{"load", "scan"}'))]


NEGATIVE = [('early', 'H_Release'), ('eager', 'H_Order'), ('depeek', 'H_Order'), ('greedy', 'H_ReaderOrder'), ('shadow', 'H_Release'),
            ('crjoin', 'H_ReaderOrder')]


def run_all(jobs, workers, concurrent):
    out = {}
    sem = threading.Semaphore(concurrent)

    def one(name, kw):
        with sem:
            out[name] = tlc.run('LazyPipe', cfg='MC_LazyPipe.cfg', workers=workers, **kw)
    th = [threading.Thread(target=one, args=j) for j in jobs]
    for t in th:
        t.start()
    for t in th:
        t.join()
    return out


# ------------------------------------------------------------------------------------------------ instrumented stream
class LogStream:
    """read(n) hands out the data according to a rule and logs (asked, got, offset)"""

    def __init__(self, data, rule, seed=0):
        self.data, self.pos, self.rule = data, 0, rule
        self.rnd = random.Random(seed)
        self.asked = 0            # largest n seen
        self.calls = 0
        self.name = '<logged>'

    def read(self, n=-1):
        self.calls += 1
        want = n if n is not None and n >= 0 else len(self.data)
        self.asked = max(self.asked, want)
        kind = self.rule[0]
        if kind == 'full':
            k = want
        elif kind == 'chunk':
            k = min(want, self.rule[1])
        else:
            k = self.rnd.randint(1, max(1, min(want, self.rule[1])))
        piece = self.data[self.pos:self.pos + k]
        self.pos += len(piece)
        return piece


def observed_block(yaml, be):
    """the read size the back-end asks for: measured, not assumed"""
    s = LogStream(b'a: 1\n', ('full',))
    L = yaml.SafeLoader if be == 'py' else yaml.CSafeLoader
    for _ in yaml.scan(s, Loader=L):
        pass
    return s.asked


# ------------------------------------------------------------------------------------------------ stream generator
FILL = {'ascii': 'x', 'b2': '\u044f', 'b3': '\u20ac', 'b4': '\U0001F600'}


def filler(rnd, n, cls, longline):
    """n characters of comment lines (never a token)"""
    if n <= 0:
        return ''
    ch = FILL[cls]
    if n < 3:
        return '\n' * n
    out = []
    left = n
    while left > 0:
        ln = left if longline else min(left, rnd.choice([30, 77, 200]))
        if ln < 3:
            out.append('\n' * ln)
        else:
            out.append('#' + (' ' if rnd.random() < 0.5 else '') + ch * (ln - 2 - (1 if out and False else 0)))
            out[-1] = out[-1][:ln - 1] + '\n'
        left -= ln
    return ''.join(out)


def body(rnd, i, n, cls, longline):
    """about n characters of a block mapping (document i), padded with comment lines"""
    if n <= 0:
        return ''
    ch = FILL[cls]
    lines = ['k%d: v%s\n' % (i, ch), 'seq:\n  - a\n  - %s\n' % (ch * 3), '"q%s": [1, 2]\n' % ch, 's: &a%d text\nr: *a%d\n' % (i, i)]
    out, used = [], 0
    for ln in lines:
        if used + len(ln) <= n and rnd.random() < 0.8:
            out.append(ln)
            used += len(ln)
    if not out:                       # too small for an entry: an empty document with comments
        return filler(rnd, n, cls, longline)
    pad = filler(rnd, n - used, cls, longline)
    k = rnd.randrange(len(out) + 1)
    # comment lines between entries (never inside the nested sequence)
    return ''.join(out[:k]) + pad + ''.join(out[k:])


BADLINE = {'scanner': '@bad\n', 'parser': ']\n', 'composer': 'u: *undefined\n', 'constructor': 'w: !nosuchtag x\n',
           'reader': 'n: a\x01b\n'}
RAISES = {'scanner': ('scan', 'parse', 'compose_all', 'load_all'), 'parser': ('scan', 'parse', 'compose_all', 'load_all'),
          'composer': ('compose_all', 'load_all'), 'constructor': ('load_all',),
          'reader': ('scan', 'parse', 'compose_all', 'load_all')}


def build_stream(rnd, block, ndocs, maxblocks):
    """-> (text, ends [character offsets], bad (kind, doc index 1.., character offset) or None)"""
    cls = rnd.choice(['ascii', 'ascii', 'b2', 'b3', 'b4'])
    sizes = []
    budget = maxblocks * block
    for i in range(ndocs):
        r = rnd.random()
        if r < 0.15:
            s = 0
        elif r < 0.55 or budget < block:
            s = rnd.randint(1, 60)
        elif r < 0.7:
            s = rnd.randint(block // 2, block)
        elif r < 0.85:
            s = block + rnd.randint(-3, 3)
        else:
            s = int(block * rnd.choice([1.5, 2.2, 3.1]))
        s = min(s, max(0, budget))
        budget -= s
        sizes.append(s)
    badkind = rnd.choice([None, None, 'scanner', 'parser', 'composer', 'constructor', 'reader'])
    badkdoc = rnd.randrange(ndocs) if badkind else None
    parts, ends, bad = [], [], None
    pos = 0
    open_doc = False

    def emit(s):
        nonlocal pos
        parts.append(s)
        pos += len(s)
    for i, s in enumerate(sizes):
        b = body(rnd, i, s, cls, longline=rnd.random() < 0.4)
        has_token = any(ln and not ln.startswith('#') for ln in b.split('\n'))
        # only the first document may be implicit, and only if it has content (comments alone are no document)
        explicit = i > 0 or rnd.random() < 0.7 or not has_token
        if open_doc:                 # the previous document is terminated by this '---'
            ends.append(pos)
        if explicit:
            emit('---\n' if rnd.random() < 0.8 or s == 0 else '--- # c\n')
        if badkdoc == i:
            cut = rnd.choice([0, len(b)]) if b else 0
            line = BADLINE[badkind]
            bad = (badkind, i + 1, pos + cut + (line.index('\x01') if badkind == 'reader' else 0))
            b = b[:cut] + line + b[cut:]
        emit(b)
        open_doc = True
        if rnd.random() < 0.35:      # explicit end marker, then a gap of comments / blank lines
            ends.append(pos)
            emit('...\n')
            open_doc = False
            g = rnd.choice([0, 0, rnd.randint(1, 50), int(block * rnd.choice([0.6, 2.6, 3.3]))])
            g = min(g, max(0, budget))
            budget -= g
            emit(filler(rnd, g, cls, longline=rnd.random() < 0.5))
    if open_doc:
        if rnd.random() < 0.3:
            emit(filler(rnd, rnd.randint(1, 40), cls, False))
        ends.append(pos)
    return ''.join(parts), ends, bad


def to_units(text, ends, bad, form):
    """the stream in units of its form (characters, or bytes of the encoding) and the offsets converted (one pass)"""
    if form == 'text':
        return text, list(ends), (bad[2] if bad else 0)
    enc, bom = ('utf-8', b'') if form == 'utf-8' else ('utf-16-le', b'\xff\xfe')
    want = sorted(set(ends) | ({bad[2]} if bad else set()))
    off, pos, j = {}, len(bom), 0
    for i, ch in enumerate(text):
        while j < len(want) and want[j] == i:
            off[i] = pos
            j += 1
        o = ord(ch)
        pos += (1 if o < 0x80 else 2 if o < 0x800 else 3 if o < 0x10000 else 4) if enc == 'utf-8' else (2 if o < 0x10000 else 4)
    for w in want[j:]:
        off[w] = pos
    return bom + text.encode(enc), [off[e] for e in ends], (off[bad[2]] if bad else 0)


# ------------------------------------------------------------------------------------------------ record-structured streams
BREAKS = ['\r\n', '\r', '\n', '\x85', '\u2028']
WHERE = ['first', 'last', 'char', 'mid']
COMBOS = [(b_, w_) for b_ in BREAKS for w_ in WHERE if not (len(b_) == 1 and w_ == 'last')]


def build_records(block, form, brk, where, nblocks):
    """fixed-width records, one document each ('--- digits' + break), whose width in units of the stream divides the block
    size, behind a header line padded so that the SAME unit of every record's line break sits at offset k*block - 1 for
    every k: the last unit of the first break character ('first': a CR LF pair straddles the boundary), the last unit of
    the break ('last': the pair ends exactly at it), the unit before the break ('char': control) or a unit inside a
    multi-unit break character ('mid').  -> (data, ends in units, description) or None if the layout is impossible"""
    enc = {'text': None, 'utf-8': 'utf-8', 'utf-16-le': 'utf-16-le'}[form]
    ulen = (lambda x: len(x)) if enc is None else (lambda x: len(x.encode(enc)))
    bom = 2 if form == 'utf-16-le' else 0
    for W in (16, 32, 64, 8, 128):
        if block % W:
            continue
        fixed, one = ulen('--- ' + brk), ulen('0')
        if W <= fixed or (W - fixed) % one:
            continue
        nd = (W - fixed) // one
        s0 = W - ulen(brk)
        p = {'first': s0 + ulen(brk[0]) - 1, 'last': W - 1, 'char': s0 - 1, 'mid': s0}[where]
        if where == 'mid' and ulen(brk[0]) == 1:
            return None
        hfix, hone = ulen('#' + brk), ulen('x')
        m = next((m for m in range(0, 2 * W + 2) if (bom + hfix + m * hone + p) % W == (block - 1) % W), None)
        if m is None:
            continue
        header = '#' + 'x' * m + brk
        H = bom + hfix + m * hone
        n = max(3, (nblocks * block - H) // W)
        lo = 10 ** (nd - 1) if nd > 1 else 1
        text = header + ''.join('--- %0*d%s' % (nd, (lo + i) % (10 ** nd), brk) for i in range(n))
        data = text if enc is None else (b'\xff\xfe' if bom else b'') + text.encode(enc)
        ends = [H + W * (i + 1) for i in range(n - 1)] + [len(data)]
        assert len(data) == H + W * n
        return data, ends, 'records W=%d header=%d unit@boundary=%s of %r' % (W, H, where, brk)
    return None


# ------------------------------------------------------------------------------------------------ real file objects
FILEKINDS = ['raw', 'rb', 'text']


def open_file(kind, path, enc):
    if kind == 'raw':
        return open(path, 'rb', buffering=0)              # io.FileIO
    if kind == 'rb':
        return open(path, 'rb')                           # io.BufferedReader
    return open(path, 'r', encoding=enc, newline='')      # io.TextIOWrapper, no newline translation


def file_slack(kind, path, enc, block):
    """the file object's own read-ahead, measured without PyYAML while the file is read in read(block) calls: 0 if the
    descriptor never runs ahead of what was handed out (raw file); otherwise the largest advance of the descriptor seen
    in one call - what a buffered / decoding file object fetches at a time bounds what it can hold back"""
    f = open_file(kind, path, enc)
    fd = f.fileno()
    total = ahead = step = last = 0
    while True:
        r = f.read(block)
        if not r:
            break
        total += len(r) if isinstance(r, bytes) else len(r.encode(enc, 'surrogatepass'))
        pos = os.lseek(fd, 0, os.SEEK_CUR)
        ahead = max(ahead, pos - total)
        step = max(step, pos - last)
        last = pos
    f.close()
    return step if ahead > 0 else 0


# ------------------------------------------------------------------------------------------------ one observed iteration
def iterate(yaml, api, be, data, rule, seed, abandon, fileof=None):
    """abandon: None | ('doc', k) after the k-th delivered document | ('item', j) after the j-th yielded item.
    Release is observed by its effect: with the cyclic garbage collector disabled, weak references to the loader and to
    the stream must be dead as soon as the generator has been closed and dropped (reference counting frees what no cycle
    holds)."""
    base = yaml.SafeLoader if be == 'py' else yaml.CSafeLoader
    seen = {'disposals': 0, 'refs': []}

    class L(base):
        def __init__(self, stream):
            seen['refs'].append(weakref.ref(self))
            base.__init__(self, stream)

        def dispose(self):
            seen['disposals'] += 1
            base.dispose(self)
    gc.collect()
    gc.disable()
    try:
        if fileof is None:
            stream = LogStream(data, rule, seed)
            where = lambda: stream.pos
            nreads = lambda: stream.calls
        else:               # a real file object: consumption is observed from outside, at the file descriptor
            stream = open_file(*fileof)
            fd = os.dup(stream.fileno())
            where = lambda: os.lseek(fd, 0, os.SEEK_CUR)
            nreads = where
        sref = weakref.ref(stream)
        yields, outcome, err = [], 'done', ''
        open_doc = False
        nitems = 0
        item = gen = None
        atcall = 0
        try:
            # the call is the first step of the iteration: whatever it reads or raises is an observation
            gen = getattr(yaml, api)(stream, Loader=L)
            atcall = where()
            if abandon is not None and abandon[1] == 0:           # dropped before the first item is asked for (k = 0)
                outcome = 'abandoned'
            for item in (gen if outcome == 'done' else ()):
                nitems += 1
                delivered = False
                if api in ('load_all', 'compose_all'):
                    delivered = True
                elif api == 'parse':
                    delivered = isinstance(item, yaml.DocumentEndEvent)
                else:
                    if isinstance(item, yaml.DocumentStartToken):
                        delivered, open_doc = open_doc, True
                    elif isinstance(item, (yaml.DocumentEndToken, yaml.StreamEndToken)):
                        delivered, open_doc = open_doc, False
                    elif not isinstance(item, yaml.StreamStartToken):
                        open_doc = True
                if delivered:
                    yields.append({'k': len(yields) + 1, 'req': where()})
                if abandon is not None and ((abandon[0] == 'doc' and delivered and len(yields) >= abandon[1]) or
                                            (abandon[0] == 'item' and nitems >= abandon[1])):
                    outcome = 'abandoned'
                    break
        except yaml.YAMLError as e:
            outcome, err = 'raised', ('reader' if isinstance(e, yaml.reader.ReaderError) else type(e).__name__)
        except Exception as e:
            outcome, err = 'exception', type(e).__name__
        item = None
        calls_before = nreads()
        if gen is not None:
            gen.close()
        del gen
        reads_after = nreads() - calls_before
        block, calls = (stream.asked, stream.calls) if fileof is None else (0, 0)
        if fileof is not None:
            os.close(fd)
            keep = stream           # closed by us below; whether the file object dies is not ours to observe then
        del stream
        # the effect of release, cycle collector out of the picture
        alive, held = [], ''
        for r in seen['refs']:
            o = r()
            if o is not None:
                alive.append('loader')
                st = getattr(o, 'state', None)            # diagnosis only (internal attribute)
                held = 'state=%s states=%d' % (getattr(st, '__name__', st), len(getattr(o, 'states', None) or []))
                del o
                break
        if fileof is None and sref() is not None:
            alive.append('stream')
        if fileof is not None:
            keep.close()
            del keep
    finally:
        gc.enable()
    del L
    gc.collect()
    return {'yields': yields, 'outcome': outcome, 'errclass': err, 'disposals': seen['disposals'], 'readsAfter': reads_after,
            'atcall': atcall, 'built': len(seen['refs']),
            'alive': alive, 'held': held, 'block': block, 'calls': calls}


def maxwidth(text, enc):
    return max([len(ch.encode(enc, 'surrogatepass')) for ch in set(text)] or [1])


def work(args):
    seeds, tier, blocks = args
    yaml = use_repo()
    traces, meta = [], []
    tmp = ensure_dir(os.path.join(BUILD, 'c18_files', str(os.getpid())))

    def record(o, api, be, uends, bad, ubad, block, slack, m):
        b = {'kind': '-', 'doc': 0, 'at': 0}
        if bad and api in RAISES[bad[0]]:
            b = {'kind': 'reader' if bad[0] == 'reader' else 'other', 'doc': bad[1], 'at': ubad}
        traces.append({'block': block, 'slack': slack, 'api': api, 'be': be, 'ends': uends, 'yields': o['yields'],
                       'outcome': o['outcome'], 'bad': b, 'disposals': o['disposals'], 'readsAfter': o['readsAfter'],
                       'alive': o['alive'], 'atcall': o['atcall'], 'built': o['built']})
        meta.append(dict(m, be=be, api=api, ndocs=len(uends), held=o['held'], errclass=o['errclass']))

    def through_file(sd, be, rnd, text, ends, bad, apis, m):
        """the same stream through a real file object; positions of the descriptor, in bytes"""
        kind = FILEKINDS[sd % 3]
        enc = 'utf-16-le' if m.get('form') == 'utf-16-le' else 'utf-8'
        if isinstance(text, bytes):
            data, uends, ubad = text, ends, 0
            maxw = maxwidth(data.decode(enc, 'surrogatepass'), enc)
        else:
            data, uends, ubad = to_units(text, ends, bad, enc)
            maxw = maxwidth(text, enc)
        path = os.path.join(tmp, 's%d_%s' % (sd, be))
        with open(path, 'wb') as f:
            f.write(data)
        asked = blocks[be]
        slack = file_slack(kind, path, enc, asked)
        block = asked * (maxw if kind == 'text' else 1)       # read(n) of a text file asks for n characters
        for i, api in enumerate(apis):
            for ab in ([None, ('doc', 0)] if i == 0 else [None]):
                o = iterate(yaml, api, be, None, None, sd, ab, fileof=(kind, path, enc))
                record(o, api, be, uends, bad, ubad, block, slack,
                       dict(m, file=kind, units=len(data), slack=slack, abandon_after=list(ab) if ab else None))
        os.remove(path)

    for sd in seeds:
        rnd = random.Random(sd)
        for be in ('py', 'c'):
            block = blocks[be]
            if sd % 4 == 3:
                # record-structured stream: which unit of the line break sits at every block boundary is enumerated
                j = sd // 4
                brk, where = COMBOS[j % len(COMBOS)]
                form = ['text', 'utf-8', 'utf-16-le'][(j // len(COMBOS) + j) % 3]
                rule = [('full',), ('chunk', block // 2), ('chunk', block // 4), ('full',)][(j // len(COMBOS)) % 4]
                r = build_records(block, form, brk, where, 5 if be == 'py' else 4)
                if r is None:
                    r = build_records(block, form, brk, 'first', 5 if be == 'py' else 4)
                data, uends, desc = r
                m = {'seed': sd, 'form': form, 'rule': list(rule), 'units': len(data), 'bad': None, 'break': brk,
                     'layout': desc, 'abandon_after': None}
                full_api = ('scan', 'parse', 'compose_all', 'load_all')[j % 4]
                for api in ('scan', 'parse', 'compose_all', 'load_all'):
                    ab = None if (api == full_api and len(uends) <= 1500) else \
                        ('doc', min(len(uends), (300 + sd % 200) if api == full_api else (40 + sd % 50)))
                    o = iterate(yaml, api, be, data, rule, sd, ab)
                    record(o, api, be, uends, None, 0, o['block'] or block, 0, dict(m, abandon_after=list(ab) if ab else None))
                o = iterate(yaml, full_api, be, data, rule, sd, ('doc', 0))
                record(o, full_api, be, uends, None, 0, o['block'] or block, 0, dict(m, abandon_after=['doc', 0]))
                if j % 2 == 0:
                    through_file(sd, be, rnd, data, uends, None, [full_api], m)
                continue
            ndocs = rnd.choice([1, 2, 2, 3, 3, 4, 6, 10, 25, 50])
            maxblocks = rnd.choice([2, 5, 9]) if be == 'py' else rnd.choice([2, 5, 7])
            text, ends, bad = build_stream(rnd, block, ndocs, maxblocks)
            brk = rnd.choice(['\n', '\n', '\r\n', '\r'])          # line break style of the whole stream
            if brk != '\n':
                if brk == '\r\n':
                    shift = [0]
                    for ch in text:
                        shift.append(shift[-1] + (1 if ch == '\n' else 0))
                    ends = [e + shift[e] for e in ends]
                    if bad:
                        bad = (bad[0], bad[1], bad[2] + shift[bad[2]])
                text = text.replace('\n', brk)
            form = rnd.choice(['text', 'utf-8', 'utf-8', 'utf-16-le'])
            data, uends, ubad = to_units(text, ends, bad, form)
            rule = rnd.choice([('full',), ('full',), ('chunk', rnd.choice([1000, 17, block - 1, block // 2, 4096])),
                               ('rand', rnd.choice([50, 3000, block]))])
            if rule[0] == 'chunk' and rule[1] < 64 and len(data) > 30000:
                rule = ('chunk', 1000)
            m = {'seed': sd, 'form': form, 'rule': list(rule), 'units': len(data), 'bad': list(bad) if bad else None,
                 'break': brk, 'text_head': text[:120]}
            apis = ('scan', 'parse', 'compose_all', 'load_all')
            for api in apis:
                plans = [None]
                if len(ends) >= 1 and rnd.random() < 0.5:
                    plans.append(('doc', rnd.randint(1, len(ends))))
                if rnd.random() < 0.3:                                      # before the first item is asked for
                    plans.append(('doc', 0))
                if api in ('scan', 'parse') and rnd.random() < 0.4:        # in the middle of a document
                    plans.append(('item', rnd.randint(1, 4 + 6 * len(ends))))
                for ab in plans:
                    o = iterate(yaml, api, be, data, rule, sd, ab)
                    record(o, api, be, uends, bad, ubad, o['block'] or block, 0, dict(m, abandon_after=list(ab) if ab else None))
            if sd % 2 == 0:          # "the stream" is also a real file: text / buffered / raw, observed at the descriptor
                through_file(sd, be, rnd, text, ends, bad, rnd.sample(apis, 2), m)
    shutil.rmtree(tmp, ignore_errors=True)
    return traces, meta


# ------------------------------------------------------------------------------------------------ main
def main(tier, replay=None):
    v = Verdict('C18', tier)
    yaml = use_repo()
    q = tier == 'quick'
    t0 = time.time()
    # (a) design check and negative controls
    dc = design_configs(tier)
    jobs = [(n, dict(constants=c, tag='C18_' + n, timeout=3000, heap='5g')) for n, c in dc]
    jobs += [('neg-' + var, dict(constants=dict(dc[0][1], MaxDocs=2, MaxSize=6, MaxGap=10, MaxTail=1, Variant='"%s"' % var,
                                               TrackBoundary='TRUE' if var == 'crjoin' else 'FALSE'),
                                tag='C18_neg_' + var, timeout=900, heap='3g', coverage=False)) for var, _ in NEGATIVE]
    # (b) run the real code while TLC works
    blocks = {'py': observed_block(yaml, 'py'), 'c': observed_block(yaml, 'c')}
    nstreams = 160 if q else 1600
    seeds = [SEED * 1000003 + i for i in range(nstreams)]
    res = {}
    th = threading.Thread(target=lambda: res.update(run_all(jobs, workers=4 if q else 5, concurrent=5 if q else 4)))
    th.start()
    nch = 64
    with mp.Pool(12) as pool:
        outs = pool.map(work, [(seeds[i::nch], tier, blocks) for i in range(nch) if seeds[i::nch]], chunksize=1)
    th.join()
    phases = {'tlc+observe': round(time.time() - t0, 1)}
    states = trans = 0
    fired = {}
    for n, _c in dc:
        r = res[n]
        if r.violated:
            print(r.out[-3000:])
            raise SystemExit('machinery failure: LazyPipe.tla violates %s in configuration %s (L => H fails in the model)' % (r.violated, n))
        tlc.require_ok(r, 'LazyPipe/' + n)
        states += r.distinct
        trans += r.generated
        for a, cnt in r.actions.items():
            fired[a] = fired.get(a, 0) + cnt[1]
    unfired = [a for a in ACTIONS if not fired.get(a)]
    if unfired:
        raise SystemExit('machinery failure: LazyPipe.tla actions never taken: %s' % unfired)
    controls = {}
    for var, inv in NEGATIVE:
        r = res['neg-' + var]
        controls[var] = r.violated
        states += r.distinct
        trans += r.generated
        if not r.violated:
            raise SystemExit('machinery failure: the known-bad design "%s" satisfies H_Lazy in LazyPipe.tla (vacuous oracle)' % var)
    t0 = time.time()
    traces = [t for o in outs for t in o[0]]
    meta = [m for o in outs for m in o[1]]
    verdicts, s2 = trace.judge('Trace_Lazy', traces, 'C18_obs', batch=4000)      # record streams carry thousands of yields
    states += s2
    phases['judge'] = round(time.time() - t0, 1)
    worst = {'py': 0, 'c': 0}
    for t in traces:
        for y in t['yields']:
            if y['k'] <= len(t['ends']):
                worst[t['be']] = max(worst[t['be']], y['req'] - t['ends'][y['k'] - 1])
    for t, m, (ok, why, at) in zip(traces, meta, verdicts):
        if not ok:
            v.violation({'clause': why, 'backend': t['be'], 'api': t['api'], 'form': m['form'],
                         'bad': (m['bad'] or [None])[0]},
                        {'input': m, 'block': t['block'], 'ends': t['ends'][:60], 'yields': t['yields'][:60],
                         'outcome': t['outcome'], 'at': at, 'disposals': t['disposals'], 'readsAfter': t['readsAfter'],
                         'alive': t['alive']})
    # beyond the statement (errors / complete iterations): what survived is reported, never a verdict
    unreleased = {}
    for t, m in zip(traces, meta):
        if t['alive'] and t['outcome'] != 'abandoned' and m['errclass'] != 'ConstructorError':   # see LazyPipe!Referrers
            k = '%s/%s/%s' % (t['outcome'], t['be'], m['errclass'] or '-')
            unreleased[k] = unreleased.get(k, 0) + 1
    if unreleased:
        v.note('spec-drift C18/release: loader or stream not freed by reference counting after an iteration that was not '
               'abandoned (LazyPipe.tla: L_ReleaseOnError): %s' % unreleased)
    early = sum(1 for t, m in zip(traces, meta) if t['atcall'] > 0 and 'file' not in m)
    if early:
        v.note('spec-drift C18/call: %d iterations requested input at call time, before the first item was asked for '
               '(LazyPipe.tla: L_NothingAtCall)' % early)
    nontrivial = sum(1 for t in traces if len(t['ends']) >= 2 and t['ends'][-1] > 3 * t['block'])
    kinds = {}
    for t in traces:
        k = t['outcome'] + ('/' + t['bad']['kind'] if t['bad']['kind'] != '-' else '')
        kinds[k] = kinds.get(k, 0) + 1
    v.cov = {'states': states, 'transitions': trans, 'exhaustive': True, 'traces_validated_against_impl': len(traces),
             'streams': nstreams * 2, 'observed_block': blocks, 'largest_overshoot_units': worst, 'outcomes': kinds,
             'negative_controls_violate': controls, 'abandoned_iterations': sum(1 for t in traces if t['outcome'] == 'abandoned'), 'actions_fired': fired, 'distinct_nontrivial': nontrivial,
             'rule': 'non-trivial = at least two documents and more than three blocks of input',
             'samples': [dict(meta[i], yields=traces[i]['yields'][:4], ends=traces[i]['ends'][:4]) for i in range(0, min(len(meta), 400), 137)],
             'configs': {n: c for n, c in dc}, 'phase_seconds': phases}
    v.assumptions = ['a document ends where the token that terminates it starts; requested = units handed out by the stream',
                     'reader errors are block-granular (DESIGN.md 5.0): they may pre-empt documents ending < 2 blocks before them',
                     'Block = 4 (8) units, MaxKey = 3..6, markers of 1 (3) units in the model; 4096 / 16384 observed in the code']
    return v.finish()
