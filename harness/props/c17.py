"""C17 - Python objects survive dump / unsafe load as they survive pickle protocol 2.

spec/Reduce.tla  : L = representer.py (alias bookkeeping, represent_object case analysis) + constructor.py
                   (construct_object cache / recursion guard / generators / deep_construct, python/object, /new, /apply,
                   set_python_instance_state), H = PickleRebuild + the verdicts of spec/H_Reduce.tla.  TLC checks L => H on
                   every abstract object graph of the bounded space (repaired design refines H; the design as the code
                   has it deviates only through the named deviations).
spec -> code     : every complete graph of the TLC run is instantiated from the class family harness/verif_canary17.py,
                   dumped (Dumper, CDumper), loaded (UnsafeLoader, CUnsafeLoader, FullLoader, CFullLoader), rebuilt with
                   pickle protocol 2; all rebuilt graphs are projected to heaps.
code -> spec     : seeded random graphs (up to ~25 objects) from the same family, observed the same way.
judgement        : spec/Trace_Reduce.tla - TLC evaluates H_Reduce!UnsafeVerdict / FullVerdict on every observation, and
                   (conformance) compares the observation with what the L model predicts for the same graph.
Python only instantiates, observes and projects."""
import json, os, pickle, random, re, sys, time, zlib
from .. import tlc, mbt, tlaval
from ..common import Verdict, use_repo, SEED, BUILD, ensure_dir

ALL = ['list', 'dict', 'tuple', 'set', 'P', 'PA', 'S', 'SD', 'GS', 'GT', 'GV', 'GC', 'GL', 'NA', 'NT', 'R2', 'R3', 'RL', 'RD', 'CR', 'ML', 'MD',
       'MS', 'OD', 'MO', 'XS', 'E0', 'DS', 'SB', 'E0T', 'PT', 'ST', 'DST']
# class layouts under the default reduction: {instance dictionary or not} x {slots or not} x {__setstate__ or not}
LAYOUTS = ['E0', 'P', 'S', 'SD', 'DS', 'SB', 'E0T', 'PT', 'ST', 'DST']
OLD = ALL[:26]          # the family before the layout product was added (the big configurations keep to it)
ALLLEAVES = ['i', 'i0', 's', 's0', 'z', 'c', 'n', 'f', 'm', 'e', 'b']
DEVIATIONS = ['deepreg', 'slotsnone', 'falsystate', 'nonestate', 'emptytuple', 'latefill', 'scalarsub', 'stateorder']
SCHEMES = ['ord', 'ext', 'dun', 'prv', 'app', 'upd']
A7 = ['list', 'P', 'GS', 'R2', 'tuple', 'GV', 'ML']
B7 = ['dict', 'S', 'SD', 'GT', 'NA', 'RL', 'OD']
C7 = ['set', 'NT', 'R3', 'RD', 'CR', 'MD', 'MS', 'GC', 'PA', 'MO', 'XS']
CONFIGS = {
    # quick: every ordered pair of shapes (root with <= 2 kids: sharing; second object with <= 1 kid: back edge),
    # every leaf kind under every shape, chains of three objects with back edges over two 7-shape families
    'pairsAB': dict(MaxObjs=2, Shapes=[x for x in A7 + B7 if x not in ('tuple', 'S')], Leaves=['i'], KidsRoot=2, KidsRest=1),
    'pairsC':  dict(MaxObjs=2, Shapes=C7 + ['list'], Leaves=['i'], KidsRoot=2, KidsRest=1),
    # attribute names: every naming scheme under every shape that has named attributes (dict state, slot state, state
    # next to arguments / listitems / dictitems), with a second object below
    'names':   dict(MaxObjs=1, Shapes=['P', 'PA', 'S', 'SD', 'GS', 'NA', 'R3', 'RL', 'ML', 'MD', 'MS', 'MO', 'XS'], Leaves=['i', 'f'],
                    KidsRoot=2, KidsRest=0, Schemes=['ext', 'dun', 'prv', 'app', 'upd']),
    'names1':  dict(MaxObjs=2, Shapes=['P', 'PA', 'S', 'SD', 'GS', 'NA', 'R3', 'RL', 'ML', 'MD', 'MS', 'MO', 'XS'], Leaves=['i', 'f'],
                    KidsRoot=2, KidsRest=0, Schemes=['ext', 'dun', 'prv', 'app', 'upd']),
    'names2':  dict(MaxObjs=2, Shapes=['P', 'S', 'SD', 'ML', 'RL', 'list', 'GS'], Leaves=['i'], KidsRoot=2, KidsRest=1,
                    Schemes=['ord', 'ext', 'dun']),
    # where the protocol methods live: own class vs inherited from a base, every shape, alone and above / below a list
    'homes':   dict(MaxObjs=2, Shapes=['GS', 'GT', 'GV', 'GC', 'GL', 'PA', 'S', 'SD', 'NA', 'R3', 'RL', 'RD', 'ML', 'MD', 'list'],
                    Leaves=['i'], KidsRoot=2, KidsRest=1, Homes=['inh']),
    'homes1':  dict(MaxObjs=1, Shapes=OLD, Leaves=['i', 'i0'], KidsRoot=2, KidsRest=0, Homes=['inh'], Schemes=['ord', 'dun']),
    # class layouts: every layout x own / inherited x every split of <= 3 values over dictionary part and slot part
    # (each part empty or not) x leaf / self reference; and every layout above and below a list (sharing, back edge)
    'layouts': dict(MaxObjs=1, Shapes=LAYOUTS, Leaves=['i', 'z'], KidsRoot=2, KidsRest=0, Homes=['own', 'inh'], Schemes=['ord', 'dun']),
    'layouts3': dict(MaxObjs=1, Shapes=LAYOUTS, Leaves=['i', 'z'], KidsRoot=3, KidsRest=0, Homes=['own', 'inh'], Schemes=['ord', 'dun', 'ext']),
    'layouts2': dict(MaxObjs=2, Shapes=LAYOUTS + ['list'], Leaves=['i'], KidsRoot=2, KidsRest=1),
    'triL':    dict(MaxObjs=3, Shapes=['list', 'GL', 'tuple', 'PA'], Leaves=['i'], KidsRoot=2, KidsRest=1),
    'triLh':   dict(MaxObjs=3, Shapes=['list', 'GL', 'GC'], Leaves=['i'], KidsRoot=2, KidsRest=1, Homes=['inh']),
    'leaves':  dict(MaxObjs=1, Shapes=OLD, Leaves=['i', 'i0', 'z', 'c', 'n', 'm', 'e'], KidsRoot=2, KidsRest=0),
    'chainA5': dict(MaxObjs=3, Shapes=['list', 'P', 'GS', 'R2', 'GV'], Leaves=['i'], KidsRoot=1, KidsRest=1),
    'chainB5': dict(MaxObjs=3, Shapes=['dict', 'SD', 'GT', 'NA', 'RL'], Leaves=['i'], KidsRoot=1, KidsRest=1),
    'chainA':  dict(MaxObjs=3, Shapes=A7, Leaves=['i'], KidsRoot=1, KidsRest=1),
    'chainB':  dict(MaxObjs=3, Shapes=B7, Leaves=['i'], KidsRoot=1, KidsRest=1),
    # thorough
    'pairs22': dict(MaxObjs=2, Shapes=OLD, Leaves=['i'], KidsRoot=2, KidsRest=2),
    'pairs_l': dict(MaxObjs=2, Shapes=OLD, Leaves=['i0', 'z'], KidsRoot=2, KidsRest=1),
    'leaves2': dict(MaxObjs=1, Shapes=ALL, Leaves=ALLLEAVES, KidsRoot=2, KidsRest=0),
    'chainC':  dict(MaxObjs=3, Shapes=C7, Leaves=['i'], KidsRoot=1, KidsRest=1),
    'triL2':   dict(MaxObjs=3, Shapes=['list', 'GL', 'dict', 'GS'], Leaves=['i'], KidsRoot=2, KidsRest=2),
    'tri_a':   dict(MaxObjs=3, Shapes=['list', 'P', 'GS', 'R2', 'tuple'], Leaves=['i'], KidsRoot=2, KidsRest=1),
    'tri_b':   dict(MaxObjs=3, Shapes=['dict', 'GV', 'ML', 'S', 'NA'], Leaves=['i'], KidsRoot=2, KidsRest=1),
    'tri_c':   dict(MaxObjs=3, Shapes=['list', 'GT', 'SD', 'RL', 'OD'], Leaves=['i'], KidsRoot=2, KidsRest=1),
    'tri_d':   dict(MaxObjs=3, Shapes=['tuple', 'NT', 'MD', 'RD', 'P'], Leaves=['i'], KidsRoot=2, KidsRest=1),
    'tri_e':   dict(MaxObjs=3, Shapes=['list', 'MS', 'R3', 'CR', 'GS'], Leaves=['i'], KidsRoot=2, KidsRest=1),
    'tri_a2':  dict(MaxObjs=3, Shapes=['list', 'P', 'GS'], Leaves=['i'], KidsRoot=2, KidsRest=2),
    'tri_b2':  dict(MaxObjs=3, Shapes=['dict', 'GV', 'R2'], Leaves=['i'], KidsRoot=2, KidsRest=2),
    'quad_a':  dict(MaxObjs=4, Shapes=['list', 'P', 'GS', 'R2', 'tuple'], Leaves=['i'], KidsRoot=1, KidsRest=1),
    'quad_b':  dict(MaxObjs=4, Shapes=['dict', 'GV', 'ML', 'SD', 'NA'], Leaves=['i'], KidsRoot=1, KidsRest=1),
}
TIERS = {'quick': ['pairsAB', 'pairsC', 'names', 'homes1', 'layouts', 'triLh', 'triL', 'leaves', 'chainA5', 'chainB5'],
         'thorough': ['pairs22', 'pairs_l', 'leaves2', 'layouts3', 'layouts2', 'names1', 'names2', 'homes', 'homes1', 'triLh', 'triL', 'triL2', 'chainA', 'chainB', 'chainC', 'tri_a', 'tri_b', 'tri_c', 'tri_d', 'tri_e',
                      'tri_a2', 'tri_b2', 'quad_a', 'quad_b']}
RANDOM = {'quick': 300, 'thorough': 12000}
# VERIF_TRACE_PAR is the machine-wide cap on parallelism (harness/trace.py): it bounds the TLC workers of one run, the
# number of TLC runs at a time and the size of the worker pools here.  No effect on results.
PAR = max(1, min(16, int(os.environ.get('VERIF_TRACE_PAR', '16') or 16)))
WORKERS = max(1, min(PAR, int(os.environ.get('VERIF_TLC_WORKERS', '16'))))
JVMS = max(1, PAR // 2)          # TLC runs at a time (each gets WORKERS // min(JVMS, 4) workers, at least 2)


def tla(v):
    if isinstance(v, bool):
        return 'TRUE' if v else 'FALSE'
    if isinstance(v, (list, set, tuple)):
        return '{' + ', '.join('"%s"' % x for x in sorted(v)) + '}'
    return str(v)


# ------------------------------------------------------------------------------------------------ observation
TAGKIND = [('tag:yaml.org,2002:python/tuple', 'tuple'), ('tag:yaml.org,2002:python/complex', 'complex'),
           ('tag:yaml.org,2002:python/name:', 'name'), ('tag:yaml.org,2002:python/module:', 'module'),
           ('tag:yaml.org,2002:python/object/new:', 'new'), ('tag:yaml.org,2002:python/object/apply:', 'apply'),
           ('tag:yaml.org,2002:python/object:', 'object')]
SAFE = {'tag:yaml.org,2002:' + t for t in ('null', 'bool', 'int', 'float', 'binary', 'timestamp', 'omap', 'pairs', 'set',
                                           'str', 'seq', 'map')}


def tag_kinds(yaml, text):
    seen, out, todo = set(), set(), [yaml.compose(text, Loader=yaml.SafeLoader)]
    while todo:
        n = todo.pop()
        if n is None or id(n) in seen:
            continue
        seen.add(id(n))
        if n.tag in SAFE:
            out.add('safe')
        else:
            for p, k in TAGKIND:
                if n.tag.startswith(p):
                    out.add(k)
                    break
            else:
                out.add('other')
        if isinstance(n, yaml.SequenceNode):
            todo += n.value
        elif isinstance(n, yaml.MappingNode):
            for a, b in n.value:
                todo += [a, b]
    return sorted(out)


def _site(e):
    """innermost function of the yaml package on the traceback (identifies the call site of a foreign exception)"""
    tb, fn = e.__traceback__, '?'
    while tb is not None:
        f = tb.tb_frame.f_code
        if os.sep + 'yaml' + os.sep in f.co_filename:
            fn = f.co_name
        tb = tb.tb_next
    return fn


def _outcome(yaml, C, fn):
    try:
        y = fn()
    except yaml.constructor.ConstructorError as e:
        return {'out': 'ConstructorError', 'heap': [], 'root': LEAFROOT, 'msg': str(e.problem)[:80]}
    except yaml.YAMLError as e:
        return {'out': 'yamlerror:' + type(e).__name__, 'heap': [], 'root': LEAFROOT, 'msg': str(e)[:80]}
    except (TypeError, AttributeError) as e:
        return {'out': type(e).__name__, 'heap': [], 'root': LEAFROOT, 'msg': '%s in %s' % (str(e)[:60], _site(e))}
    except RecursionError as e:
        return {'out': 'RecursionError', 'heap': [], 'root': LEAFROOT, 'msg': ''}
    except Exception as e:
        return {'out': 'exception:' + type(e).__name__, 'heap': [], 'root': LEAFROOT, 'msg': '%s in %s' % (str(e)[:60], _site(e))}
    p = C.project(y)
    return {'out': 'ok', 'heap': p['heap'], 'root': p['root'], 'msg': ''}


LEAFROOT = {'c': 'root', 'k': '', 'r': 0, 'd': '-', 'dk': '-', 'soft': True}


def picker(g, seed):
    rnd = random.Random(zlib.crc32(json.dumps(g, sort_keys=True).encode()) ^ (seed * 2654435761 & 0xffffffff))
    table = {}

    def pick(kind, i, j):
        return table.setdefault((kind, i, j), rnd.randrange(8))
    return pick


def pickle2(o):
    """pickle.loads(pickle.dumps(o, 2)); module objects, which pickle refuses, are pickled by name (the statement's
    "modules by name") through a private dispatch table - copyreg's global table is left alone"""
    import copyreg, importlib, io, types
    f = io.BytesIO()
    p = pickle.Pickler(f, 2)
    p.dispatch_table = dict(copyreg.dispatch_table)
    p.dispatch_table[types.ModuleType] = lambda m: (importlib.import_module, (m.__name__,))
    p.dump(o)
    return pickle.loads(f.getvalue())


def observe(yaml, C, g, seed):
    """instantiate g, dump / load / pickle it for real; returns the trace record (None if pickle itself refuses)"""
    g = [dict(o, n=o.get('n', 'ord'), h=o.get('h', 'own')) for o in g]
    o = C.build(g, picker(g, seed))
    ref = C.project(pickle2(o))
    rec = {'g': g, 'ref': ref['heap'], 'rroot': ref['root'], 'unsafe': [], 'uwho': [], 'tags': [], 'full': [], 'fwho': [],
           'umsg': [], 'docs': []}
    seen = {}
    for D in ('Dumper', 'CDumper'):
        try:
            text = yaml.dump(o, Dumper=getattr(yaml, D))
        except RecursionError:
            text = None
        if text is None:
            obs = [('-', {'out': 'dump:RecursionError', 'heap': [], 'root': LEAFROOT, 'msg': ''})]
        else:
            rec['docs'].append(text)
            tk = tag_kinds(yaml, text)
            if not rec['tags']:
                rec['tags'] = tk
            elif rec['tags'] != tk:
                rec['tags'] = sorted(set(tk) | {'dumpers-differ'})
            obs = [(L, _outcome(yaml, C, lambda: yaml.load(text, Loader=getattr(yaml, L)))) for L in ('UnsafeLoader', 'CUnsafeLoader')]
            for L in ('FullLoader', 'CFullLoader'):
                acc = _outcome(yaml, C, lambda: yaml.load(text, Loader=getattr(yaml, L)))['out'] == 'ok'
                if acc not in rec['full']:
                    rec['full'].append(acc)
                    rec['fwho'].append([])
                rec['fwho'][rec['full'].index(acc)].append(D + '/' + L)
        for L, oc in obs:
            msg = oc.pop('msg')
            key = json.dumps(oc, sort_keys=True)
            if key not in seen:
                seen[key] = len(rec['unsafe'])
                rec['unsafe'].append(oc)
                rec['uwho'].append([])
                rec['umsg'].append(msg)
            rec['uwho'][seen[key]].append(D + '/' + L)
    return rec


# ------------------------------------------------------------------------------------------------ TLC as the judge
_start = re.compile(r'<<\s*"V17"')


def judge(records, tag, fixes, batch=4000):
    """-> (lines, states): lines[i] = list of verdict tuples [kind, j, ok, why, at, conf, need, pconf] of records[i].
    The batches are judged by concurrent TLC runs."""
    from concurrent.futures import ThreadPoolExecutor
    out = [[] for _ in records]
    d = ensure_dir(os.path.join(BUILD, 'traces'))
    keep = ('g', 'ref', 'rroot', 'unsafe', 'tags', 'full')
    starts = list(range(0, len(records), batch))
    par = max(1, min(4, JVMS, len(starts)))

    def one(b0):
        part = [{k: r[k] for k in keep} for r in records[b0:b0 + batch]]
        path = os.path.join(d, '%s_%d.json' % (tag, b0))
        json.dump(part, open(path, 'w'))
        r = tlc.run('Trace_Reduce', tag='%s_%d' % (tag, b0), env={'TRACE_FILE': path}, coverage=False, timeout=1500,
                    workers=max(2, WORKERS // par), heap='4g', constants={'CodeFixes': tla(fixes)})
        os.remove(path)
        return b0, r
    with ThreadPoolExecutor(par) as ex:
        results = list(ex.map(one, starts))
    states = 0
    for b0, r in results:
        if not r.ok:
            print(r.out[-3000:])
            raise SystemExit('machinery failure: trace validation run of Trace_Reduce failed')
        states += r.distinct
        pos = [m.start() for m in _start.finditer(r.out)]
        for a, b in zip(pos, pos[1:] + [len(r.out)]):
            v = tlaval.P(r.out[a:min(b, a + 4000)]).value()
            out[b0 + v[1] - 1].append(v[2:])
    for i, r in enumerate(records):
        if len(out[i]) != len(r['unsafe']) + len(r['full']):
            raise SystemExit('machinery failure: %d verdicts for trace %d, expected %d' % (len(out[i]), i, len(r['unsafe']) + len(r['full'])))
    return out, states


# ------------------------------------------------------------------------------------------------ workers
def work(states, extra):
    yaml = use_repo()
    from harness import verif_canary17 as C
    sys.setrecursionlimit(3000)
    recs, n = [], 0
    for st in states:
        n += 1
        if st['fin'] is True:
            recs.append(observe(yaml, C, st['g'], extra['seed']))
    return {'n': n, 'recs': recs}


def work_random(args):
    lo, hi, seed = args
    yaml = use_repo()
    from harness import verif_canary17 as C
    sys.setrecursionlimit(3000)
    out = []
    for k in range(lo, hi):
        g = random_graph(random.Random('%d:%d' % (seed, k)))
        try:
            out.append(observe(yaml, C, g, seed))
        except C.Unbuildable:
            continue
    return out


# ------------------------------------------------------------------------------------------------ random graphs
ARGSHAPES = {'tuple', 'NA', 'NT', 'R2', 'R3', 'CR'}
TWOSEC = {'NA', 'R3', 'RL', 'ML', 'MD', 'MS', 'MO'}
AONLY = {'P', 'PA', 'S', 'SD', 'GS', 'PT', 'ST'}
BOTHSEC = {'DS', 'SB', 'DST'}


def in_domain(g):
    """the domain of Reduce.tla (InDomain): no cycle through constructor arguments only, no dict-typed GV state"""
    n = len(g)
    arg = [[v['r'] - 1 for v in o['p'] if v['r']] if o['s'] in ARGSHAPES else [] for o in g]
    color = [0] * n

    def dfs(i):
        color[i] = 1
        for j in arg[i]:
            if color[j] == 1 or (color[j] == 0 and dfs(j)):
                return True
        color[i] = 2
        return False
    if any(color[i] == 0 and dfs(i) for i in range(n)):
        return False
    for i, o in enumerate(g):
        if o['s'] in ('ML', 'RL') and o.get('n') == 'ext' and o['a'] and o['a'][0] == {'r': 0, 'l': 'n'}:
            return False
        if o['s'] == 'GV' and o['p'][0]['r'] and g[o['p'][0]['r'] - 1]['s'] in ('dict', 'MD', 'OD', 'MO'):
            return False
        if o['s'] == 'GL':
            t = o['p'][0]['r'] - 1
            if t < 0 or g[t]['s'] != 'list':
                return False
            seen, todo = set(), [t]
            while todo:
                x = todo.pop()
                for v in g[x]['p'] + g[x]['a']:
                    if v['r'] and v['r'] - 1 not in seen:
                        seen.add(v['r'] - 1)
                        todo.append(v['r'] - 1)
            if i in seen:
                return False
    return True


def random_graph(rnd):
    """a rooted graph in the canonical numbering of Reduce.tla: objects are added while referenced; a kid is a leaf,
    an object seen so far (sharing, cycles) or the next new one"""
    while True:
        target = rnd.choice([2, 3, 4, 6, 9, 14, 20, 25])
        back = rnd.choice([0.1, 0.3, 0.5])
        leafp = rnd.choice([0.2, 0.5])
        shapes = rnd.sample(ALL, rnd.randrange(3, len(ALL) + 1))
        leaves = rnd.sample(ALLLEAVES, rnd.randrange(1, 5))
        g, hi, forced = [], 1, {}
        while len(g) < hi:
            s = forced.get(len(g) + 1) or rnd.choice(shapes)
            last = len(g) + 1 == hi and hi < target          # the graph would end here: make it grow
            if last and s in ('set', 'MS', 'GL', 'E0', 'E0T') and len(g) + 1 not in forced:
                s = rnd.choice(['list', 'dict', 'P', 'GS', 'ML', 'R2', 'tuple'])
            force = [last]

            def val(leaf_only=False):
                nonlocal hi
                if force[0]:
                    force[0] = False
                    hi += 1
                    return {'r': hi, 'l': ''}
                if leaf_only or rnd.random() < leafp:
                    return {'r': 0, 'l': rnd.choice(leaves)}
                if hi < target and rnd.random() > back:
                    hi += 1
                    return {'r': hi, 'l': ''}
                return {'r': rnd.randrange(1, hi + 1), 'l': ''}
            if s in ('set', 'MS'):
                ks = sorted(set(rnd.choice(leaves) for _ in range(rnd.randrange(0, 3))))
                p = [{'r': 0, 'l': k} for k in ks]
                a = [val() for _ in range(rnd.randrange(0, 3))] if s == 'MS' else []
            elif s in AONLY:
                p, a = [], [val() for _ in range(rnd.randrange(1 if last else 0, 4))]
            elif s in ('E0', 'E0T'):
                p, a = [], []
            elif s in TWOSEC or s in BOTHSEC:
                p, a = [val() for _ in range(rnd.randrange(1 if last else 0, 4))], [val() for _ in range(rnd.randrange(0, 3))]
            elif s == 'GV':
                p, a = [val()], []
            elif s == 'XS':
                p, a = [{'r': 0, 'l': rnd.choice(['i', 'i0', 's', 's0', 'b', 'c'])}], [val() for _ in range(rnd.randrange(1 if last else 0, 3))]
            elif s == 'GL':                      # its kid is a list: one seen so far, or a new object forced to be one
                force[0] = False
                lists = [j + 1 for j, o in enumerate(g) if o['s'] == 'list'] + [j for j, x in forced.items() if x == 'list']
                if lists and (hi >= target or rnd.random() < 0.6):
                    p, a = [{'r': rnd.choice(lists), 'l': ''}], []
                else:
                    hi += 1
                    forced[hi] = 'list'
                    p, a = [{'r': hi, 'l': ''}], []
            elif s == 'NT':
                p, a = [val() for _ in range(rnd.randrange(1 if last else 0, 3))], []
            elif s == 'tuple':
                p, a = [val() for _ in range(rnd.randrange(1, 4))], []
            else:
                p, a = [val() for _ in range(rnd.randrange(1 if last else 0, 4))], []
            g.append({'s': s, 'p': p, 'a': a, 'n': rnd.choice(SCHEMES) if a and rnd.random() < 0.4 else 'ord',
                      'h': 'inh' if rnd.random() < 0.35 else 'own'})
        if in_domain(g):
            return g


# ------------------------------------------------------------------------------------------------ which L variant
PROBES = {  # the smallest graph that separates the code as pinned from the repaired code, per deviation
    'deepreg': [{'s': 'GS', 'p': [], 'a': [{'r': 2, 'l': ''}]}, {'s': 'list', 'p': [{'r': 2, 'l': ''}], 'a': []}],
    'slotsnone': [{'s': 'SD', 'p': [], 'a': [{'r': 0, 'l': 'i'}]}],
    'falsystate': [{'s': 'GT', 'p': [], 'a': []}],
    'nonestate': [{'s': 'GV', 'p': [{'r': 0, 'l': 'z'}], 'a': []}],
    'emptytuple': [{'s': 'list', 'p': [{'r': 2, 'l': ''}, {'r': 2, 'l': ''}], 'a': []}, {'s': 'NA', 'p': [], 'a': [{'r': 0, 'l': 'i'}]}],
    'scalarsub': [{'s': 'list', 'p': [{'r': 2, 'l': ''}, {'r': 2, 'l': ''}], 'a': []}, {'s': 'XS', 'p': [{'r': 0, 'l': 'i'}], 'a': [{'r': 0, 'l': 'i'}]}],
    'stateorder': [{'s': 'ML', 'p': [{'r': 0, 'l': 'i'}], 'a': [{'r': 0, 'l': 'i'}], 'n': 'ext'}],
    'latefill': [{'s': 'list', 'p': [{'r': 2, 'l': ''}, {'r': 3, 'l': ''}], 'a': []}, {'s': 'GL', 'p': [{'r': 3, 'l': ''}], 'a': []},
                 {'s': 'list', 'p': [{'r': 0, 'l': 'i'}], 'a': []}],
}


def strip(heap):
    return [[n['lab'], n['dig'], [[k['c'], k['k'], k['r'], k['d']] for k in n['kids']]] for n in heap]


def detect_code_fixes(yaml, C):
    """Which of the modelled deviations the tree under test no longer has.  Only selects the variant of L that is
    compared with the code (conformance / attribution); H verdicts do not depend on it."""
    fixed = []
    for k, g in PROBES.items():
        r = observe(yaml, C, g, 0)
        u = r['unsafe'][0]
        if len(r['unsafe']) == 1 and u['out'] == 'ok' and strip(u['heap']) == strip(r['ref']) and u['root']['r'] == r['rroot']['r']:
            fixed.append(k)
    return fixed


# ------------------------------------------------------------------------------------------------ main
def features(rec):
    labs = sorted({n['alab'] for n in rec['ref']})
    return labs


def nontrivial(rec):
    refs = [k['r'] for n in rec['ref'] for k in n['kids'] if k['r']]
    return len(refs) != len(set(refs)) or any(n['alab'] not in ('list', 'dict', 'tuple', 'set') for n in rec['ref'])


def report(v, recs, lines, origin, stats):
    for rec, ls in zip(recs, lines):
        for kind, j, ok, why, at, conf, need, pconf in ls:
            who = rec['uwho' if kind == 'u' else 'fwho'][j - 1]
            if kind == 'u':
                stats['unsafe_obs'] += 1
                stats['outcome ' + rec['unsafe'][j - 1]['out']] = stats.get('outcome ' + rec['unsafe'][j - 1]['out'], 0) + 1
            else:
                stats['full_obs'] += 1
            if not pconf:
                stats['pickle_model_drift'] += 1
                if stats['pickle_model_drift'] <= 3:
                    v.note('spec-drift C17/%s: pickle rebuilt something else than PickleRebuild(g) for %s' % (origin, json.dumps(rec['g'])[:300]))
            if ok:
                if not conf:
                    stats['drift'] += 1
                    if stats['drift'] <= 5:
                        v.note('spec-drift C17/%s: %s outcome %s differs from the L model (H allows it) for %s' % (
                            origin, who, rec['unsafe'][j - 1]['out'] if kind == 'u' else rec['full'][j - 1], json.dumps(rec['g'])[:300]))
                continue
            detail = {'g': rec['g'], 'who': who, 'why': why, 'at': at, 'origin': origin, 'docs': rec['docs'][:1],
                      'outcome': (rec['unsafe'][j - 1]['out'] + ' ' + rec['umsg'][j - 1]) if kind == 'u' else 'accepted=%s tags=%s' % (rec['full'][j - 1], rec['tags']),
                      'conforms_to_L': conf, 'explained_by': need}
            if kind == 'u' and conf and need and need != ['unexplained']:
                stats['explained'] += 1
                for dv in need:
                    stats['deviation ' + dv] = stats.get('deviation ' + dv, 0) + 1
                    v.violation({'loader': 'unsafe', 'deviation': dv}, detail)
            else:
                at_lab = rec['ref'][at - 1]['alab'] if kind == 'u' and at else '-'
                v.violation({'loader': 'unsafe' if kind == 'u' else 'full', 'deviation': 'none', 'why': why, 'at': at_lab,
                             'shapes': features(rec), 'who': who}, detail)


def main(tier, replay=None):
    v = Verdict('C17', tier)
    yaml = use_repo()
    from harness import verif_canary17 as C
    sys.setrecursionlimit(3000)
    fixes = detect_code_fixes(yaml, C)
    stats = {'unsafe_obs': 0, 'full_obs': 0, 'drift': 0, 'pickle_model_drift': 0, 'explained': 0}
    states = trans = jstates = ngraphs = nontriv = 0
    samples = []
    if replay:
        cases = [x['detail'] for x in json.load(open(replay))['violations']]
        recs = [observe(yaml, C, c['g'], SEED) for c in cases]
        lines, js = judge(recs, 'C17_replay', fixes)
        report(v, recs, lines, 'replay', stats)
        v.cov = {'states': js, 'transitions': js, 'traces_validated_against_impl': len(recs), 'replayed': len(recs)}
        return v.finish()
    per_config, allrecs = {}, []
    from concurrent.futures import ThreadPoolExecutor
    par = 1 if tier == 'thorough' else min(JVMS, len(TIERS[tier]))     # the quick configurations are small: run TLC on several at once

    def mc(name):
        return tlc.run('Reduce', cfg='MC_Reduce.cfg', dump=True, tag='C17_' + name, timeout=3000, coverage=False,
                       workers=max(2, WORKERS // min(par, 4)), heap='8g' if par == 1 else '3g',
                       constants=dict({'Schemes': tla(['ord']), 'Homes': tla(['own'])}, **dict({k: tla(x) for k, x in CONFIGS[name].items()}, CodeFixes=tla(fixes))))
    with ThreadPoolExecutor(par) as ex:
        runs = dict(zip(TIERS[tier], ex.map(mc, TIERS[tier])))
    for name in TIERS[tier]:
        cfg = CONFIGS[name]
        r = runs[name]
        if r.violated:
            print(r.out[-3000:])
            raise SystemExit('machinery failure: Reduce.tla violates %s in configuration %s (L does not refine H in the model)' % (r.violated, name))
        tlc.require_ok(r, 'Reduce/' + name)
        states += r.distinct
        trans += r.generated
        t1 = time.time()
        out = mbt.pmap(work, r.dump, {'seed': SEED}, procs=PAR)
        t2 = time.time()
        if sum(o['n'] for o in out) != r.distinct:
            raise SystemExit('machinery failure: replayed %d states, TLC found %d' % (sum(o['n'] for o in out), r.distinct))
        recs = [x for o in out for x in o['recs']]
        os.remove(r.dump)
        for x in recs:
            x['origin'] = name
        allrecs += recs
        ngraphs += len(recs)
        per_config[name] = {'bounds': cfg, 'tlc_states': r.distinct, 'graphs': len(recs), 'tlc_wall_s': round(r.wall, 1)}
        samples += [{'g': x['g'], 'doc': x['docs'][0] if x['docs'] else None, 'unsafe': [u['out'] for u in x['unsafe']],
                     'full_accepts': x['full']} for x in recs[len(recs) // 2:len(recs) // 2 + 1]]
        if os.environ.get('VERIF_C17_TIMING'):
            print('timing %s: tlc %.1fs, observe %.1fs for %d graphs' % (name, r.wall, t2 - t1, len(recs)))
    # code -> spec: random graphs
    import multiprocessing as mp
    n = RANDOM[tier]
    step = max(1, n // 64)
    with mp.Pool(PAR) as pool:
        parts = pool.map(work_random, [(a, min(n, a + step), SEED) for a in range(0, n, step)], chunksize=1)
    recs = [x for p in parts for x in p]
    for x in recs:
        x['origin'] = 'random'
    samples += [{'g': x['g'], 'unsafe': [u['out'] for u in x['unsafe']], 'full_accepts': x['full']} for x in recs[:1]]
    allrecs += recs
    t3 = time.time()
    lines, jstates = judge(allrecs, 'C17_judge', fixes, batch=6000 if tier == 'thorough' else 3600)
    if os.environ.get('VERIF_C17_TIMING'):
        print('timing judge: %.1fs for %d records' % (time.time() - t3, len(allrecs)))
    for origin in TIERS[tier] + ['random']:
        idx = [i for i, x in enumerate(allrecs) if x['origin'] == origin]
        report(v, [allrecs[i] for i in idx], [lines[i] for i in idx], origin, stats)
    nontriv = sum(1 for x in allrecs if nontrivial(x))
    v.cov = {'states': states + jstates, 'transitions': trans + jstates, 'design_check_states': states,
             'traces_validated_against_impl': stats['unsafe_obs'] + stats['full_obs'],
             'graphs_from_tlc': ngraphs, 'graphs_random': len(recs), 'max_random_objects': max(len(x['g']) for x in recs),
             'exhaustive': True, 'samples': samples[:8], 'distinct_nontrivial': nontriv,
             'rule': 'every complete in-domain state of Reduce.tla is one object graph (canonical numbering: each rooted graph once); '
                     'non-trivial = has a shared object or an instance of a class of the family; each graph is dumped with Dumper and '
                     'CDumper and loaded with UnsafeLoader, CUnsafeLoader, FullLoader, CFullLoader; one trace = one distinct load outcome '
                     'judged by TLC (Trace_Reduce)',
             'configs': per_config, 'stats': stats, 'code_variant_of_L': fixes,
             'invariants': ['RepairedRefinesH', 'AsIsExplained', 'WalkIsIso', 'RefIsWhole']}
    v.assumptions = ['class semantics of the family are consuming (constructors / __setstate__ / extend / __setitem__ unpack their argument)',
                     'a dict-typed object of the graph is never itself the __getstate__ result; set members and dict keys are leaves',
                     'graphs pickle protocol 2 cannot rebuild (a cycle through constructor arguments only) are outside the domain',
                     'equality of rebuilt graphs = isomorphism of the projected heaps (type, leaf digests, ordered edges, identity); '
                     'dict key order and attribute order are not compared',
                     'the node graph is assumed to survive serialize/emit/parse/compose (C05, C13)']
    return v.finish()
