"""C14 - mappings, merge keys, sets and ordered maps are built by their YAML 1.1 rules.

spec/MapMeaning.tla: every reachable state is a document (node heap with sharing) carrying hval (H: meaning by
precedence lookup on the unmodified document) and lval (L: constructor.py's in-place flattening in queue order);
TLC checks Agree (L ~ H) on all of them; each document is printed, loaded by the real loaders and compared with
hval (verdict) and with lval's key order (drift)."""
import os
from .. import tlc, mbt
from ..common import Verdict, use_repo, SEED

BASE = dict(MaxNodes=3, Keys=['k1', 'k2', 'M'], Vals=['v1'], MaxEntries=2, MaxElems=2, MapTags=['map'],
            SeqTags=['seq'], Modes=['A'], AllowSelf=True, MergeShape='"any"')
CONFIGS = {
    'merge3': dict(BASE),
    'deep4': dict(BASE, MaxNodes=4, Keys=['k1', 'M'], Vals=[], SeqTags=[], AllowSelf=False),
    'shapes': dict(BASE, MaxNodes=2, Keys=['k1', 'k1f', 'Q', 'U', 'M'], MapTags=['map', 'set', 'omap', 'pairs'],
                   SeqTags=['seq', 'omap', 'pairs', 'set']),     # every tag on both node kinds, empty nodes included
    # several merge keys (mapping and list valued) over shared sources, sources reused after the merging mapping
    'mlist4': dict(BASE, MaxNodes=4, Keys=['k1', 'M'], Vals=['v1', 'v2'], MaxElems=1, Modes=['D'], AllowSelf=False,
                   MergeShape='"refs"'),          # one key, two values: which source wins is visible
    # a mapping that has its own merge key is built as an ordinary value and is then a merge source of a later one
    'reuse3': dict(BASE, MaxNodes=3, Keys=['k1', 'k2', 'M'], Vals=['v1'], SeqTags=[], Modes=['B', 'D'], AllowSelf=False,
                   MergeShape='"refs"'),
    # thorough only
    'merge3w': dict(BASE, Vals=['v1', 'v2'], Modes=['A', 'B', 'C']),
    'deep4v': dict(BASE, MaxNodes=4, Keys=['k1', 'M'], SeqTags=[], AllowSelf=False, Modes=['A', 'C']),
    'shapesw': dict(BASE, MaxNodes=2, Keys=['k1', 'k1f', 'Q', 'U', 'M'], Vals=['v1', 'v2'], MapTags=['map', 'set'],
                    SeqTags=['seq', 'omap', 'pairs'], Modes=['A', 'B']),
    'deep5': dict(BASE, MaxNodes=5, Keys=['k1', 'M'], Vals=[], SeqTags=[], AllowSelf=False, Modes=['A', 'C']),
}
TIERS = {'quick': ['merge3', 'deep4', 'shapes', 'mlist4', 'reuse3'],
         'thorough': ['merge3w', 'deep4v', 'shapesw', 'deep5']}

KEYTXT = {'k1': '1', 'k1f': '1.0', 'k2': 'b', 'M': '<<', 'Q': '"<<"', 'U': '? []'}
# the class U (a key node that becomes an unhashable Python object) has one representative per collection type a key node can
# be built to: list, dict, set, the two list-of-pairs types; the representative is picked per occurrence
UREPS = ['? []', '? {}', '? !!set {}', '? !!omap []', '? !!pairs []', '? !!set {z: }', '? [z]']
VALTXT = {'v1': 'x', 'v2': 'y'}


def tla(v):
    if isinstance(v, bool):
        return 'TRUE' if v else 'FALSE'
    if isinstance(v, str):
        return v
    if isinstance(v, list):
        return '{' + ', '.join('"%s"' % x for x in v) + '}'
    return str(v)


# ------------------------------------------------------------ document printer (flow style, anchors on shared nodes)
def print_doc(nodes, top):
    refs = {}

    def count(i, seen):
        refs[i] = refs.get(i, 0) + 1
        if i in seen:
            return
        seen.add(i)
        n = nodes[i - 1]
        for e in n['e']:
            v = e['v'] if n['t'] == 'map' else e
            if v['id']:
                count(v['id'], seen)
    seen = set()
    for i in top:
        count(i, seen)
    defined = set()

    def pv(v):
        return pn(v['id']) if v['id'] else VALTXT[v['s']]

    def pn(i):
        if i in defined:
            return '*n%d' % i
        defined.add(i)
        n = nodes[i - 1]
        s = '&n%d ' % i if refs[i] > 1 else ''
        if n['t'] == 'map':
            s += {'map': '', 'set': '!!set ', 'omap': '!!omap ', 'pairs': '!!pairs '}[n['tag']]
            s += '{' + ', '.join('%s: %s' % (UREPS[(i * 3 + j + len(nodes) + SEED) % len(UREPS)] if e['k'] == 'U' else KEYTXT[e['k']], pv(e['v']))
                                  for j, e in enumerate(n['e'])) + '}'
        else:
            s += {'seq': '', 'set': '!!set ', 'omap': '!!omap ', 'pairs': '!!pairs '}[n['tag']]
            s += '[' + ', '.join(pv(e) for e in n['e']) + ']'
        return s
    return '[' + ', '.join(pn(i) for i in top) + ']\n'


def keyclass(k):
    if isinstance(k, (int, float)) and not isinstance(k, bool) and k == 1:
        return 'k1'
    if k == 'b':
        return 'k2'
    if k == '<<':
        return 'Q'
    if type(k) in (list, dict, set):
        return 'U'
    return '?%r' % (k,)


def matches(real, h, strict_order=False):
    """Does the loaded object have the shape/value the specification gives? returns None or a reason."""
    t = h['t']
    if t == 's':
        exp = VALTXT.get(h['e'][0], h['e'][0])
        return None if real == exp and type(real) is str else 'scalar %r != %r' % (real, exp)
    if t == 'seq':
        if type(real) is not list or len(real) != len(h['e']):
            return 'not a list of length %d: %r' % (len(h['e']), real)
        for r, e in zip(real, h['e']):
            m = matches(r, e, strict_order)
            if m:
                return m
        return None
    if t == 'set':
        if type(real) is not set:
            return 'not a set: %r' % (real,)
        if sorted(keyclass(k) for k in real) != sorted(e[0] for e in h['e']):
            return 'set members %r' % (real,)
        return None
    if t == 'map':
        if type(real) is not dict:
            return 'not a dict: %r' % (real,)
        ks = [keyclass(k) for k in real]
        if sorted(ks) != sorted(e[0] for e in h['e']):
            return 'keys %r, expected %r' % (ks, [e[0] for e in h['e']])
        if (h['ord'] or strict_order) and ks != [e[0] for e in h['e']]:
            return 'key order %r, expected %r' % (ks, [e[0] for e in h['e']])
        byk = {keyclass(k): v for k, v in real.items()}
        for kc, hv in h['e']:
            m = matches(byk[kc], hv, strict_order)
            if m:
                return 'under %s: %s' % (kc, m)
        return None
    if t == 'pairs':
        if type(real) is not list or len(real) != len(h['e']):
            return 'not a list of %d pairs: %r' % (len(h['e']), real)
        for r, (kc, hv) in zip(real, h['e']):
            if type(r) is not tuple or len(r) != 2 or keyclass(r[0]) != kc:
                return 'pair %r, expected key %s' % (r, kc)
            m = matches(r[1], hv, strict_order)
            if m:
                return m
        return None
    return 'unknown shape ' + t


def work(states, extra):
    yaml = use_repo()
    loaders = [getattr(yaml, n) for n in extra['loaders']]
    res = {'n': 0, 'bad': [], 'drift': 0, 'samples': [], 'nontrivial': 0, 'errdocs': 0}
    for st in states:
        res['n'] += 1
        nodes, top = st['nodes'], st['top']
        if not top:
            continue
        text = print_doc(nodes, top)
        h, l = st['hval'], st['lval']
        if any(e.get('k') == 'M' for n in nodes if n['t'] == 'map' for e in n['e']):
            res['nontrivial'] += 1
        if h['err']:
            res['errdocs'] += 1
        for L in loaders:
            try:
                real = yaml.load(text, Loader=L)
                out = ('ok', real)
            except yaml.constructor.ConstructorError as e:
                out = ('ConstructorError', str(e.problem))
            except yaml.YAMLError as e:
                out = ('other-yaml-error:' + type(e).__name__, str(e)[:200])
            except RecursionError:
                out = ('RecursionError', '')
            except Exception as e:
                out = ('exception:' + type(e).__name__, str(e)[:200])
            why = None
            if h['err'] and h.get('soft') and out[0] == 'ok':
                pass        # the statement allows a value here (omap entry written with a merge key meaning one pair)
            elif h['err']:
                if out[0] != 'ConstructorError':
                    why = 'expected a ConstructorError, got %s %r' % (out[0], out[1])
            else:
                if out[0] != 'ok':
                    why = 'expected a value, got %s %r' % out
                else:
                    for r, hv in zip(real, h['v']):
                        why = why or matches(r, hv)
                    if len(real) != len(h['v']):
                        why = 'root length'
                    if why is None and not l['err']:
                        for r, lv in zip(real, l['v']):
                            if matches(r, lv, strict_order=True):
                                res['drift'] += 1
                                break
            if why:
                feats = sorted({e['k'] for n in nodes if n['t'] == 'map' for e in n['e']} |
                               {n['tag'] for n in nodes})
                res['bad'].append({'doc': text, 'loader': L.__name__, 'why': why, 'features': feats,
                                   'expected_err': h['err']})
        if len(res['samples']) < 1 and len(nodes) >= 2:
            res['samples'].append({'doc': text, 'expected': 'ConstructorError' if h['err'] else 'value'})
    return res


def main(tier, replay=None):
    v = Verdict('C14', tier)
    loaders = ['SafeLoader', 'CSafeLoader'] if tier == 'quick' else \
        ['SafeLoader', 'CSafeLoader', 'FullLoader', 'CFullLoader', 'UnsafeLoader', 'CUnsafeLoader']
    states = trans = traces = nontrivial = errdocs = 0
    samples = []
    for name in TIERS[tier]:
        r = tlc.run('MapMeaning', cfg='MC_MapMeaning.cfg', dump=True, tag='C14_' + name, timeout=3000,
                    constants={k: tla(x) for k, x in CONFIGS[name].items()})
        if r.violated:
            print(r.out[-3000:])
            raise SystemExit('machinery failure: MapMeaning.tla violates %s in configuration %s (L does not refine H in the model)' % (r.violated, name))
        tlc.require_ok(r, 'MapMeaning/' + name)
        states += r.distinct
        trans += r.generated
        out = mbt.pmap(work, r.dump, {'loaders': loaders})
        n = sum(o['n'] for o in out)
        if n != r.distinct:
            raise SystemExit('machinery failure: replayed %d documents, TLC found %d states' % (n, r.distinct))
        traces += n * len(loaders)
        nontrivial += sum(o['nontrivial'] for o in out)
        errdocs += sum(o['errdocs'] for o in out)
        drift = sum(o['drift'] for o in out)
        if drift:
            v.note('spec-drift C14/%s: key order of %d merged mappings differs from the L model (H leaves it open)' % (name, drift))
        for o in out:
            samples += o['samples']
            for b in o['bad']:
                v.violation({'config': name, 'loader': b['loader'], 'features': b['features'],
                             'expected_err': b['expected_err']}, b)
        os.remove(r.dump)
    v.cov = {'states': states, 'transitions': trans, 'traces_validated_against_impl': traces, 'exhaustive': True,
             'samples': samples[:8], 'distinct_nontrivial': nontrivial, 'documents_expected_to_fail': errdocs,
             'rule': 'every reachable state of MapMeaning.tla is one document; non-trivial = contains at least one merge key; '
                     'each is loaded with ' + ', '.join(loaders),
             'configs': {n: CONFIGS[n] for n in TIERS[tier]}}
    v.assumptions = ['keys compared modulo Python equality (1 == 1.0); key order only where the mapping has no merge key',
                     'omap/pairs elements without merge keys; self-merge only as a direct merge value']
    return v.finish()
