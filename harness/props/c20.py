"""C20 - work grows linearly with the size of the input.

(a) design checks, TLC: spec/Work.tla (reader + scanner + per-token work, lazy input choice, finite relative
    configuration: ALL inputs of any length inside the nesting / run bounds), spec/WorkReader.tla (the buffer under a
    free client), spec/WorkEmit.tla (emitter look-ahead queue, serializer tables).  Invariants: the structural bounds
    (QueueBound, KeysBound, BufferBound, EventQueueBound), StepCost (every action O(1)), Progress (O(1) actions per
    character / event) and - Exact configurations - the literal  work <= A * consumed + B  per mechanism.
    Negative controls (deliberately superlinear variants of one action) MUST be rejected by TLC: vacuity guard.
(b) code -> spec: the catalogue of load and dump families at n, 2n, 4n (thorough: 8n) is run through the real pure-Python
    loader / dumper under sys.setprofile; the call counts are judged by TLC (spec/Trace_Work.tla, H_LinearWork).
(c) spec -> code binding of the primitive costs that call counts cannot see: instrumented subclasses sample
    len(tokens), len(possible_simple_keys), len(buffer), len(events) through the stage interfaces; the maxima are judged
    by TLC against the bounds of the L models with the real constants (a structure above its bound that grows with n is
    a violation: its pop / copy cost is its length).
"""
import json, os, re
from concurrent.futures import ThreadPoolExecutor
import multiprocessing as mp
from .. import tlc, trace
from .. import c20_util as U
from ..common import Verdict, SEED, SPEC

ALL = '{"w", "s", "n", "h", "[", "]", ",", ":", "-", "q", "a", "d"}'          # ("r", the alias, is in anchors_str)
BASE = dict(Block=4, MaxKey=4, MaxFlow=2, MaxCol=2, MaxRun=3, MaxLen=0, Stream='FALSE', Exact='FALSE', Variant='"code"', Sym=ALL)


def cfgd(**kw):
    d = dict(BASE)
    d.update(kw)
    return d


# name -> (module, cfg, constants)
DESIGN_QUICK = {
    'block_str':    ('Work', 'MC_Work.cfg', cfgd(MaxFlow=0, Sym='{"w", "s", "n", "-", ":", "h", "d", "a"}')),
    'anchors_str':  ('Work', 'MC_Work.cfg', cfgd(MaxFlow=1, MaxCol=1, MaxRun=1, Sym='{"a", "r", "w", "[", ",", "]", "s", "n"}')),
    'scalars_str':  ('Work', 'MC_Work.cfg', cfgd(MaxFlow=0, MaxCol=1, Sym='{"w", "s", "n", "q", "h", ":", "d"}')),
    'flow_str':     ('Work', 'MC_Work.cfg', cfgd(MaxFlow=2, MaxCol=1, Sym='{"w", "n", "[", "]", ",", ":", "q"}', MaxRun=2)),
    'block_stream': ('Work', 'MC_Work.cfg', cfgd(Stream='TRUE', MaxFlow=0, MaxCol=1, Sym='{"w", "s", "n", ":", "-"}')),
    'exact_words':  ('Work', 'MC_Work.cfg', cfgd(Exact='TRUE', MaxLen=24, MaxFlow=0, MaxCol=1, Sym='{"w", "s"}')),
    'exact_flow':   ('Work', 'MC_Work.cfg', cfgd(Exact='TRUE', MaxLen=16, MaxFlow=1, MaxCol=1, Sym='{"w", "[", ","}')),
    'exact_stream': ('Work', 'MC_Work.cfg', cfgd(Exact='TRUE', Stream='TRUE', MaxLen=40, MaxFlow=0, MaxCol=1, MaxRun=1,
                                                  Sym='{"w", "s"}')),
    'exact_anchors': ('Work', 'MC_Work.cfg', cfgd(Exact='TRUE', MaxLen=18, MaxFlow=0, MaxCol=1, MaxRun=1, Sym='{"a", "w", "s"}')),
    'reader':       ('WorkReader', 'MC_WorkReader.cfg', {}),
    'emitter':      ('WorkEmit', 'MC_WorkEmit.cfg', {}),
}
DESIGN_THOROUGH = dict(DESIGN_QUICK)
for _k in ('exact_flow', 'exact_anchors'):         # thorough only
    del DESIGN_QUICK[_k]
NEGCTL_QUICK = ('nokeylimit_queue', 'concat', 'nobuftrim', 'aliaswalk', 'reader_nobuftrim', 'emitter_lookahead')
DESIGN_THOROUGH.update({
    'all_str':      ('Work', 'MC_Work.cfg', cfgd()),
    'flow_str3':    ('Work', 'MC_Work.cfg', cfgd(MaxFlow=2, MaxCol=1, Sym='{"w", "s", "n", "[", "]", ",", ":", "q"}')),
    'flow_stream':  ('Work', 'MC_Work.cfg', cfgd(Stream='TRUE', MaxFlow=1, MaxCol=1, MaxRun=2, Sym='{"w", "s", "[", ",", ":"}')),
    'block_stream2': ('Work', 'MC_Work.cfg', cfgd(Stream='TRUE', MaxFlow=0, Sym='{"w", "s", "n", "-", ":", "h", "d", "a"}')),
    # the bounds are affine in the scaled constants: other values of MaxKey / Block
    'maxkey3':      ('Work', 'MC_Work.cfg', cfgd(MaxKey=3, MaxFlow=1, MaxCol=1, Sym='{"w", "s", "n", "[", "]", ",", ":"}')),
    'maxkey6':      ('Work', 'MC_Work.cfg', cfgd(MaxKey=6, MaxFlow=1, MaxCol=1, Sym='{"w", "n", "[", "]", ",", ":"}')),
    'block3':       ('Work', 'MC_Work.cfg', cfgd(Block=3, Stream='TRUE', MaxFlow=0, MaxCol=1, Sym='{"w", "s", "n", ":", "-"}')),
    'block6':       ('Work', 'MC_Work.cfg', cfgd(Block=6, Stream='TRUE', MaxFlow=0, MaxCol=1, Sym='{"w", "s", "n", ":", "-"}')),
    'exact_block':  ('Work', 'MC_Work.cfg', cfgd(Exact='TRUE', MaxLen=9, MaxFlow=0, MaxCol=2, Sym='{"w", "s", "n", "-", ":"}')),
    'exact_flow2':  ('Work', 'MC_Work.cfg', cfgd(Exact='TRUE', MaxLen=10, MaxFlow=2, MaxCol=1, Sym='{"w", "[", ",", ":", "]"}')),
    'reader_wide':  ('WorkReader', 'MC_WorkReader.cfg', {'Block': 6, 'Look': 9}),
    'emitter_deep': ('WorkEmit', 'MC_WorkEmit.cfg', {'MaxDepth': 6, 'MaxScalar': 4}),
})
# name -> (module, cfg, constants, invariants of which at least one must be reported violated)
NEGCTL = {
    'nokeylimit_queue': ('Work', 'MC_Work_negctl.cfg', cfgd(Exact='TRUE', MaxLen=16, MaxFlow=1, MaxCol=1, Variant='"nokeylimit"',
                                                           Sym='{"w", "[", ","}'), {'QueueBound'}),
    'nokeylimit_cost':  ('Work', 'MC_Work_cost.cfg', cfgd(Exact='TRUE', MaxLen=40, MaxFlow=1, MaxCol=1, Variant='"nokeylimit"',
                                                         Sym='{"w", "[", ","}'), {'StepCost', 'LinearPerMech', 'LinearWork'}),
    'concat':           ('Work', 'MC_Work_cost.cfg', cfgd(Exact='TRUE', MaxLen=24, MaxFlow=0, MaxCol=1, Variant='"concat"',
                                                         Sym='{"w", "s"}'), {'StepCost', 'LinearPerMech', 'LinearWork'}),
    'anchorlist':       ('Work', 'MC_Work_cost.cfg', cfgd(Exact='TRUE', MaxLen=18, MaxFlow=0, MaxCol=1, MaxRun=1,
                                                         Variant='"anchorlist"', Sym='{"a", "w", "s"}'),
                         {'StepCost', 'LinearPerMech', 'LinearWork'}),
    'nobuftrim':        ('Work', 'MC_Work_cost.cfg', cfgd(Exact='TRUE', Stream='TRUE', MaxLen=60, MaxFlow=0, MaxCol=1, MaxRun=1,
                                                         Variant='"nobuftrim"', Sym='{"w", "s"}'),
                         {'StepCost', 'LinearPerMech', 'LinearWork'}),
    'aliaswalk':        ('Work', 'MC_Work_alias.cfg', {}, {'StepCost'}),
    'reader_nobuftrim': ('WorkReader', 'MC_WorkReader_negctl.cfg', {}, {'Amortised'}),
    'emitter_lookahead': ('WorkEmit', 'MC_WorkEmit_negctl.cfg', {}, {'EventQueueBound', 'StepCost'}),
    'serializer_anchorscan': ('WorkEmit', 'MC_WorkEmit_negctl.cfg', {'Variant': '"anchorscan"', 'MaxEvents': 40}, {'StepCost'}),
}
WORK_ACTIONS = ['Choose', 'APull', 'AToNext', 'AComment', 'AFetch', 'APlain', 'APlainSpaces', 'APlainBreaks', 'AQuoted',
                'AQuotedEnd', 'AQuotedSpaces', 'AQuotedBreaks', 'AAnchor']
EMIT_ACTIONS = ['SendDocStart', 'SendDocEnd', 'SendStreamEnd', 'SendScalar', 'SendAlias', 'SendStart', 'SendEnd', 'Drain']
READER_ACTIONS = ['Peek', 'Prefix', 'Forward', 'EndOfStream']

# APIs besides the main one (load / dump) - quick measures them on a subset of the families, thorough on all
LOAD_SUBSET = ['plain_one_word', 'double_multi_line', 'literal_lines', 'block_seq', 'flow_seq_one_line', 'block_map',
               'documents', 'comment_lines', 'blank_lines', 'anchors_then_aliases', 'keys_just_under_limit',
               'nested_flow_seqs']
DUMP_SUBSET = ['str_plain_words', 'str_double_escapes', 'str_literal_lines', 'ints', 'dict_sorted', 'list_of_dicts',
               'many_shared_objects', 'nested_lists', 'flow_style_wide']


_ACT = re.compile(r'<(\w+) line \d+, col \d+ to line \d+, col \d+ of module \w+(?: \([\d ]+\))?>: (\d+):(\d+)')


def run_tlc(item):
    name, (module, cfg, consts) = item[0], item[1][:3]
    r = tlc.run(module, cfg=cfg, workers=item[2], heap='3g', timeout=item[3], tag='C20_' + name, constants=consts or None)
    r.actions = {}                      # (actions under \E carry a position suffix that harness/tlc.py does not parse)
    for a, d, g in _ACT.findall(r.out):
        x = r.actions.setdefault(a, [0, 0])
        x[0] += int(d)
        x[1] += int(g)
    return name, r


def catalogue(tier, only=None):
    quick = tier == 'quick'
    target, min_n, doublings, nested_n = (80000, 600, 2, 40) if quick else (300000, 2000, 3, 50)
    jitter = (SEED * 37) % 13
    calls, prims = [], []

    def add(side, fam, api):
        if only and fam not in only:
            return
        calls.append((side, fam, api, target, min_n, doublings, nested_n, jitter))
    for fam in U.LOAD:
        main = U.LOAD_API.get(fam, 'load')
        add('load', fam, main)
        if main == 'load' and not quick:
            add('load', fam, 'scan')
            add('load', fam, 'load_stream')
        if main == 'load' and fam in LOAD_SUBSET:
            for api in ('scan', 'parse', 'load_stream') if quick else ('parse', 'compose', 'load_bytes'):
                add('load', fam, api)
    for fam in U.DUMP:
        add('dump', fam, 'dump')
        if not quick:
            add('dump', fam, 'emit')
        if fam in DUMP_SUBSET:
            for api in ('emit', 'serialize') if quick else ('serialize', 'dump_stream'):
                add('dump', fam, api)
    for fam in U.DUMP_ALL:
        add('dump', fam, 'dump_all')
    # customised applications: user Loader / Dumper subclasses with registered resolvers, constructors, representers,
    # and the full / unsafe classes (harness/c20_util.py make_app, APP_LOAD, APP_DUMP)
    for fam, (gen, apis) in U.APP_LOAD.items():
        for api in apis:
            add('load', fam, api)
    for fam, (gen, kw, apis) in U.APP_DUMP.items():
        for api in apis:
            add('dump', fam, api)
    for fam in (U.APP_ALSO_LOAD[:4] if quick else U.APP_ALSO_LOAD):
        add('load', fam, 'app_load')
        add('load', fam, 'unsafe_load')
    for fam in (U.APP_ALSO_DUMP[:4] if quick else U.APP_ALSO_DUMP):
        add('dump', fam, 'app_dump')
        add('dump', fam, 'unsafe_dump')
    for fam in U.TEXT_FED:                       # a growing node in every structural position, and pairs of structures that
        add('dump', fam, 'emit_text')            # grow together, fed to the emitter / serializer as events / nodes
        if not quick or fam.startswith('first_key') or fam in U.PAIR_TEXT:
            add('dump', fam, 'serialize_text')
    pn = 500 if quick else 2000
    pn += (pn * jitter) // 100
    for fam in U.LOAD:
        if only and fam not in only:
            continue
        if fam in U.NESTED:
            sizes = [nested_n, 2 * nested_n, 4 * nested_n]
        elif fam in U.MIN_N:
            sizes = [U.MIN_N[fam] // 2, U.MIN_N[fam], 2 * U.MIN_N[fam]]
        else:
            sizes = [pn, 2 * pn, 4 * pn]
        if fam in U.LOAD_API:
            continue
        prims.append(('load', fam, 'load', sizes))
        prims.append(('load', fam, 'load_stream', sizes))
    for fam in U.DUMP:
        if only and fam not in only:
            continue
        sizes = [nested_n, 2 * nested_n, 4 * nested_n] if fam in U.DUMP_NESTED else [pn, 2 * pn, 4 * pn]
        prims.append(('dump', fam, 'dump', sizes))
    for fam in U.TEXT_FED:
        if only and fam not in only:
            continue
        prims.append(('dump', fam, 'emit_text', [pn, 2 * pn, 4 * pn]))
    return calls, prims


def main(tier, replay=None):
    v = Verdict('C20', tier)
    quick = tier == 'quick'
    only = None
    if replay:
        only = {x['key']['family'] for x in json.load(open(replay))['violations']}
    calls, prims = catalogue(tier, only)
    design = DESIGN_QUICK if quick else DESIGN_THOROUGH
    negctl = {k: x for k, x in NEGCTL.items() if not quick or k in NEGCTL_QUICK}
    big = {'all_str', 'flow_str3', 'flow_stream', 'block_stream2'}
    jobs = [(n, d, 8 if n in big else 4, 3000) for n, d in design.items()] + [(n, d, 2, 900) for n, d in negctl.items()]
    jobs.sort(key=lambda j: 0 if j[0] in big else 1)
    # the real code is measured in worker processes while TLC explores the models
    pool = mp.Pool(11 if quick else 12)
    a_calls = pool.map_async(U.measure_calls, calls, chunksize=1)
    a_prims = pool.map_async(U.measure_prims, prims, chunksize=1)
    with ThreadPoolExecutor(5 if quick else 2) as ex:      # quick: 16 small JVM runs, start-up dominated
        results = dict(ex.map(run_tlc, jobs))
    # ---------------------------------------------------------------- (a) design checks
    states = trans = 0
    fired = {}
    per_cfg = {}
    for name, (module, cfg, consts) in design.items():
        r = results[name]
        if r.violated:
            print(r.out[-3000:])
            raise SystemExit('machinery failure: %s (%s) violates %s - the cost MODEL is wrong for configuration %s'
                             % (module, cfg, r.violated, name))
        tlc.require_ok(r, 'C20 design check ' + name)
        states += r.distinct
        trans += r.generated
        per_cfg[name] = {'module': module, 'states': r.distinct, 'transitions': r.generated, 'depth': r.depth,
                         'constants': {k: str(x) for k, x in (consts or {}).items() if k in
                                       ('Block', 'MaxKey', 'MaxFlow', 'MaxCol', 'MaxRun', 'MaxLen', 'Stream', 'Exact', 'Sym')}}
        for a, c in r.actions.items():
            fired[(module, a)] = fired.get((module, a), 0) + c[1]
    unfired = [(m_, a) for m_, acts in (('Work', WORK_ACTIONS), ('WorkEmit', EMIT_ACTIONS), ('WorkReader', READER_ACTIONS))
               for a in acts if fired.get((m_, a), 0) == 0]
    if unfired:
        raise SystemExit('machinery failure: actions never taken in any design configuration: %s' % unfired)
    negres = {}
    for name, (module, cfg, consts, expect) in negctl.items():
        r = results[name]
        hit = set(r.violated) & expect
        negres[name] = sorted(r.violated)
        if not hit:
            print(r.out[-2000:])
            raise SystemExit('machinery failure: negative control %s (%s, a deliberately superlinear design) was NOT rejected '
                             'by TLC (violated=%s, expected one of %s): the invariants are vacuous' % (name, cfg, r.violated, sorted(expect)))
        states += r.distinct
        trans += r.generated
    # ---------------------------------------------------------------- (b), (c) measurements judged by TLC
    rc = a_calls.get()
    rp = a_prims.get()
    pool.close()
    pool.join()
    recs = list(rc) + list(rp)
    # a family member that the tree under test rejects is not C20's subject: noted, and what completed is still judged
    failed = [t for t in recs if t.get('error')]
    for t in failed[:5]:
        v.note('C20: family %s/%s: a member was rejected by the tree under test (%s); judged on the sizes that completed'
               % (t['family'], t['api'], t['error']))
    recs = [t for t in recs if (len(t['w']) >= 2 if t['kind'] == 'ratio' else len(t['q']) >= 1)]
    traces = [{k: t[k] for k in t if k not in ('sizes', 'units', 'error')} for t in recs]
    for t in traces:                     # TLC integers are 32-bit: counts of 10^8 and more (only a badly superlinear tree
        if t['kind'] == 'ratio':         # gets there) are divided exactly by a fixed unit; the ratios are unchanged
            t['unit'] = 1
            while max(t['w']) >= 10 ** 8:
                t['w'] = [x // 1024 for x in t['w']]
                t['unit'] *= 1024
    verdicts, s2 = trace.judge('Trace_Work', traces, 'C20_meas')
    states += s2
    nratio = nprim = ndrift = 0
    worst = []
    for t, (ok, why, at) in zip(recs, verdicts):
        if t['kind'] == 'ratio':
            nratio += 1
            w = t['w']
            worst.append((max(w[i + 1] / w[i] for i in range(len(w) - 1)), t['family'], t['api'], t['n'], w))
        else:
            nprim += 1
        if not ok:
            v.violation({'family': t['family'], 'api': t['api'], 'clause': why},
                        {'record': t, 'at': at, 'how': 'counts of interpreter-level calls (sys.setprofile call + c_call) or, for '
                         'kind prim, primitive lengths sampled through the stage interfaces'})
        elif why.startswith('drift'):
            ndrift += 1
            if ndrift <= 5:
                v.note('spec-drift C20: %s/%s %s (max %d, not growing with n)' % (t['family'], t['api'], why, at))
    worst.sort(reverse=True)
    v.cov = {'states': states, 'transitions': trans, 'exhaustive': True,
             'traces_validated_against_impl': len(traces), 'ratio_records_judged': nratio, 'primitive_bound_records_judged': nprim,
             'load_families': len(U.LOAD) + len(U.APP_LOAD),
             'dump_families': len(U.DUMP) + len(U.DUMP_ALL) + len(U.TEXT_FED) + len(U.APP_DUMP),
             'distinct_nontrivial': len({(t['family'], t['api']) for t in recs}),
             'rule': 'one record per (family, api): call counts at n, 2n, 4n%s under sys.setprofile judged by Trace_Work.tla '
                     '(H_LinearWork, eps = 15%%); primitive lengths (token queue, simple-key table, reader buffer, emitter '
                     'queue) judged against the model bounds with MaxKey = 1024 and the observed read size' % ('' if quick else ', 8n'),
             'family_members_rejected': len(failed), 'design_configurations': per_cfg, 'negative_controls_rejected': negres,
             'actions_fired': {'%s.%s' % k: n for k, n in sorted(fired.items())},
             'worst_ratios': [{'family': f, 'api': a, 'n': n, 'ratio': round(r_, 4), 'counts': w} for r_, f, a, n, w in worst[:5]],
             'samples': [{'family': t['family'], 'api': t['api'], 'n': t['n'], 'counts': t.get('w') or
                          {'tokens': t['q'], 'keys': t['k'], 'buffer': t['b'], 'events': t['e']}} for t in (recs[:3] + recs[-2:])]}
    v.assumptions = ['work = number of sys.setprofile call + c_call events (the property text: interpreter-level function calls); '
                     'C-level linear primitives (list.pop(0), insert, slicing, join) are invisible to it and are covered by the '
                     'model bounds + the sampled primitive lengths; membership tests on a list (x in list) are visible to neither',
                     'model: Block = 4 and MaxKey = 4 stand for 4096 and 1024 (bounds affine in them: checked for other values in '
                     'the thorough tier); flow depth <= MaxFlow, block collections at columns < MaxCol, unbroken runs <= MaxRun',
                     'reader buffer: linear only for bounded look-ahead - an unbroken run of r characters read from a stream is '
                     're-copied at every refill (r^2 / (2 * 4096) character copies, no function calls): outside the statement',
                     'nesting families use moderate depth (composer / representer recurse)']
    return v.finish()
