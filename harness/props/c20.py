"""C20 - work grows linearly with the size of the input.

(a) design checks, TLC: spec/Work.tla (reader + scanner + per-token work, lazy input choice, finite relative
    configuration: ALL inputs of any length inside the nesting / run bounds), spec/WorkReader.tla (the buffer under a
    free client), spec/WorkEmit.tla (emitter look-ahead queue, serializer tables).  Invariants: the structural bounds
    (QueueBound, KeysBound, BufferBound, EventQueueBound), StepCost (every action O(1)), Progress (O(1) actions per
    character / event) and - Exact configurations - the literal  work <= A * consumed + B  per mechanism.
    Negative controls (deliberately superlinear variants of one action) MUST be rejected by TLC: vacuity guard.
(b) code -> spec: the catalogue of load and dump families at n, 2n, 4n (thorough: 8n) is run through the real pure-Python
    loader / dumper under sys.setprofile; the call counts are judged by TLC (spec/Trace_Work.tla, H_LinearWork).
(c) spec -> code binding of the primitive costs that call counts cannot see: instrumented subclasses sample
    len(tokens), len(possible_simple_keys), len(buffer), len(events) through the stage interfaces; the maxima are judged
    by TLC against the bounds of the L models with the real constants (a structure above its bound that grows with n is
    a violation: its pop / copy cost is its length).
(d) spec -> code, cycle families: spec/WorkPump.tla exports the transition graph of the finite configurations of Work.tla
    (str input, runs of any length); every way an input can grow by repetition is a cycle u v^n w of that graph.  For every
    scanner loop (pc) and every character class that selects a branch of it (Choose-edge signature) the shortest cycle is
    concretised and the real scanner is run on u v^n w, u v^2n w, u v^4n w; the counts are judged by Trace_Work.tla.
"""
import json, os, re
from concurrent.futures import ThreadPoolExecutor
import multiprocessing as mp
from .. import tlc, trace
from .. import c20_util as U
from ..common import Verdict, SEED, SPEC

ALL = '{"w", "s", "n", "h", "[", "]", ",", ":", "-", "q", "a", "d"}'          # ("r", the alias, is in anchors_str)
BASE = dict(Block=4, MaxKey=4, MaxFlow=2, MaxCol=2, MaxRun=3, MaxLen=0, Stream='FALSE', Exact='FALSE', Variant='"code"', Sym=ALL)


def cfgd(**kw):
    d = dict(BASE)
    d.update(kw)
    return d


# name -> (module, cfg, constants)
DESIGN_QUICK = {
    'block_str':    ('Work', 'MC_Work.cfg', cfgd(MaxFlow=0, Sym='{"w", "s", "n", "-", ":", "h", "d", "a"}')),
    'anchors_str':  ('Work', 'MC_Work.cfg', cfgd(MaxFlow=1, MaxCol=1, MaxRun=1, Sym='{"a", "r", "w", "[", ",", "]", "s", "n"}')),
    'scalars_str':  ('Work', 'MC_Work.cfg', cfgd(MaxFlow=0, MaxCol=1, Sym='{"w", "s", "n", "q", "h", ":", "d"}')),
    'flow_str':     ('Work', 'MC_Work.cfg', cfgd(MaxFlow=2, MaxCol=1, Sym='{"w", "n", "[", "]", ",", ":", "q"}', MaxRun=2)),
    'block_stream': ('Work', 'MC_Work.cfg', cfgd(Stream='TRUE', MaxFlow=0, MaxCol=1, Sym='{"w", "s", "n", ":", "-"}')),
    'exact_words':  ('Work', 'MC_Work.cfg', cfgd(Exact='TRUE', MaxLen=24, MaxFlow=0, MaxCol=1, Sym='{"w", "s"}')),
    'exact_flow':   ('Work', 'MC_Work.cfg', cfgd(Exact='TRUE', MaxLen=16, MaxFlow=1, MaxCol=1, Sym='{"w", "[", ","}')),
    'exact_stream': ('Work', 'MC_Work.cfg', cfgd(Exact='TRUE', Stream='TRUE', MaxLen=40, MaxFlow=0, MaxCol=1, MaxRun=1,
                                                  Sym='{"w", "s"}')),
    'exact_anchors': ('Work', 'MC_Work.cfg', cfgd(Exact='TRUE', MaxLen=18, MaxFlow=0, MaxCol=1, MaxRun=1, Sym='{"a", "w", "s"}')),
    'reader':       ('WorkReader', 'MC_WorkReader.cfg', {}),
    'emitter':      ('WorkEmit', 'MC_WorkEmit.cfg', {}),
}
WRITERS = {'writers': {}, 'writers_wide': {'MaxRun': 3, 'W': 5}}          # WorkWrite.tla, MC_WorkWrite.cfg; quick: the first
DESIGN_THOROUGH = dict(DESIGN_QUICK)
DESIGN_THOROUGH.update({
    'bscalar_str':  ('Work', 'MC_Work.cfg', cfgd(MaxFlow=0, MaxCol=3, MaxRun=2, Sym='{"w", "s", "n", "b", "i", "c", "h"}')),
    'bscalar_map':  ('Work', 'MC_Work.cfg', cfgd(MaxFlow=0, MaxCol=2, MaxRun=2, Sym='{"w", "s", "n", "b", "i", "h", ":"}')),
    'exact_bscalar': ('Work', 'MC_Work.cfg', cfgd(Exact='TRUE', MaxLen=11, MaxFlow=0, MaxCol=2, Sym='{"w", "s", "n", "b", "i"}')),
})
# quick: the finite-abstraction configurations with MaxKey = 4 / MaxRun = 3 are thorough only; quick checks the same
# invariants on the cycle-family configurations (CYCLE_QUICK, other values of the scaled constants) that it needs anyway
for _k in ('exact_flow', 'exact_anchors', 'block_str', 'anchors_str', 'scalars_str', 'flow_str'):
    del DESIGN_QUICK[_k]
# configurations of spec/WorkPump.tla (= Work.tla + edge export): the invariants of MC_Work.cfg are checked, and the cycles
# of the graph are the families of binding (d)
def cyc(**kw):
    return cfgd(MaxRun=1, MaxKey=2, **kw)


CYCLE_QUICK = {
    'bscalar': cyc(MaxFlow=0, MaxCol=3, Sym='{"w", "s", "n", "b", "i", "c", "h"}'),
    'block':   cyc(MaxFlow=0, MaxCol=2, Sym='{"w", "s", "n", "-", ":", "k", "h", "d"}'),
    'scalars': cyc(MaxFlow=0, MaxCol=1, Sym='{"w", "s", "n", "q", "h", ":", "d", "z"}'),
    'quotes':  cyc(MaxFlow=0, MaxCol=1, Sym='{"w", "s", "n", "q", "Q", "e", "x", "h", ":"}'),
    'flow':    cyc(MaxFlow=1, MaxCol=1, Sym='{"w", "s", "n", "[", "]", ",", ":", "k"}'),
    'flowq':   cyc(MaxFlow=1, MaxCol=1, Sym='{"w", "n", "[", "]", ",", ":", "k", "Q"}'),
    'anchors': cyc(MaxFlow=1, MaxCol=1, Sym='{"a", "r", "w", "[", ",", "]", "s", "n"}'),
    'tags':    cyc(MaxFlow=0, MaxCol=1, Sym='{"w", "s", "n", "t", "p", ":", ","}'),
}
CYCLE_THOROUGH = dict(CYCLE_QUICK)
CYCLE_THOROUGH.update({
    'bscalar_map': cyc(MaxFlow=0, MaxCol=2, Sym='{"w", "s", "n", "b", "i", "h", ":"}'),
    'bscalar_seq': cyc(MaxFlow=0, MaxCol=2, Sym='{"w", "s", "n", "b", "i", "-", "h"}'),
    'flow2':       cyc(MaxFlow=2, MaxCol=1, Sym='{"w", "n", "[", "]", ",", ":", "q"}'),
    'tags_flow':   cyc(MaxFlow=1, MaxCol=1, Sym='{"w", "s", "n", "t", "p", "[", "]", ","}'),
    'block_run2':  cfgd(MaxRun=2, MaxKey=3, MaxFlow=0, MaxCol=2, Sym='{"w", "s", "n", "-", ":", "h", "d", "a"}'),
})
ACTION_OF_PC = {'idle': 'APull', 'tonext': 'AToNext', 'comment': 'AComment', 'fetch': 'AFetch', 'plain': 'APlain',
                'pspaces': 'APlainSpaces', 'pbreaks': 'APlainBreaks', 'quoted': 'AQuoted', 'qend': 'AQuotedEnd',
                'qspaces': 'AQuotedSpaces', 'qbreaks': 'AQuotedBreaks', 'qesc': 'AQuotedEsc', 'qhex': 'AQuotedHex', 'tag0': 'ATag0', 'tagrun': 'ATagRun',
                'dirname': 'ADirName', 'dirskip': 'ADirSkip', 'anchor': 'AAnchor', 'bhead': 'ABlockHead',
                'bignore': 'ABlockIgnore', 'bcomment': 'ABlockComment', 'bindent': 'ABlockIndent', 'bbreaks': 'ABlockBreaks',
                'bcheck': 'ABlockCheck', 'bline': 'ABlockLine'}
C1 = {'JAVA_TOOL_OPTIONS': '-XX:TieredStopAtLevel=1 -XX:ParallelGCThreads=2'}     # small runs: JIT / GC threads dominate the CPU
NEGCTL_QUICK = ('nokeylimit_queue', 'concat', 'nobuftrim', 'aliaswalk', 'reader_nobuftrim', 'emitter_lookahead', 'writer_reslice')
DESIGN_THOROUGH.update({
    'all_str':      ('Work', 'MC_Work.cfg', cfgd()),
    'flow_str3':    ('Work', 'MC_Work.cfg', cfgd(MaxFlow=2, MaxCol=1, Sym='{"w", "s", "n", "[", "]", ",", ":", "q"}')),
    'flow_stream':  ('Work', 'MC_Work.cfg', cfgd(Stream='TRUE', MaxFlow=1, MaxCol=1, MaxRun=2, Sym='{"w", "s", "[", ",", ":"}')),
    'block_stream2': ('Work', 'MC_Work.cfg', cfgd(Stream='TRUE', MaxFlow=0, Sym='{"w", "s", "n", "-", ":", "h", "d", "a"}')),
    # the bounds are affine in the scaled constants: other values of MaxKey / Block
    'maxkey3':      ('Work', 'MC_Work.cfg', cfgd(MaxKey=3, MaxFlow=1, MaxCol=1, Sym='{"w", "s", "n", "[", "]", ",", ":"}')),
    'maxkey6':      ('Work', 'MC_Work.cfg', cfgd(MaxKey=6, MaxFlow=1, MaxCol=1, Sym='{"w", "n", "[", "]", ",", ":"}')),
    'block3':       ('Work', 'MC_Work.cfg', cfgd(Block=3, Stream='TRUE', MaxFlow=0, MaxCol=1, Sym='{"w", "s", "n", ":", "-"}')),
    'block6':       ('Work', 'MC_Work.cfg', cfgd(Block=6, Stream='TRUE', MaxFlow=0, MaxCol=1, Sym='{"w", "s", "n", ":", "-"}')),
    'exact_block':  ('Work', 'MC_Work.cfg', cfgd(Exact='TRUE', MaxLen=9, MaxFlow=0, MaxCol=2, Sym='{"w", "s", "n", "-", ":"}')),
    'exact_flow2':  ('Work', 'MC_Work.cfg', cfgd(Exact='TRUE', MaxLen=10, MaxFlow=2, MaxCol=1, Sym='{"w", "[", ",", ":", "]"}')),
    'reader_wide':  ('WorkReader', 'MC_WorkReader.cfg', {'Block': 6, 'Look': 9}),
    'emitter_deep': ('WorkEmit', 'MC_WorkEmit.cfg', {'MaxDepth': 6, 'MaxScalar': 4}),
})
# name -> (module, cfg, constants, invariants of which at least one must be reported violated)
NEGCTL = {
    'nokeylimit_queue': ('Work', 'MC_Work_negctl.cfg', cfgd(Exact='TRUE', MaxLen=16, MaxFlow=1, MaxCol=1, Variant='"nokeylimit"',
                                                           Sym='{"w", "[", ","}'), {'QueueBound'}),
    'nokeylimit_cost':  ('Work', 'MC_Work_cost.cfg', cfgd(Exact='TRUE', MaxLen=40, MaxFlow=1, MaxCol=1, Variant='"nokeylimit"',
                                                         Sym='{"w", "[", ","}'), {'StepCost', 'LinearPerMech', 'LinearWork'}),
    'concat':           ('Work', 'MC_Work_cost.cfg', cfgd(Exact='TRUE', MaxLen=24, MaxFlow=0, MaxCol=1, Variant='"concat"',
                                                         Sym='{"w", "s"}'), {'StepCost', 'LinearPerMech', 'LinearWork'}),
    'anchorlist':       ('Work', 'MC_Work_cost.cfg', cfgd(Exact='TRUE', MaxLen=18, MaxFlow=0, MaxCol=1, MaxRun=1,
                                                         Variant='"anchorlist"', Sym='{"a", "w", "s"}'),
                         {'StepCost', 'LinearPerMech', 'LinearWork'}),
    'nobuftrim':        ('Work', 'MC_Work_cost.cfg', cfgd(Exact='TRUE', Stream='TRUE', MaxLen=60, MaxFlow=0, MaxCol=1, MaxRun=1,
                                                         Variant='"nobuftrim"', Sym='{"w", "s"}'),
                         {'StepCost', 'LinearPerMech', 'LinearWork'}),
    'aliaswalk':        ('Work', 'MC_Work_alias.cfg', {}, {'StepCost'}),
    'reader_nobuftrim': ('WorkReader', 'MC_WorkReader_negctl.cfg', {}, {'Amortised'}),
    'emitter_lookahead': ('WorkEmit', 'MC_WorkEmit_negctl.cfg', {}, {'EventQueueBound', 'StepCost'}),
    'writer_reslice':   ('WorkWrite', 'MC_WorkWrite_negctl.cfg', {}, {'StepCost'}),
    'serializer_anchorscan': ('WorkEmit', 'MC_WorkEmit_negctl.cfg', {'Variant': '"anchorscan"', 'MaxEvents': 40}, {'StepCost'}),
}
WORK_ACTIONS = ['Choose'] + sorted(ACTION_OF_PC.values())
WRITE_ACTIONS = ['Begin', 'Step']
EMIT_ACTIONS = ['SendDocStart', 'SendDocEnd', 'SendStreamEnd', 'SendScalar', 'SendAlias', 'SendStart', 'SendEnd', 'Drain']
READER_ACTIONS = ['Peek', 'Prefix', 'Forward', 'EndOfStream']

# APIs besides the main one (load / dump) - quick measures them on a subset of the families, thorough on all
LOAD_SUBSET = ['plain_one_word', 'double_multi_line', 'literal_lines', 'block_seq', 'flow_seq_one_line', 'block_map',
               'documents', 'comment_lines', 'blank_lines', 'anchors_then_aliases', 'keys_just_under_limit',
               'nested_flow_seqs']
DUMP_SUBSET = ['str_plain_words', 'str_double_escapes', 'str_literal_lines', 'ints', 'dict_sorted', 'list_of_dicts',
               'many_shared_objects', 'nested_lists', 'flow_style_wide']


_ACT = re.compile(r'<(\w+) line \d+, col \d+ to line \d+, col \d+ of module \w+(?: \([\d ]+\))?>: (\d+):(\d+)')


def run_tlc(item):
    name, (module, cfg, consts) = item[0], item[1][:3]
    small = len(item) > 4 and item[4]
    r = tlc.run(module, cfg=cfg, workers=item[2], heap='1g' if small else '3g', timeout=item[3], tag='C20_' + name, constants=consts or None,
                env=C1 if small else None, coverage=not (small and len(item[1]) > 3))     # negative controls: no coverage needed
    r.actions = {}                      # (actions under \E carry a position suffix that harness/tlc.py does not parse)
    for a, d, g in _ACT.findall(r.out):
        x = r.actions.setdefault(a, [0, 0])
        x[0] += int(d)
        x[1] += int(g)
    return name, r


def catalogue(tier, only=None):
    quick = tier == 'quick'
    target, min_n, doublings, nested_n = (40000, 300, 2, 40) if quick else (300000, 2000, 3, 50)
    jitter = (SEED * 37) % 13
    calls, prims = [], []

    def add(side, fam, api):
        if only and fam not in only:
            return
        calls.append((side, fam, api, target, min_n, doublings, nested_n, jitter))
    for fam in U.LOAD:
        main = U.LOAD_API.get(fam, 'load')
        add('load', fam, main)
        if main == 'load' and not quick:
            add('load', fam, 'scan')
            add('load', fam, 'load_stream')
        if main == 'load' and fam in LOAD_SUBSET:
            for api in ('scan', 'parse', 'load_stream') if quick else ('parse', 'compose', 'load_bytes'):
                add('load', fam, api)
    for fam in U.DUMP:
        add('dump', fam, 'dump')
        if not quick:
            add('dump', fam, 'emit')
        if fam in DUMP_SUBSET:
            for api in ('emit', 'serialize') if quick else ('serialize', 'dump_stream'):
                add('dump', fam, api)
    for fam in U.DUMP_ALL:
        add('dump', fam, 'dump_all')
    # customised applications: user Loader / Dumper subclasses with registered resolvers, constructors, representers,
    # and the full / unsafe classes (harness/c20_util.py make_app, APP_LOAD, APP_DUMP)
    for fam, (gen, apis) in U.APP_LOAD.items():
        for api in apis:
            add('load', fam, api)
    for fam, (gen, kw, apis) in U.APP_DUMP.items():
        for api in apis:
            add('dump', fam, api)
    for fam in (U.APP_ALSO_LOAD[:4] if quick else U.APP_ALSO_LOAD):
        add('load', fam, 'app_load')
        add('load', fam, 'unsafe_load')
    for fam in (U.APP_ALSO_DUMP[:4] if quick else U.APP_ALSO_DUMP):
        add('dump', fam, 'app_dump')
        add('dump', fam, 'unsafe_dump')
    for fam in U.TEXT_FED:                       # a growing node in every structural position, and pairs of structures that
        add('dump', fam, 'emit_text')            # grow together, fed to the emitter / serializer as events / nodes
        if not quick or fam.startswith('first_key') or fam in U.PAIR_TEXT:
            add('dump', fam, 'serialize_text')
    pn = 500 if quick else 2000
    pn += (pn * jitter) // 100
    for fam in U.LOAD:
        if only and fam not in only:
            continue
        if fam in U.NESTED:
            sizes = [nested_n, 2 * nested_n, 4 * nested_n]
        elif fam in U.MIN_N:
            sizes = [U.MIN_N[fam] // 2, U.MIN_N[fam], 2 * U.MIN_N[fam]]
        else:
            sizes = [pn, 2 * pn, 4 * pn]
        if fam in U.LOAD_API:
            continue
        if not quick:                       # (quick: stream input only - it exercises the buffer as well as queue and keys)
            prims.append(('load', fam, 'load', sizes))
        prims.append(('load', fam, 'load_stream', sizes))
    for fam in U.DUMP:
        if only and fam not in only:
            continue
        sizes = [nested_n, 2 * nested_n, 4 * nested_n] if fam in U.DUMP_NESTED else [pn, 2 * pn, 4 * pn]
        prims.append(('dump', fam, 'dump', sizes))
    for fam in U.TEXT_FED:
        if only and fam not in only:
            continue
        prims.append(('dump', fam, 'emit_text', [pn, 2 * pn, 4 * pn]))
    return calls, prims


def run_cycle_cfg(item):
    """WorkPump on one configuration (invariants of MC_Work.cfg checked, edges exported), then the cycles of its graph"""
    name, consts, workers, timeout, dpool, heap = item
    module = 'WorkWrite' if name in WRITERS else 'WorkPump'
    r = tlc.run(module, cfg='MC_%s.cfg' % module, workers=workers, heap=heap, timeout=timeout, tag='C20_cyc_' + name,
                constants=consts or None, coverage=False, env=C1)
    r.cycles = None
    if r.ok:
        r.cycles = dpool.apply(U.derive_from_file, (os.path.join(r.rundir, 'tlc.out'),))
    r.out = r.out[-4000:]                      # the edge lines are on disk
    return 'cyc_' + name, r


def main(tier, replay=None):
    v = Verdict('C20', tier)
    quick = tier == 'quick'
    only = None
    if replay:
        only = {x['key']['family'] for x in json.load(open(replay))['violations']}
    calls, prims = catalogue(tier, only)
    design = DESIGN_QUICK if quick else DESIGN_THOROUGH
    cycle_cfgs = CYCLE_QUICK if quick else CYCLE_THOROUGH
    writer_cfgs = {'writers': WRITERS['writers']} if quick else WRITERS
    negctl = {k: x for k, x in NEGCTL.items() if not quick or k in NEGCTL_QUICK}
    big = {'all_str', 'flow_str3', 'flow_stream', 'block_stream2', 'bscalar_str'}
    jobs = [(n, d, 8 if n in big else 2 if quick else 4, 3000, quick or d[0] != 'Work') for n, d in design.items()]
    jobs += [(n, d, 1, 900, True) for n, d in negctl.items()]
    jobs.sort(key=lambda j: 0 if j[0] in big else 1)
    # the real code is measured in worker processes while TLC explores the models
    pool = mp.Pool(int(os.environ.get('VERIF_C20_PROCS', '12')))
    dpool = mp.Pool(4)
    jitter = (SEED * 37) % 13
    with ThreadPoolExecutor(int(os.environ.get('VERIF_C20_JVMS', '6' if quick else '3'))) as ex:      # quick: ~20 small JVM runs, start-up dominated
        fc = [ex.submit(run_cycle_cfg, (n, c, 2, 3000, dpool, '1g' if n in CYCLE_QUICK else '3g')) for n, c in cycle_cfgs.items()]
        fc += [ex.submit(run_cycle_cfg, (n, c, 1, 900, dpool, '1g')) for n, c in writer_cfgs.items()]
        fo = [ex.submit(run_tlc, j) for j in jobs]
        a_calls = pool.map_async(U.measure_calls, calls, chunksize=1)
        a_prims = pool.map_async(U.measure_prims, prims, chunksize=1)
        cyc_results = dict(f.result() for f in fc)
        # ------------------------------------------------------------ (d) cycle families: derived from the graphs
        per_cfg, cyc_cov, wfams = {}, {}, {}
        for name, r in cyc_results.items():
            if r.violated:
                print(r.out[-3000:])
                raise SystemExit('machinery failure: WorkPump configuration %s violates %s - the cost MODEL is wrong' % (name, r.violated))
            tlc.require_ok(r, 'C20 cycle configuration ' + name)
            fams, sigs, nodes, actions = r.cycles
            if name[4:] in WRITERS:
                wfams[name[4:]] = fams
                r.actions = {'Begin': [1, sum(1 for x in sigs if x[0] == 'start')], 'Step': [1, sum(1 for x in sigs if x[0] != 'start')]}
            else:
                per_cfg[name[4:]] = fams
                r.actions = {ACTION_OF_PC[pc]: [n, n] for pc, n in actions.items() if pc in ACTION_OF_PC}
                r.actions['Choose'] = [len(sigs), len(sigs)]
            cyc_cov[name] = {'states': r.distinct, 'configurations': nodes, 'signatures': len(sigs), 'on_a_cycle': len(fams)}
        selected = U.select_cycles(per_cfg)
        ctasks = []
        for name, fam, sig in selected:
            if only and name not in only:
                continue
            ctasks.append((name, fam, 'scan', 12000 if quick else 100000, 200 if quick else 1000, 2 if quick else 3, jitter, False))
            if not quick:
                ctasks.append((name, fam, 'scan', 100000, 1000, 2, jitter, True))      # the alternate concretisation
        a_cyc = pool.map_async(U.measure_cycle, ctasks, chunksize=2)
        wtasks, wseen = [], set()
        for cfgname in sorted(wfams):
            for name, fam, sig in U.select_wcycles(wfams[cfgname], cfgname):
                if (only and name not in only) or (fam[0][0], fam[1]) in wseen:
                    continue
                wseen.add((fam[0][0], fam[1]))
                for api in ('dump_style',) if quick else ('dump_style', 'emit_scalar', 'dump_style_stream'):
                    wtasks.append((name, fam, api, 12000 if quick else 100000, 200 if quick else 1000, 2 if quick else 3, jitter))
        a_wcyc = pool.map_async(U.measure_wcycle, wtasks, chunksize=2)
        results = dict(f.result() for f in fo)
    dpool.close()
    results.update(cyc_results)
    design = dict(design)
    design.update({'cyc_' + n: ('WorkPump', 'MC_WorkPump.cfg', c) for n, c in cycle_cfgs.items()})
    design.update({'cyc_' + n: ('WorkWrite', 'MC_WorkWrite.cfg', c) for n, c in writer_cfgs.items()})
    # ---------------------------------------------------------------- (a) design checks
    states = trans = 0
    fired = {}
    per_cfg = {}
    for name, (module, cfg, consts) in design.items():
        r = results[name]
        if r.violated:
            print(r.out[-3000:])
            raise SystemExit('machinery failure: %s (%s) violates %s - the cost MODEL is wrong for configuration %s'
                             % (module, cfg, r.violated, name))
        tlc.require_ok(r, 'C20 design check ' + name)
        states += r.distinct
        trans += r.generated
        per_cfg[name] = {'module': module, 'states': r.distinct, 'transitions': r.generated, 'depth': r.depth,
                         'constants': {k: str(x) for k, x in (consts or {}).items() if k in
                                       ('Block', 'MaxKey', 'MaxFlow', 'MaxCol', 'MaxRun', 'MaxLen', 'Stream', 'Exact', 'Sym', 'W')}}
        for a, c in r.actions.items():
            fired[(module, a)] = fired.get((module, a), 0) + c[1]
    for (m_, a), c in list(fired.items()):
        if m_ == 'WorkPump':
            fired[('Work', a)] = fired.get(('Work', a), 0) + c
    unfired = [(m_, a) for m_, acts in (('Work', WORK_ACTIONS), ('WorkEmit', EMIT_ACTIONS), ('WorkReader', READER_ACTIONS), ('WorkWrite', WRITE_ACTIONS))
               for a in acts if fired.get((m_, a), 0) == 0]
    if unfired:
        raise SystemExit('machinery failure: actions never taken in any design configuration: %s' % unfired)
    negres = {}
    for name, (module, cfg, consts, expect) in negctl.items():
        r = results[name]
        hit = set(r.violated) & expect
        negres[name] = sorted(r.violated)
        if not hit:
            print(r.out[-2000:])
            raise SystemExit('machinery failure: negative control %s (%s, a deliberately superlinear design) was NOT rejected '
                             'by TLC (violated=%s, expected one of %s): the invariants are vacuous' % (name, cfg, r.violated, sorted(expect)))
        states += r.distinct
        trans += r.generated
    # ---------------------------------------------------------------- (b), (c) measurements judged by TLC
    rc = a_calls.get()
    rp = a_prims.get()
    ry = a_cyc.get() + a_wcyc.get()
    pool.close()
    pool.join()
    recs = list(rc) + list(ry) + list(rp)
    # a family member that the tree under test rejects is not C20's subject: noted, and what completed is still judged
    failed = [t for t in recs if t.get('error')]
    for t in failed[:5]:
        v.note('C20: family %s/%s: a member was rejected by the tree under test (%s); judged on the sizes that completed'
               % (t['family'], t['api'], t['error']))
    recs = [t for t in recs if (len(t['w']) >= 2 if t['kind'] == 'ratio' else len(t['q']) >= 1)]
    traces = [{k: t[k] for k in t if k not in ('sizes', 'units', 'error', 'uvw')} for t in recs]
    for t in traces:                     # TLC integers are 32-bit: counts of 10^8 and more (only a badly superlinear tree
        if t['kind'] == 'ratio':         # gets there) are divided exactly by a fixed unit; the ratios are unchanged
            t['unit'] = 1
            while max(t['w']) >= 10 ** 8:
                t['w'] = [x // 1024 for x in t['w']]
                t['unit'] *= 1024
    verdicts, s2 = trace.judge('Trace_Work', traces, 'C20_meas', par=2)
    states += s2
    nratio = nprim = ndrift = 0
    worst = []
    for t, (ok, why, at) in zip(recs, verdicts):
        if t['kind'] == 'ratio':
            nratio += 1
            w = t['w']
            worst.append((max(w[i + 1] / w[i] for i in range(len(w) - 1)), t['family'], t['api'], t['n'], w))
        else:
            nprim += 1
        if not ok:
            v.violation({'family': t['family'], 'api': t['api'], 'clause': why},
                        {'record': t, 'at': at, 'text': ('%r + %r * n + %r' % tuple(t['uvw'])) if t.get('uvw') else None, 'how': 'counts of interpreter-level calls (sys.setprofile call + c_call) or, for '
                         'kind prim, primitive lengths sampled through the stage interfaces'})
        elif why.startswith('drift'):
            ndrift += 1
            if ndrift <= 5:
                v.note('spec-drift C20: %s/%s %s (max %d, not growing with n)' % (t['family'], t['api'], why, at))
    worst.sort(reverse=True)
    v.cov = {'states': states, 'transitions': trans, 'exhaustive': True,
             'traces_validated_against_impl': len(traces), 'ratio_records_judged': nratio, 'primitive_bound_records_judged': nprim,
             'load_families': len(U.LOAD) + len(U.APP_LOAD), 'cycle_families': len(ctasks), 'writer_cycle_families': len(wtasks),
             'cycle_families_rejected_by_the_scanner': sum(1 for t in ry if t.get('error')),
             'cycle_configurations': cyc_cov,
             'dump_families': len(U.DUMP) + len(U.DUMP_ALL) + len(U.TEXT_FED) + len(U.APP_DUMP),
             'distinct_nontrivial': len({(t['family'], t['api']) for t in recs}),
             'rule': 'one record per (family, api): call counts at n, 2n, 4n%s under sys.setprofile judged by Trace_Work.tla '
                     '(H_LinearWork, eps = 15%%); primitive lengths (token queue, simple-key table, reader buffer, emitter '
                     'queue) judged against the model bounds with MaxKey = 1024 and the observed read size' % ('' if quick else ', 8n'),
             'family_members_rejected': len(failed), 'design_configurations': per_cfg, 'negative_controls_rejected': negres,
             'actions_fired': {'%s.%s' % k: n for k, n in sorted(fired.items())},
             'worst_ratios': [{'family': f, 'api': a, 'n': n, 'ratio': round(r_, 4), 'counts': w} for r_, f, a, n, w in worst[:5]],
             'samples': [{'family': t['family'], 'api': t['api'], 'n': t['n'], 'counts': t.get('w') or
                          {'tokens': t['q'], 'keys': t['k'], 'buffer': t['b'], 'events': t['e']}} for t in (recs[:3] + recs[-2:])]}
    v.assumptions = ['work = number of sys.setprofile call + c_call events (the property text: interpreter-level function calls); '
                     'C-level linear primitives (list.pop(0), insert, slicing, join) are invisible to it and are covered by the '
                     'model bounds + the sampled primitive lengths; membership tests on a list (x in list) are visible to neither',
                     'model: Block = 4 and MaxKey = 4 stand for 4096 and 1024 (bounds affine in them: checked for other values in '
                     'the thorough tier); flow depth <= MaxFlow, block collections at columns < MaxCol, unbroken runs <= MaxRun',
                     'reader buffer: linear only for bounded look-ahead - an unbroken run of r characters read from a stream is '
                     're-copied at every refill (r^2 / (2 * 4096) character copies, no function calls): outside the statement',
                     'nesting families use moderate depth (composer / representer recurse)']
    return v.finish()
