"""C12 - multi-document streams keep their document boundaries; the text of a document does not depend on what follows.

L: spec/Emitter.tla (document start/end logic, open_ended, check_empty_document) composed with the reader model
   spec/EmitRead.tla (column-0 `---`/`...` rules, the parser's implicit-document rules), model-checked by TLC in
   document-level configurations (spec/MC_Emitter.tla, invariants DocBoundaries / RoundTrip) over all lists of 0..k documents.
H: spec/H_DocBoundaries.tla.  spec -> code: every list of the model is written with emit / serialize_all / dump_all (Python
   and libyaml dumpers, Safe variants) into a write-logging stream, the text is recorded after every document, and read back
   with parse / compose_all / load_all (both loaders); code -> spec: seeded lists of documents drawn from the repository's
   data files under the option product.  All observations are judged by TLC (spec/Trace_Docs.tla).
Read side (spec/DocDeliver.tla): the text goes back to the loaders also as a file-like object (characters, UTF-8 bytes, UTF-16
   bytes) whose read() follows every schedule of the model (1-unit, 2-unit, line, document, half-document, exact-size reads and
   their alternations); every behaviour of the model is replayed at the model's read size, and the schedules are replayed at
   the real read sizes on the texts of all lists (parse / scan / compose_all / load_all, both back-ends), long lists included.
"""
import copy, glob, json, os, random, zlib
import multiprocessing as mp
from .. import tlc, trace
from ..common import Verdict, use_repo, REPO, SEED
from ..drivers import emitparse as ep
from ..drivers import docdeliver as dd
from .c05 import tla, calibrate

_T0 = [None]
PROCS = int(os.environ.get('VERIF_PROCS', '16'))       # worker processes (a shared, loaded machine: set it lower; no effect on results)


def _t(label):
    """phase timing on stderr when VERIF_TIMING is set (development aid; no effect on verdicts)"""
    import sys, time
    if os.environ.get('VERIF_TIMING'):
        now = time.time()
        sys.stderr.write('[%s +%.1fs] %s\n' % ('C12', now - (_T0[0] or now), label))
        _T0[0] = now


DBASE = dict(Fix=[], Variant='"python"', Mode='"grammar"', MaxEvents=14, MaxDocs=3, MaxNest=1, EmptyColls=True, CollsAt='"any"',
             Canons=[False], Bests=[2], Widths=[80], Unis=[False], LBs=['n'], Vs=['empty', 'word', 'nlnl'], Ss=['none'],
             SAs=[''], STs=[''], SIs=['tf'], CAs=[''], CTs=[''], CIs=[True], FSs=[False], AAs=[], DXs=[False, True],
             DVs=[''], DTs=[''], EXs=[False, True])
DCONF = {
    'open':   dict(DBASE, Vs=['empty', 'nlnl'], FSs=[], MaxDocs=3),
    'roots':  dict(DBASE, Vs=['empty', 'word', 'multiline'], Ss=['none', 'double'], STs=['', 'local'], MaxDocs=2, MaxEvents=10,
                   EXs=[False]),
    'dirs':   dict(DBASE, DXs=[False], DVs=['', '1.1'], DTs=['', 'h1'], FSs=[], MaxDocs=2, MaxEvents=10),
    'canon':  dict(DBASE, Vs=['empty', 'nlnl'], Canons=[True, False], LBs=['rn'], DXs=[False], FSs=[], MaxDocs=3),
    # document markers as words: roots, keys and values of a root block mapping, items; at the start of the scalar and at fold points
    'markers': dict(DBASE, EmptyColls=False, MaxDocs=2, MaxEvents=11, Vs=['word', 'dashkey', 'dotsfold'], Widths=[5],
                    DXs=[False], EXs=[False]),
    # documents that differ in their %TAG tables, later documents without directives that use the handles
    'handles': dict(DBASE, Vs=['word'], STs=['', 'core', 'local', 'st', 'bt'], SIs=['ff'], DTs=['', 'hs', 'hb'], DXs=[False], EXs=[False],
                    FSs=[], MaxDocs=2, MaxEvents=10),
    # thorough
    'handles+': dict(DBASE, Vs=['word'], STs=['', 'core', 'local', 'st', 'bt', 'hdl'], SIs=['ff', 'tf'], DTs=['', 'hs', 'hb', 'h1'], DXs=[False, True],
                     EXs=[False], FSs=[], MaxDocs=2, MaxEvents=10),
    'handles3+': dict(DBASE, Vs=['word'], STs=['', 'core', 'local', 'st', 'bt'], SIs=['ff'], DTs=['', 'hs', 'hb'], DXs=[False], EXs=[False],
                      FSs=[], MaxDocs=3),
    'markers+': dict(DBASE, EmptyColls=False, MaxDocs=2, MaxEvents=11, Vs=['word', 'docsep', 'dashkey', 'dotkey', 'dotsfold'],
                     Widths=[5, 80], DXs=[False], EXs=[False]),
    'open+':  dict(DBASE, Ss=['none', 'literal', 'folded', 'single'], Vs=['empty', 'word', 'nl', 'nlnl'], MaxDocs=3, EXs=[False]),
    'ends+':  dict(DBASE, Ss=['none', 'literal'], Vs=['empty', 'nlnl'], MaxDocs=3),
    'roots+': dict(DBASE, Vs=['empty', 'word', 'multiline', 'docsep'], Ss=['none', 'double'], SAs=['', 'a1'], STs=['', 'local', 'core'],
                   MaxDocs=2, MaxEvents=10, FSs=[False, True], EXs=[False]),
    'dirs+':  dict(DBASE, DXs=[False, True], DVs=['', '1.1'], DTs=['', 'h1'], MaxDocs=2, MaxEvents=10, FSs=[]),
    'dirs3+': dict(DBASE, DXs=[False], EXs=[False], DVs=['', '1.1'], DTs=['', 'h1'], MaxDocs=3, FSs=[]),
    'four+':  dict(DBASE, Vs=['empty', 'nlnl'], MaxDocs=4, MaxEvents=18, FSs=[], EXs=[False]),
    'canon+': dict(DBASE, Canons=[True, False], LBs=['rn', 'r'], MaxDocs=3, DXs=[False], FSs=[]),
}
DTIERS = {'quick': ['open', 'roots', 'dirs', 'canon', 'markers', 'handles'], 'thorough': ['open+', 'ends+', 'roots+', 'dirs+', 'dirs3+', 'four+', 'canon+', 'markers+', 'handles+', 'handles3+']}
KEEP = r'outcome \|-> "done"'
# spec/DocDeliver.tla: documents x schedules of the stream x read size of the reader
VBASE = dict(Shapes=['empty', 'word', 'below'], Tails=['none', 'dots'], MaxDocs=2, Sizes=[4, 6], Kinds=list(dd.KINDS), MaxPeriod=2)
VCONF = {
    'deliver':   VBASE,
    'deliver+':  dict(VBASE, Shapes=['empty', 'word', 'below', 'keep'], MaxDocs=3, Sizes=[3, 4, 7]),
    'deliver3+': dict(VBASE, Shapes=['empty', 'ended'], Sizes=[4], MaxPeriod=3),
}
VTIERS = {'quick': ['deliver'], 'thorough': ['deliver+', 'deliver3+']}
VKEEP = r'done = TRUE'
# deliveries per run of a list (besides the string): schedule x form combinations, taken in turn from a seeded order
NDELIVER = {'quick': 3, 'thorough': 2}
LONG_EVERY = {'quick': 60, 'thorough': 150}        # one list in so many is also run as a long list (between filler documents, across the reader's refill point)
READ_SIZE = {'python': 4096, 'libyaml': 16384}     # units the readers ask for per read (reader.py update_raw / libyaml raw buffer)
EMIT_PAIRS = [('python', 'Dumper', 'python', 'Loader'), ('python', 'Dumper', 'libyaml', 'CLoader'),
              ('libyaml', 'CDumper', 'libyaml', 'CLoader'), ('libyaml', 'CDumper', 'python', 'Loader')]
NODE_PAIRS = [('python', 'Dumper', 'python', 'Loader'), ('libyaml', 'CDumper', 'libyaml', 'CLoader'),
              ('python', 'SafeDumper', 'libyaml', 'CSafeLoader'), ('libyaml', 'CSafeDumper', 'python', 'SafeLoader')]
VALUE_PAIRS = [('python', 'SafeDumper', 'python', 'SafeLoader'), ('libyaml', 'CSafeDumper', 'libyaml', 'CSafeLoader'),
               ('python', 'Dumper', 'libyaml', 'CSafeLoader'), ('libyaml', 'CDumper', 'python', 'SafeLoader')]
QUICK_PAIRS = 2          # node / value pairings used in the quick tier
# long lists: one pairing per back-end (the list is sized for that back-end's reader)
LONG_PAIRS = {'python': [('python', 'Dumper', 'python', 'Loader')], 'libyaml': [('libyaml', 'CDumper', 'libyaml', 'CLoader')]}
LONG_VALUE_PAIRS = {'python': [('python', 'SafeDumper', 'python', 'SafeLoader')],
                    'libyaml': [('libyaml', 'CSafeDumper', 'libyaml', 'CSafeLoader')]}


class LogStream:
    encoding = 'utf-8'          # both back-ends then write str

    def __init__(self):
        self.chunks = []

    def write(self, data):
        self.chunks.append(data if isinstance(data, str) else data.decode('utf-8'))

    def flush(self):
        pass

    def text(self):
        if len(self.chunks) > 1:
            self.chunks = [''.join(self.chunks)]
        return self.chunks[0] if self.chunks else ''


# ------------------------------------------------------------------ stage drivers: events -> nodes -> values
def builders(yaml):
    E = yaml.events

    class Source:
        def __init__(self, events):
            self.evs = list(events)

        def check_event(self, *choices):
            if self.evs:
                if not choices:
                    return True
                return isinstance(self.evs[0], choices)
            return False

        def peek_event(self):
            return self.evs[0] if self.evs else None

        def get_event(self):
            return self.evs.pop(0) if self.evs else None

    class Nodes(Source, yaml.composer.Composer, yaml.resolver.Resolver):
        def __init__(self, events):
            Source.__init__(self, events)
            yaml.composer.Composer.__init__(self)
            yaml.resolver.Resolver.__init__(self)

    class Values(Source, yaml.composer.Composer, yaml.constructor.SafeConstructor, yaml.resolver.Resolver):
        def __init__(self, events):
            Source.__init__(self, events)
            yaml.composer.Composer.__init__(self)
            yaml.constructor.SafeConstructor.__init__(self)
            yaml.resolver.Resolver.__init__(self)

    def nodes_of(events):
        b, out = Nodes(events), []
        while b.check_node():
            out.append(b.get_node())
        return out

    def values_of(events):
        b, out = Values(events), []
        while b.check_data():
            out.append(b.get_data())
        return out
    return nodes_of, values_of, dd.token_parser(yaml)


def node_doc(yaml, node):
    """canonical traversal of a node graph as H_EventEq records (tags are never elidable: implicit flags 0)"""
    refs, order = {}, []

    def count(n):
        refs[id(n)] = refs.get(id(n), 0) + 1
        if refs[id(n)] > 1:
            return
        if isinstance(n, yaml.SequenceNode):
            for c in n.value:
                count(c)
        elif isinstance(n, yaml.MappingNode):
            for k, v in n.value:
                count(k)
                count(v)
    count(node)
    names, out = {}, []

    def walk(n):
        if id(n) in names:
            out.append({'k': 'Alias', 'a': ep.cps(names[id(n)])})
            return
        r = {'t': ep.cps(n.tag)}
        if refs[id(n)] > 1:
            names[id(n)] = 'n%d' % (len(names) + 1)
            r['a'] = ep.cps(names[id(n)])
        if isinstance(n, yaml.ScalarNode):
            out.append(dict(r, k='Scalar', v=ep.cps(n.value), i=[0, 0]))
        elif isinstance(n, yaml.SequenceNode):
            out.append(dict(r, k='SequenceStart', i=[0]))
            for c in n.value:
                walk(c)
            out.append({'k': 'SequenceEnd'})
        else:
            out.append(dict(r, k='MappingStart', i=[0]))
            for k, v in n.value:
                walk(k)
                walk(v)
            out.append({'k': 'MappingEnd'})
    walk(node)
    return [{'k': 'DocumentStart'}] + [{k: x for k, x in r.items() if k == 'k' or x} for r in out] + [{'k': 'DocumentEnd'}]


def value_doc(value):
    """canonical traversal of a plain Python value as H_EventEq records (type name as tag, repr as scalar text)"""
    seen, out = {}, []

    def walk(x):
        if isinstance(x, (list, dict)):
            if id(x) in seen:
                out.append({'k': 'Alias', 'a': ep.cps(seen[id(x)])})
                return
            seen[id(x)] = 'v%d' % (len(seen) + 1)
            if isinstance(x, list):
                out.append({'k': 'SequenceStart', 't': ep.cps('list'), 'i': [0]})
                for c in x:
                    walk(c)
                out.append({'k': 'SequenceEnd'})
            else:
                out.append({'k': 'MappingStart', 't': ep.cps('dict'), 'i': [0]})
                for k, v in x.items():
                    walk(k)
                    walk(v)
                out.append({'k': 'MappingEnd'})
        else:
            r = {'k': 'Scalar', 't': ep.cps(type(x).__name__), 'i': [0, 0]}
            v = ep.cps(x if isinstance(x, str) else repr(x))
            if v:
                r['v'] = v
            out.append(r)
    walk(value)
    return [{'k': 'DocumentStart'}] + out + [{'k': 'DocumentEnd'}]


def plain_value(x, depth):
    """values whose canonical traversal is well defined: str/int/float/bool/None, lists, dicts with scalar keys"""
    if depth > 20:
        return False
    if isinstance(x, list):
        return all(plain_value(c, depth + 1) for c in x)
    if isinstance(x, dict):
        return all(isinstance(k, (str, int, bool, type(None))) and plain_value(c, depth + 1) for k, c in x.items())
    return x is None or type(x) in (str, int, float, bool)


def split_docs(recs):
    docs, cur = [], None
    for r in recs:
        if r['k'] == 'DocumentStart':
            cur = [r]
        elif cur is not None:
            cur.append(r)
            if r['k'] == 'DocumentEnd':
                docs.append(cur)
                cur = None
    return docs


def feed(items, mode):
    """how the documents of a dump_all() reach the dumper (delivery modes of spec/DocFeed.tla):
    list   the live values themselves
    fresh  a generator that builds every value freshly and keeps no reference to the earlier ones
    again  ONE mutable object, handed over again and again, modified in between to show the next value"""
    if mode == 'fresh':
        return (copy.deepcopy(x) for x in items)
    if mode == 'again':
        def gen():
            o = type(items[0])()
            for x in items:
                c = copy.deepcopy(x)
                o.clear()
                if isinstance(o, dict):
                    o.update(c)
                else:
                    o.extend(c)
                yield o
        return gen()
    return items


def observe(yaml, path, items, D, L, opts, is_end=None, mode='list'):
    """one run: write `items` (events / nodes / values) with snapshots after every document, read back.
    -> (outcome, err, snaps, final, dout)"""
    s = LogStream()
    snaps = []

    def gen():
        for it in feed(items, mode):
            yield it
            if is_end is None or is_end(it):
                snaps.append(s.text())
    try:
        if path == 'emit':
            yaml.emit(gen(), stream=s, Dumper=D, **opts)
        elif path == 'serialize':
            yaml.serialize_all(gen(), stream=s, Dumper=D, **opts)
        elif mode == 'driven':          # a Dumper object driven directly; every value is built, represented and dropped
            d = D(s, **opts)
            try:
                d.open()
                for j in range(len(items)):
                    v = copy.deepcopy(items[j])
                    d.represent(v)
                    del v
                    snaps.append(s.text())
                d.close()
            finally:
                d.dispose()
        else:
            yaml.dump_all(gen(), stream=s, Dumper=D, **opts)
    except yaml.YAMLError as e:
        return type(e).__name__, str(e)[:200], snaps, s.text(), []
    except Exception as e:
        return 'exception', '%s: %s' % (type(e).__name__, str(e)[:200]), snaps, s.text(), []
    final = s.text()
    outcome, err, dout = read_back(yaml, path, 'parse', final, L)
    return outcome, err, snaps, final, dout


def read_back(yaml, path, api, src, L, events_of=None):
    """the documents of `src` (str, or a file-like object) as records: emit path through parse() - or scan() and a Parser fed with
    its tokens -, serialize path through compose_all(), dump path through load_all()  -> (outcome, err, dout)"""
    try:
        if path == 'emit' and api == 'scan':
            dout = split_docs([ep.project(e) for e in events_of(list(yaml.scan(src, Loader=L)))])
        elif path == 'emit':
            dout = split_docs([ep.project(e) for e in yaml.parse(src, Loader=L)])
        elif path == 'serialize':
            dout = [node_doc(yaml, n) for n in yaml.compose_all(src, Loader=L)]
        else:
            dout = [value_doc(x) for x in yaml.load_all(src, Loader=L)]
    except Exception as e:
        return 'ParseError', '%s: %s' % (type(e).__name__, str(e)[:200]), []
    return 'ok', '', dout


def same_docs(din, dout):
    """pre-filter only (which observations are trivially identical); the judgement is Trace_Docs.tla's"""
    return len(dout) == len(din) and \
        all(len(a) == len(b) and all(x.get(k) == y.get(k) for x, y in zip(a, b) for k in ('k', 'a', 't', 'v', 'ver', 'tags'))
            for a, b in zip(din, dout))


def next_deliveries(out, k):
    """k (form, schedule) combinations, in turn from the seeded order of all combinations of the model's schedules"""
    combos = out['combos']
    if not combos:
        return []
    pick = [combos[(out['dk'] + i) % len(combos)] for i in range(k)]
    out['dk'] += k
    return pick


def run_list(yaml, tools, events, opts, rnd, out, sample, origin, paths=('emit', 'serialize', 'dump'), long=False):
    """all observations for one list of documents given as an event stream (SS docs SE); long = back-end name: a long list, run
    through that back-end's pairing only"""
    E = yaml.events
    nodes_of, values_of, events_of = tools
    docs_in = split_docs([ep.project(e) for e in events])
    n = len(docs_in)
    sigs, cur, dsig, one = [], [], [], []   # what has been handed to the dumper up to the end of document j (complete attributes)
    for e in events:
        cur.append(ep.ev_repr(e))
        one.append(cur[-1])
        if isinstance(e, E.DocumentStartEvent):
            one = [cur[-1]]
        if isinstance(e, E.DocumentEndEvent):
            sigs.append('' if long else '|'.join(cur))        # (long lists join no prefix families)
            dsig.append('|'.join(one))

    def shared(objs):
        """a list may contain the same object more than once: equal documents handed over as one object"""
        first, out = {}, []
        for j, o in enumerate(objs):
            out.append(first.setdefault(dsig[j], o))
        return out if any(a is not b for a, b in zip(out, objs)) else None
    ds = [e for e in events if isinstance(e, E.DocumentStartEvent)]
    de = [e for e in events if isinstance(e, E.DocumentEndEvent)]
    uniform = len({(bool(e.explicit), e.version, tuple(sorted((e.tags or {}).items()))) for e in ds}) <= 1 and \
        len({bool(e.explicit) for e in de}) <= 1
    runs = []
    if 'emit' in paths:
        for em, D, pa, L in (LONG_PAIRS[long] if long else EMIT_PAIRS):
            runs.append(('emit', em, D, pa, L, events, docs_in, opts, lambda it: isinstance(it, E.DocumentEndEvent)))
    if uniform and n and 'serialize' in paths:
        lopts = dict(opts, explicit_start=bool(ds[0].explicit), explicit_end=bool(de[0].explicit), version=ds[0].version,
                     tags=ds[0].tags)
        try:
            nodes = nodes_of(events)
        except Exception:
            nodes = None
        otags = sorted([ep.cps(h), ep.cps(p)] for h, p in (ds[0].tags or {}).items())

        def with_otags(docs):           # the %TAG option of the call, as an (uncompared) attribute of the input documents
            return [[dict(d[0], otags=otags)] + d[1:] for d in docs] if otags else docs
        if nodes is not None and len(nodes) == n:
            din = with_otags([node_doc(yaml, x) for x in nodes])
            for em, D, pa, L in (LONG_PAIRS[long] if long else NODE_PAIRS[:out.get('npairs', 4)]):
                runs.append(('serialize', em, D, pa, L, nodes, din, lopts, None))
                if shared(nodes) and not long:
                    runs.append(('serialize', em, D, pa, L, shared(nodes), din, lopts, None))
            try:
                values = values_of(events) if 'dump' in paths else None
            except Exception:
                values = None
            if values is not None and len(values) == n and all(plain_value(x, 0) for x in values):
                din = with_otags([value_doc(x) for x in values])
                for em, D, pa, L in (LONG_VALUE_PAIRS[long] if long else VALUE_PAIRS[:out.get('npairs', 4)]):
                    runs.append(('dump', em, D, pa, L, values, din, dict(lopts, sort_keys=False), None))
                    if long:
                        continue
                    if shared(values):
                        runs.append(('dump', em, D, pa, L, shared(values), din, dict(lopts, sort_keys=False), None))
                    modes = ['fresh', 'driven']
                    if n >= 2 and (all(type(x) is dict for x in values) or all(type(x) is list for x in values)):
                        modes.append('again')
                    for mode in modes:
                        runs.append(('dump', em, D, pa, L, values, din, dict(lopts, sort_keys=False), None, mode))
    for run in runs:
        path, em, D, pa, L, items, din, o, is_end = run[:9]
        mode = run[9] if len(run) > 9 else 'list'
        outcome, err, snaps, final, dout = observe(yaml, path, items, getattr(yaml, D), getattr(yaml, L), o, is_end, mode)
        out['runs'] += 1
        prefixes = all(final.startswith(x) for x in snaps)
        okish = outcome == 'ok' and len(snaps) == len(din) and prefixes and same_docs(din, dout)

        def record(outcome, err, dout, **more):
            t = {'fam': 0, 'outcome': outcome, 'din': din, 'dout': dout, 'final': ep.cps(final)}
            if long and prefixes:
                t['snapoff'] = [len(x) for x in snaps]
            else:
                t['snaps'] = [ep.cps(x) for x in snaps]
            if 'unread' in more:
                t['unread'] = more['unread']
            out['traces'].append(t)
            out['meta'].append(dict({'path': path, 'feed': mode, 'emitter': em, 'dumper': D, 'parser': pa, 'loader': L, 'opts': repr(o),
                                     'final': final[:400], 'err': err, 'origin': origin, 'docs': n, 'delivery': 'str'}, **more))
        if okish:
            out['same'] += 1
        if not okish or rnd.random() < sample:
            record(outcome, err, dout)
        # read side: the same text handed to the loader as a file-like object under schedules of spec/DocDeliver.tla
        if okish and mode == 'list':
            bounds = [len(x) for x in snaps]
            picks = next_deliveries(out, out.get('ndeliver', 0))
            if long and out['combos']:              # exact-size reads: what long texts add
                picks = [('text', ('all',)), ('b8', ('all',))] + picks
            for form, sched in picks:
                api = 'scan' if path == 'emit' and out['delivered'] % 2 else 'parse'
                stream = dd.open_stream(final, bounds, form, sched)
                outcome2, err2, dout2 = read_back(yaml, path, api, stream, getattr(yaml, L), events_of)
                out['runs'] += 1
                out['delivered'] += 1
                ok2 = outcome2 == 'ok' and same_docs(din, dout2)
                if ok2:
                    out['same'] += 1
                if not ok2 or rnd.random() < sample / 2:
                    record(outcome2, err2, dout2, unread=len(stream.data) - stream.pos, delivery=form, schedule='+'.join(sched),
                           api=api if path == 'emit' else {'serialize': 'compose_all', 'dump': 'load_all'}[path],
                           reads=[list(x) for x in stream.log[:12]])
        # families: the text after the first j documents, keyed by what was written so far
        if outcome == 'ok' and not long:
            for j, x in enumerate(snaps):
                key = (path, D, repr(sorted(o.items())), sigs[j] if j < len(sigs) else '?')
                out['fam'].setdefault(key, set()).add(x)


def new_out(extra):
    """accumulator of one worker; the (form, schedule) combinations in a seeded order"""
    combos = [(f, tuple(sc)) for sc in extra.get('scheds', []) for f in dd.FORMS]
    random.Random(extra['seed'] * 7 + 1).shuffle(combos)
    return {'runs': 0, 'same': 0, 'delivered': 0, 'traces': [], 'meta': [], 'fam': {}, 'lists': 0, 'long_lists': 0, 'sizes': {},
            'samples': [], 'ndrift': 0, 'drift': [], 'npairs': extra.get('npairs', 4), 'combos': combos, 'dk': 0,
            'ndeliver': extra.get('ndeliver', 0)}


def long_events(yaml, events, D, size, delta, opts):
    """SS filler docs filler SE: the first filler document ends about `delta` units before offset `size` of the text the dumper D
    writes, the second one is a full piece long.  Fillers are plain one-scalar documents with the start / end attributes of the
    list's first document (so that serialize_all / dump_all can take the list with one option set)."""
    E = yaml.events
    ds = next(e for e in events if isinstance(e, E.DocumentStartEvent))
    de = next(e for e in events if isinstance(e, E.DocumentEndEvent))

    def filler(n):
        text = ('filler ' * (n // 7 + 2))[:max(1, n)].rstrip()
        return [E.DocumentStartEvent(explicit=ds.explicit, version=ds.version, tags=ds.tags),
                E.ScalarEvent(None, None, (True, False), text), E.DocumentEndEvent(explicit=de.explicit)]
    n = size - 300
    for _ in range(3):      # measure where the filler document ends (+ what the stream end adds), correct its length; three rounds (folding adds units)
        mark = len(yaml.emit([events[0]] + filler(n) + [events[-1]], Dumper=getattr(yaml, D), **opts))
        n += size - delta - mark
    return [events[0]] + filler(n) + events[1:-1] + filler(size + 64) + [events[-1]]


def docs_work(states, extra):
    yaml = use_repo()
    tools = builders(yaml)
    rnd = random.Random(extra['seed'])
    out = new_out(extra)
    for st in states:
        m, hist = st['m'], st['hist']
        if not (m['outcome'] == 'done' and not m['events']) or not ep.attr_ok(hist):
            continue
        out['lists'] += 1
        nd = sum(1 for e in hist if e['k'] == 'DocumentStart')
        out['sizes'][nd] = out['sizes'].get(nd, 0) + 1
        events = [ep.model_event(yaml, e) for e in hist]
        opts = ep.model_opts(m['opt'])
        before = len(out['traces'])
        run_list(yaml, tools, events, opts, rnd, out, extra['sample'], 'model')
        # long list: the list between two filler documents sized so that its documents lie across the point at which the reader
        # asks its stream for the next piece (4096 / 16384 units) and at least one more full piece follows: reads of exactly the
        # size asked for occur, and document boundaries fall before, on and after the refill point (offset seeded per list)
        tlen = len(m['w']['out'])
        if extra.get('long_every') and nd >= 1 and zlib.crc32(repr(hist).encode()) % extra['long_every'] == 0:
            for em, size in sorted(READ_SIZE.items()):
                run_list(yaml, tools, long_events(yaml, events, LONG_PAIRS[em][0][1], size, zlib.crc32(repr(hist).encode()) // 7 % (tlen + 9),
                                                  opts), opts, rnd, out, extra['sample'], 'model-long', long=em)
            out['long_lists'] += 1
        # L comparison (drift only): final text and the snapshot offsets of the model against the Python emit path
        s = LogStream()
        try:
            yaml.emit(events, stream=s, Dumper=yaml.Dumper, **opts)
            if s.text() != ep.text_of(m['w']['out']):
                out['ndrift'] += 1
                if len(out['drift']) < 2:
                    out['drift'].append({'events': [ep.ev_repr(e) for e in events], 'model': ep.text_of(m['w']['out']), 'real': s.text()})
        except Exception:
            pass
        if len(out['samples']) < 1 and nd >= 2:
            out['samples'].append({'documents': nd, 'text': ep.text_of(m['w']['out']), 'snapshots_at': list(m['snaps'])})
    out['fam'] = {k: sorted(x) for k, x in out['fam'].items()}
    return out


# ------------------------------------------------------------------ spec -> code: every behaviour of DocDeliver.tla
def deliver_work(states, extra):
    """every complete behaviour of the model (documents, schedule, read size): its text is handed to loaders whose reader asks for
    the model's number of units per read, as a text and as a byte stream that follow the schedule; the documents that come back
    are judged against the documents the model wrote (Trace_Docs.tla); the reads are compared with the model's log (L, drift)"""
    yaml = use_repo()
    nodes_of, values_of, events_of = builders(yaml)
    E = yaml.events
    rnd = random.Random(extra['seed'])
    out = {'runs': 0, 'same': 0, 'delivered': 0, 'traces': [], 'meta': [], 'fam': {}, 'lists': 0, 'behaviours': 0, 'scheds': set(),
           'ndrift': 0, 'drift': [], 'samples': [], 'short': 0}
    for st in states:
        if not st['done']:
            continue
        out['behaviours'] += 1
        sched, units, size = tuple(st['sched']), st['text'], st['size']
        out['scheds'].add(sched)
        text = ''.join(chr(u['c']) for u in units)
        bounds = [i + 1 for i, u in enumerate(units) if u['d'] > 0 and (i + 1 == len(units) or units[i + 1]['d'] != u['d'])]
        events = [E.StreamStartEvent()]
        for val in st['expect']:
            events += [E.DocumentStartEvent(explicit=True), E.ScalarEvent(None, None, (True, True), ep.text_of(val)),
                       E.DocumentEndEvent(explicit=False)]
        events.append(E.StreamEndEvent())
        dins = {'emit': split_docs([ep.project(e) for e in events]), 'serialize': [node_doc(yaml, x) for x in nodes_of(list(events))],
                'dump': [value_doc(x) for x in values_of(list(events))]}
        if any(0 < g < a for a, g in st['log'][:-2]):
            out['short'] += 1
        for form in ('text', 'b8'):
            for path, api, base in (('emit', 'parse', 'Loader'), ('emit', 'scan', 'Loader'), ('serialize', 'parse', 'Loader'),
                                    ('dump', 'parse', 'SafeLoader')):
                stream = dd.open_stream(text, bounds, form, sched)
                L = dd.sized_loader(yaml, base, size)
                outcome, err, dout = read_back(yaml, path, api, stream, L, events_of)
                out['runs'] += 1
                out['delivered'] += 1
                din = dins[path]
                ok = outcome == 'ok' and same_docs(din, dout)
                if ok:
                    out['same'] += 1
                if not ok or rnd.random() < extra['sample']:
                    out['traces'].append({'fam': 0, 'outcome': outcome, 'din': din, 'dout': dout, 'final': ep.cps(text),
                                          'snapoff': bounds, 'unread': len(stream.data) - stream.pos})
                    out['meta'].append({'path': path, 'feed': '-', 'emitter': 'model', 'dumper': '-', 'parser': 'python',
                                        'loader': L.__name__, 'opts': 'reader asks for %d units per read' % size, 'final': text,
                                        'err': err, 'origin': 'DocDeliver', 'docs': len(din), 'delivery': form,
                                        'schedule': '+'.join(sched), 'api': api if path == 'emit' else {'serialize': 'compose_all', 'dump': 'load_all'}[path],
                                        'reads': [list(x) for x in stream.log[:12]]})
                reads = [list(x) for x in stream.log]
                if reads != [list(x) for x in st['log']]:
                    out['ndrift'] += 1
                    if len(out['drift']) < 2:
                        out['drift'].append({'text': text, 'schedule': list(sched), 'form': form, 'api': api, 'model': st['log'], 'real': reads})
        if len(out['samples']) < 1 and len(bounds) >= 2 and len(sched) > 1:
            out['samples'].append({'text': text, 'schedule': list(sched), 'read_size': size, 'reads': st['log']})
    out['scheds'] = sorted(out['scheds'])
    return out


# ------------------------------------------------------------------ code -> spec: documents of the data files
OPTS = [dict(canonical=c, indent=i, width=w, allow_unicode=u, line_break=l)
        for c in (False, True) for i in (2, 4) for w in (20, 80) for u in (False, True) for l in ('\n', '\r\n')]


def corpus_work(args):
    files, seed, nlists, sample, extra = args
    yaml = use_repo()
    tools = builders(yaml)
    E = yaml.events
    rnd = random.Random(seed)
    pool = []
    for f in files:
        try:
            evs = list(yaml.parse(open(f, 'rb').read(), Loader=yaml.Loader))
        except Exception:
            continue
        if any(0xD800 <= ord(c) <= 0xDFFF for e in evs for c in (getattr(e, 'value', None) or '')):
            continue
        cur = None
        for e in evs:
            if isinstance(e, E.DocumentStartEvent):
                cur = [e]
            elif cur is not None:
                cur.append(e)
                if isinstance(e, E.DocumentEndEvent):
                    if len(cur) <= 40:
                        pool.append((os.path.basename(f), cur))
                    cur = None
    out = new_out(dict(extra, seed=seed))
    if not pool:
        return out
    for j in range(nlists):
        k = rnd.randrange(1, 5)
        base = [rnd.choice(pool) for _ in range(k)]
        xs, xe = rnd.choice([None, False, True]), rnd.choice([None, False, True])
        ver, tags = rnd.choice([None, None, (1, 1)]), rnd.choice([None, None, {'!h1!': 't:h1:'}])
        opts = rnd.choice(OPTS)
        # the same leading documents with different continuations: the list and each proper prefix followed by another document
        lists = [base] + [base[:i] + [rnd.choice(pool)] for i in range(1, k)]
        for docs in lists:
            events = [E.StreamStartEvent()]
            for name, d in docs:
                s0, e0 = d[0], d[-1]
                if xs is not None or ver or tags:
                    s0 = E.DocumentStartEvent(explicit=s0.explicit if xs is None else xs, version=ver or s0.version,
                                              tags=tags if tags and not s0.tags else s0.tags)
                if xe is not None:
                    e0 = E.DocumentEndEvent(explicit=xe)
                events += [s0] + d[1:-1] + [e0]
            events.append(E.StreamEndEvent())
            out['lists'] += 1
            run_list(yaml, tools, events, opts, rnd, out, sample, '+'.join(n for n, _ in docs))
    out['fam'] = {k: sorted(x) for k, x in out['fam'].items()}
    return out


def judge_all(v, outs, tag, acc):
    traces = [t for o in outs for t in o['traces']]
    meta = [m for o in outs for m in o['meta']]
    fam = {}
    for o in outs:
        for k, xs in o['fam'].items():
            fam.setdefault(k, set()).update(xs)
    rnd = random.Random(SEED)
    nfam = len(fam)
    for k, xs in sorted(fam.items()):
        if len(xs) > 1 or rnd.random() < 0.002:
            traces.append({'fam': 1, 'texts': [ep.cps(x) for x in sorted(xs)]})
            meta.append({'path': k[0], 'emitter': 'libyaml' if k[1].startswith('C') else 'python', 'dumper': k[1], 'parser': '-',
                         'loader': '-', 'opts': k[2], 'final': sorted(xs)[:3], 'err': '', 'origin': 'family', 'docs': 0})
    uniq, index = {}, []
    for t in traces:                 # identical observations are judged once
        index.append(uniq.setdefault(json.dumps(t, sort_keys=True), len(uniq)))
    utraces = [json.loads(k) for k in uniq]
    uverdicts, s2 = trace.judge('Trace_Docs', utraces, tag, batch=5000)
    verdicts = [uverdicts[i] for i in index]
    acc['states'] += s2
    acc['runs'] += sum(o['runs'] for o in outs)
    acc['judged'] += len(utraces)
    acc['families'] += nfam
    acc['lists'] += sum(o['lists'] for o in outs)
    acc['delivered'] = acc.get('delivered', 0) + sum(o.get('delivered', 0) for o in outs)
    acc['long_lists'] = acc.get('long_lists', 0) + sum(o.get('long_lists', 0) for o in outs)
    for m, t, (ok, why, at) in zip(meta, traces, verdicts):
        if not ok:
            clause, defect, kind = (why.split(':') + ['', ''])[:3]
            v.violation({'path': m['path'], 'feed': m.get('feed', '-'), 'emitter': m['emitter'], 'parser': m['parser'], 'clause': clause,
                         'defect': defect or clause, 'emptyroot': kind or '-', 'dumper': m['dumper'], 'delivery': m.get('delivery', '-')},
                        dict(m, outcome=t.get('outcome'), at_document=at))


def main(tier, replay=None):
    v = Verdict('C12', tier)
    yaml = use_repo()
    fix = calibrate(yaml)
    _t('start')
    acc = {'states': 0, 'trans': 0, 'runs': 0, 'judged': 0, 'families': 0, 'lists': 0, 'sizes': {}, 'samples': []}
    names = [n for n in DTIERS[tier] if not os.environ.get('C12_DEV') or n in os.environ['C12_DEV'].split(',')]
    jobs = [(name, dict(module='MC_Emitter', cfg='MC_Emitter.cfg', dump=True, tag='C12_' + name, timeout=3000, coverage=False,
                        constants={k: (x if isinstance(x, str) else tla(x)) for k, x in dict(DCONF[name], Fix=fix).items()}))
            for name in names]
    # spec/DocFeed.tla: the representer's per-document bookkeeping against the ways documents are handed over; the two negative
    # controls (no cache reset, with / without keeper reset) must fail - their counterexamples are the delivery modes replayed below
    feed = dict(module='DocFeed', cfg='DocFeed.cfg', timeout=600, coverage=False)
    jobs += [('feed', dict(feed, tag='C12_feed', constants={'MaxDocs': 4 if tier == 'quick' else 5})),
             ('feed_nc1', dict(feed, tag='C12_feed_nc1', constants={'ResetCache': 'FALSE'})),
             ('feed_nc2', dict(feed, tag='C12_feed_nc2', constants={'ResetCache': 'FALSE', 'ResetKeeper': 'FALSE'}))]
    # spec/DocDeliver.tla: the text handed back to a loader by a stream under every schedule; negative control "a short piece is the
    # end of input" must violate DocBoundariesKept
    vnames = [n for n in VTIERS[tier] if not os.environ.get('C12_DEV') or n in os.environ['C12_DEV'].split(',')]
    vconst = lambda c: {k: (x if isinstance(x, str) else tla(x)) for k, x in c.items()}
    jobs += [(name, dict(module='DocDeliver', cfg='DocDeliver.cfg', dump=True, tag='C12_' + name, timeout=3000, coverage=False,
                         constants=vconst(VCONF[name]))) for name in vnames]
    jobs += [('deliver_nc', dict(module='DocDeliver', cfg='DocDeliver_nc.cfg', tag='C12_deliver_nc', timeout=600, coverage=False,
                                 constants=vconst(VCONF['deliver'])))]
    results = ep.run_tlc_many(jobs, parallel=(6 if tier == 'quick' else 3) if PROCS >= 16 else 1, workers=min(PROCS, 4 if tier == 'quick' else 5))
    if 'DocBoundariesKept' not in results['deliver_nc'].violated:
        raise SystemExit('machinery failure: negative control of DocDeliver.tla (end of input on a short piece) is not violated')
    r = results['feed']
    if r.violated or not r.ok:
        print(r.out[-2000:])
        raise SystemExit('machinery failure: DocFeed.tla violates %s' % r.violated)
    for nc in ('feed_nc1', 'feed_nc2'):
        if not results[nc].violated:
            raise SystemExit('machinery failure: negative control %s of DocFeed.tla is not violated (vacuous invariant)' % nc)
    acc['states'] += r.distinct
    acc['trans'] += r.generated
    acc['docfeed_states'] = r.distinct
    _t('tlc x%d' % len(jobs))
    all_outs = []
    scheds, nbeh, nshort = set(), 0, 0
    for name in vnames:
        r = results[name]
        if r.violated:
            print(r.out[-3000:])
            raise SystemExit('machinery failure: DocDeliver.tla violates %s in configuration %s' % (r.violated, name))
        tlc.require_ok(r, 'DocDeliver/' + name)
        acc['states'] += r.distinct
        acc['trans'] += r.generated
        acc['deliver_states'] = acc.get('deliver_states', 0) + r.distinct
        n, outs, _ = ep.pmap_raw(deliver_work, r.dump, {'seed': SEED * 17 + len(name), 'sample': 0.01}, VKEEP, procs=PROCS)
        os.remove(r.dump)
        if n != r.distinct:
            raise SystemExit('machinery failure: dump has %d states, TLC found %d' % (n, r.distinct))
        for o in outs:
            scheds.update(tuple(x) for x in o['scheds'])
            acc['samples'] += o['samples'][:1]
        nbeh += sum(o['behaviours'] for o in outs)
        nshort += sum(o['short'] for o in outs)
        nd = sum(o['ndrift'] for o in outs)
        if nd:
            v.note('spec-drift C12/%s: %d deliveries where the reads of the real reader differ from DocDeliver.tla, e.g. %s'
                   % (name, nd, json.dumps([d for o in outs for d in o['drift']][:1])[:800]))
        all_outs += outs
        _t('replay ' + name)
    if vnames and not (nbeh and nshort and scheds):
        raise SystemExit('machinery failure: DocDeliver.tla produced no behaviour with a short read')
    acc['deliver_behaviours'], acc['deliver_schedules'] = nbeh, len(scheds)
    dextra = {'scheds': sorted(scheds), 'ndeliver': NDELIVER[tier]}
    for name in names:
        r = results[name]
        if r.violated:
            print(r.out[-3000:])
            raise SystemExit('machinery failure: Emitter.tla violates %s in configuration %s' % (r.violated, name))
        tlc.require_ok(r, 'MC_Emitter/' + name)
        acc['states'] += r.distinct
        acc['trans'] += r.generated
        n, outs, _ = ep.pmap_raw(docs_work, r.dump, dict(dextra, seed=SEED * 31 + len(name), sample=0.01, long_every=LONG_EVERY[tier],
                                                         npairs=QUICK_PAIRS if tier == 'quick' else 4), KEEP, procs=PROCS)
        os.remove(r.dump)
        if n != r.distinct:
            raise SystemExit('machinery failure: dump has %d states, TLC found %d' % (n, r.distinct))
        for o in outs:
            for k, c in o['sizes'].items():
                acc['sizes'][k] = acc['sizes'].get(k, 0) + c
            acc['samples'] += o['samples'][:1]
        nd = sum(o['ndrift'] for o in outs)
        if nd:
            v.note('spec-drift C12/%s: %d lists where the Python emitter text differs from Emitter.tla, e.g. %s'
                   % (name, nd, json.dumps([d for o in outs for d in o['drift']][:1])[:800]))
        all_outs += outs
        _t('replay ' + name)
    if not os.environ.get('C12_DEV'):
        files = sorted(glob.glob(os.path.join(REPO, 'tests/legacy_tests/data/*.data')) +
                       glob.glob(os.path.join(REPO, 'tests/legacy_tests/data/*.canonical')))
        files = [f for f in files if os.path.getsize(f) < 20000]
        nl = 6 if tier == 'quick' else 60
        with mp.Pool(PROCS) as pool:
            outs = pool.map(corpus_work, [(files[i::32], SEED * 1009 + i, nl, 0.01, dextra) for i in range(32)])
        acc['corpus_lists'] = sum(o['lists'] for o in outs)
        all_outs += outs
        _t('corpus runs')
    judge_all(v, all_outs, 'C12_judge', acc)
    _t('judge')
    v.cov = {'states': acc['states'], 'transitions': acc['trans'], 'traces_validated_against_impl': acc['runs'],
             'runs_judged_by_tlc': acc['judged'], 'document_lists': acc['lists'], 'lists_by_number_of_documents': acc['sizes'],
             'prefix_families': acc['families'], 'docfeed_states': acc.get('docfeed_states'),
             'deliver_states': acc.get('deliver_states', 0), 'deliver_behaviours_replayed': acc.get('deliver_behaviours', 0),
             'deliver_schedules': acc.get('deliver_schedules', 0), 'reads_back_from_streams': acc.get('delivered', 0),
             'long_lists': acc.get('long_lists', 0), 'corpus_lists': acc.get('corpus_lists', 0), 'exhaustive': True,
             'L_variant_repairs_detected_in_tree': fix, 'samples': acc['samples'][:5],
             'distinct_nontrivial': sum(c for k, c in acc['sizes'].items() if int(k) >= 2),
             'rule': 'every list of 0..k documents of the model configurations is written through emit / serialize_all / dump_all '
                     'with both back-ends and read back with both loaders; non-trivial = two or more documents',
             'configs': dict({n: DCONF[n] for n in DTIERS[tier]}, **{n: VCONF[n] for n in VTIERS[tier]})}
    v.assumptions = ['serialize_all / dump_all paths are run for lists whose documents share their start/end attributes '
                     '(those calls take them as one option set)',
                     'node and value paths compare the canonical traversal (tags as resolved, identity by alias positions)',
                     'texts contain no lone surrogates',
                     'a stream returns the empty piece only at its end (file protocol); streams deliver str, UTF-8 or UTF-16-LE (with '
                     'byte order mark) bytes; stream read-backs are made for runs whose text reads back correctly from a string']
    return v.finish()
